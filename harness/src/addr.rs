//! C06: addresses against the Addr specification with independent encoders.
use crate::enc::*;
use crate::pools;
use crate::util::*;
use bech32::Fe32;
use elements::address::Payload;
use elements::bitcoin::hashes::Hash as _;
use elements::hashes::Hash as _;
use elements::{Address, AddressParams, PubkeyHash, ScriptHash};
use serde_json::{json, Value};
use std::str::FromStr;

fn params(n: &str) -> &'static AddressParams {
    match n { "liquid" => &AddressParams::LIQUID, "elements" => &AddressParams::ELEMENTS, "liquidtestnet" => &AddressParams::LIQUID_TESTNET, x => panic!("net {}", x) }
}

struct Codes { bech: Code, blech: Code }

fn load_codes(args: &[String]) -> Codes {
    let b = &read_ndjson(&arg(args, "--tab-bech32").expect("--tab-bech32"))[0];
    let l = &read_ndjson(&arg(args, "--tab-blech32").expect("--tab-blech32"))[0];
    Codes { bech: Code::from_table(b), blech: Code::from_table(l) }
}

/// concretise an abstract string; returns (text, key bytes, payload bytes)
fn concretise(s: &Value, codes: &Codes, r: &mut Rng) -> (String, Vec<u8>, Vec<u8>) {
    let keylen = s["keylen"].as_u64().unwrap() as usize;
    let mut key = pools::pubkey(r).serialize().to_vec();
    if keylen == 32 { key.truncate(32); } else if keylen == 34 { key.push(7); } else if keylen == 0 { key.clear(); }
    if s["kind"] == "b58" {
        let hash = pools::rbytes(r, s["hashlen"].as_u64().unwrap() as usize);
        let mut payload = vec![s["outer"].as_u64().unwrap() as u8];
        let inner = s["inner"].as_u64().unwrap();
        if inner != 0 { payload.push(inner as u8); }
        payload.extend(&key);
        payload.extend(&hash);
        let _ = hash;
        (base58check(&payload, s["cksum"] == "ok"), key, payload[1..].to_vec())
    } else {
        let prog = pools::rbytes(r, s["plen"].as_u64().unwrap() as usize);
        let mut bytes = key.clone();
        bytes.extend(&prog);
        let code = if s["code"] == "blech" { &codes.blech } else { &codes.bech };
        let mut text = crate::enc::segwit_string_pad(code, s["hrp"].as_str().unwrap(), s["ver"].as_u64().unwrap() as u8, &bytes, s["variant"].as_str().unwrap(), s["pad"].as_u64().unwrap_or(0) as usize);
        match s["case"].as_str().unwrap() {
            "upper" => text = text.to_uppercase(),
            "mixed" => {
                // upper-case one letter of the data part
                let sep = text.rfind('1').unwrap();
                let mut b = text.into_bytes();
                if let Some(i) = (sep + 1..b.len()).find(|i| b[*i].is_ascii_lowercase()) { b[i] = b[i].to_ascii_uppercase(); }
                if let Some(i) = (0..sep).find(|i| b[*i].is_ascii_uppercase()) { b[i] = b[i].to_ascii_lowercase(); }
                text = String::from_utf8(b).unwrap();
            }
            _ => {}
        }
        let _ = prog;
        (text, key, bytes)
    }
}

fn sclass(s: &Value) -> String {
    if s["kind"] == "b58" {
        format!("b58/outer{}/inner{}/key{}/hash{}/{}", s["outer"], s["inner"], s["keylen"], s["hashlen"], s["cksum"].as_str().unwrap())
    } else {
        format!("seg/{}/{}/v{}/key{}/prog{}/{}-{}{}", s["hrp"].as_str().unwrap(), s["case"].as_str().unwrap(), s["ver"], s["keylen"], s["plen"], s["code"].as_str().unwrap(), s["variant"].as_str().unwrap(),
                if s["pad"].as_u64().unwrap_or(0) > 0 { format!("/padbit{}", s["pad"]) } else { String::new() })
    }
}

pub fn strings(args: &[String], out: &mut Out) {
    let cases = read_ndjson(&arg(args, "--cases").expect("--cases"));
    let codes = load_codes(args);
    let seed = arg_u64(args, "--seed", 1);
    for (ci, c) in cases.iter().enumerate() {
        out.count("distinct_cases");
        out.count("evaluations");
        let s = &c["s"];
        let mut r = rng(seed, 0x0600_0000 + ci as u64);
        let cls = sclass(s);
        let res = guard(|| {
            let mut bad: Vec<(String, String)> = vec![];
            let (text, key, payload) = concretise(s, &codes, &mut r);
            let want_ok = c["ok"].as_bool().unwrap();
            let got = Address::from_str(&text);
            if got.is_ok() != want_ok {
                let key = if want_ok { format!("C06/parse/valid-rejected/{}", cls) }
                          else if s["kind"] == "seg" && s["keylen"] == 33 && s["plen"].as_u64().unwrap() < 2 { "C06/parse/blinded-program-too-short-accepted".to_string() }
                          else { format!("C06/parse/invalid-accepted/{}", cls) };
                bad.push((key, format!("{} -> {:?}", text, got.as_ref().map(|a| a.to_string()).map_err(|e| e.to_string()))));
            }
            let mut n_ok = 0;
            for (nname, wanted) in c["per_net"].as_object().unwrap() {
                let g = Address::parse_with_params(&text, params(nname));
                if g.is_ok() { n_ok += 1; }
                if g.is_ok() != wanted.as_bool().unwrap() {
                    let too_short = s["kind"] == "seg" && s["keylen"] == 33 && s["plen"].as_u64().unwrap() < 2;
                    bad.push((if too_short { "C06/parse/blinded-program-too-short-accepted".to_string() } else { format!("C06/parse_with_params/{}/{}", nname, cls) }, text.clone()));
                }
            }
            if n_ok > 1 { bad.push((format!("C06/parse/more-than-one-network/{}", cls), text.clone())); }
            if let (Ok(a), true) = (&got, want_ok) {
                let w = &c["addr"];
                // what the parser must see: by layout, not by how the string was built
                let blinded = w["blinded"].as_bool().unwrap();
                let (key, payload): (Vec<u8>, Vec<u8>) = if s["kind"] == "seg" {
                    if blinded { (payload[..33].to_vec(), payload[33..].to_vec()) } else { (vec![], payload.clone()) }
                } else if blinded { (payload[1..34].to_vec(), payload[34..].to_vec()) } else { (vec![], payload.clone()) };
                let _ = &key;
                if a.params != params(w["net"].as_str().unwrap()) { bad.push((format!("C06/parse/network/{}", cls), text.clone())); }
                if a.is_blinded() != w["blinded"].as_bool().unwrap() { bad.push((format!("C06/parse/blinded-flag/{}", cls), text.clone())); }
                if let Some(bk) = a.blinding_pubkey { if bk.serialize()[..] != key[..] { bad.push((format!("C06/parse/blinding-key/{}", cls), text.clone())); } }
                match (&a.payload, w["form"].as_str().unwrap()) {
                    (Payload::PubkeyHash(h), "p2pkh") => { if AsRef::<[u8]>::as_ref(h) != &payload[..] { bad.push((format!("C06/parse/hash/{}", cls), text.clone())); } }
                    (Payload::ScriptHash(h), "p2sh") => { if h.to_byte_array()[..] != payload[..] { bad.push((format!("C06/parse/hash/{}", cls), text.clone())); } }
                    (Payload::WitnessProgram { version, program }, "wit") => {
                        if version.to_u8() as u64 != w["ver"].as_u64().unwrap() || program[..] != payload[..] { bad.push((format!("C06/parse/program/{}", cls), text.clone())); }
                        if program.len() < 2 || program.len() > 40 || (version.to_u8() == 0 && program.len() != 20 && program.len() != 32) { bad.push((format!("C06/parse/program-length-invariant/{}", cls), text.clone())); }
                    }
                    _ => bad.push((format!("C06/parse/form/{}", cls), text.clone())),
                }
                // parse then display returns the canonical lower-case form
                let canon = if s["kind"] == "seg" { text.to_lowercase() } else { text.clone() };
                if a.to_string() != canon { bad.push((format!("C06/display/not-canonical/{}", cls), format!("{} vs {}", a, canon))); }
            }
            bad
        });
        let case = json!({"s": s, "case_index": ci, "seed": seed});
        match res { Ok(bad) => for (k, d) in bad { out.viol(&k, case.clone(), d); }, Err(p) => out.viol(&format!("C06/panic/{}", last_panic_loc()), case, p) }
        if ci % 3000 == 17 { out.sample(c.clone()); }
    }
}

pub fn valid(args: &[String], out: &mut Out) {
    let cases = read_ndjson(&arg(args, "--cases").expect("--cases"));
    let codes = load_codes(args);
    let seed = arg_u64(args, "--seed", 1);
    let k = arg_u64(args, "--k", 1);
    for (ci, c) in cases.iter().enumerate() {
        out.count("distinct_cases");
        let a = &c["a"];
        let cls = format!("{}/{}/v{}/len{}/blinded={}", a["net"].as_str().unwrap(), a["form"].as_str().unwrap(), a["ver"], a["plen"], a["blinded"]);
        for j in 0..k {
            out.count("evaluations");
            let mut r = rng(seed, 0x0610_0000 + ((ci as u64) << 6) + j);
            let res = guard(|| {
                let mut bad: Vec<(String, String)> = vec![];
                let (text, key, payload) = concretise(&c["s"], &codes, &mut r);
                let payload: Vec<u8> = if c["s"]["kind"] == "seg" { payload[key.len()..].to_vec() } else if key.is_empty() { payload } else { payload[34..].to_vec() };
                let net = params(a["net"].as_str().unwrap());
                let addr = Address {
                    params: net,
                    payload: match a["form"].as_str().unwrap() {
                        "p2pkh" => { let mut h = [0u8; 20]; h.copy_from_slice(&payload); Payload::PubkeyHash(PubkeyHash::from_byte_array(h)) }
                        "p2sh" => { let mut h = [0u8; 20]; h.copy_from_slice(&payload); Payload::ScriptHash(ScriptHash::from_byte_array(h)) }
                        _ => Payload::WitnessProgram { version: Fe32::try_from(a["ver"].as_u64().unwrap() as u8).unwrap(), program: payload.clone() },
                    },
                    blinding_pubkey: if key.is_empty() { None } else { Some(elements::secp256k1_zkp::PublicKey::from_slice(&key).unwrap()) },
                };
                let shown = addr.to_string();
                if shown != text { bad.push((format!("C06/display/differs-from-independent-encoder/{}", cls), format!("{} vs {}", shown, text))); }
                match Address::from_str(&shown) { Ok(b) if b == addr => {}, other => bad.push((format!("C06/roundtrip/{}", cls), format!("{:?}", other.map(|x| x.to_string()).map_err(|e| e.to_string())))) }
                if a["form"] == "wit" {
                    match Address::from_str(&shown.to_uppercase()) { Ok(b) if b == addr => {}, _ => bad.push((format!("C06/roundtrip-uppercase/{}", cls), shown.to_uppercase())) }
                }
                for (nname, n) in [("liquid", &AddressParams::LIQUID), ("elements", &AddressParams::ELEMENTS), ("liquidtestnet", &AddressParams::LIQUID_TESTNET)] {
                    let ok = Address::parse_with_params(&shown, n).is_ok();
                    if ok != (nname == a["net"].as_str().unwrap()) { bad.push((format!("C06/one-network/{}", cls), format!("{} under {}", shown, nname))); }
                }
                // to_confidential / to_unconfidential keep the payload
                if addr.to_unconfidential().payload != addr.payload || addr.to_unconfidential().is_blinded() { bad.push(("C06/to_unconfidential".into(), cls.clone())); }
                bad
            });
            let case = json!({"a": a, "case_index": ci, "seed": seed, "j": j});
            match res { Ok(bad) => for (k2, d) in bad { out.viol(&k2, case.clone(), d); }, Err(p) => out.viol(&format!("C06/panic/{}", last_panic_loc()), case, p) }
        }
        if ci % 900 == 5 { out.sample(c.clone()); }
    }
}
