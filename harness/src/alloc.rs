//! Counting global allocator: current and peak live bytes (C10 allocation bound).
use std::alloc::{GlobalAlloc, Layout, System};
use std::sync::atomic::{AtomicUsize, Ordering};

pub struct Counting;
static CUR: AtomicUsize = AtomicUsize::new(0);
static PEAK: AtomicUsize = AtomicUsize::new(0);

unsafe impl GlobalAlloc for Counting {
    unsafe fn alloc(&self, l: Layout) -> *mut u8 {
        let p = System.alloc(l);
        if !p.is_null() {
            let c = CUR.fetch_add(l.size(), Ordering::Relaxed) + l.size();
            PEAK.fetch_max(c, Ordering::Relaxed);
        }
        p
    }
    unsafe fn dealloc(&self, p: *mut u8, l: Layout) {
        CUR.fetch_sub(l.size(), Ordering::Relaxed);
        System.dealloc(p, l)
    }
    unsafe fn realloc(&self, p: *mut u8, l: Layout, new: usize) -> *mut u8 {
        let q = System.realloc(p, l, new);
        if !q.is_null() {
            if new > l.size() {
                let c = CUR.fetch_add(new - l.size(), Ordering::Relaxed) + (new - l.size());
                PEAK.fetch_max(c, Ordering::Relaxed);
            } else {
                CUR.fetch_sub(l.size() - new, Ordering::Relaxed);
            }
        }
        q
    }
}

/// start measuring: returns the baseline
pub fn mark() -> usize {
    let c = CUR.load(Ordering::Relaxed);
    PEAK.store(c, Ordering::Relaxed);
    c
}
/// bytes allocated above the baseline at the peak since `mark`
pub fn peak_since(base: usize) -> usize {
    PEAK.load(Ordering::Relaxed).saturating_sub(base)
}
