//! C04 / C05: blinding of explicit transactions, amount verification, tampers, all-explicit table.
use crate::pools;
use crate::scalar::Sc;
use crate::util::*;
use elements::confidential::{Asset, AssetBlindingFactor, Nonce, Value as CValue, ValueBlindingFactor};
use elements::encode::{deserialize, serialize};
use elements::secp256k1_zkp::{PublicKey, RangeProof, SecretKey, SurjectionProof};
use elements::{AssetId, AssetIssuance, CtLocation, CtLocationType, OutPoint, Script, Transaction, TxIn, TxOut, TxOutSecrets, Txid};
use rand::RngCore;
use serde_json::{json, Value};
use std::collections::HashMap;

pub struct Built {
    pub tx: Transaction,
    pub utxos: Vec<TxOut>,
    pub secrets: Vec<TxOutSecrets>,          // spent outputs, interleaved with issuance pseudo-inputs
    pub receivers: HashMap<usize, SecretKey>,
    pub orig: HashMap<usize, (AssetId, u64)>,
    pub assets: HashMap<String, AssetId>,
    pub iss_amount: u64,
    pub iss_tokens: u64,
    pub spks: Vec<Script>,
}

/// a standard output script: p2wpkh, p2wsh, p2tr, p2sh or p2pkh (Transaction::blind goes through the address of the script)
fn p2wpkh(r: &mut Rng) -> Script {
    let v = match r.next_u32() % 7 {
        // future witness versions: v16 with the shortest and the longest program, v2
        5 => { let n = if r.next_u32() % 2 == 0 { 2 } else { 40 }; let mut v = vec![0x60, n as u8]; v.extend(pools::rbytes(r, n)); v }
        6 => { let mut v = vec![0x52, 0x20]; v.extend(pools::rbytes(r, 32)); v }
        0 => { let mut v = vec![0x00, 0x14]; v.extend(pools::rbytes(r, 20)); v }
        1 => { let mut v = vec![0x00, 0x20]; v.extend(pools::rbytes(r, 32)); v }
        2 => { let mut v = vec![0x51, 0x20]; v.extend(pools::rbytes(r, 32)); v }
        3 => { let mut v = vec![0xa9, 0x14]; v.extend(pools::rbytes(r, 20)); v.push(0x87); v }
        _ => { let mut v = vec![0x76, 0xa9, 0x14]; v.extend(pools::rbytes(r, 20)); v.extend([0x88, 0xac]); v }
    };
    Script::from(v)
}

/// magnitudes admitted by the range-proof parameters the library uses (52 bits), inside Elements' money range
fn scale(r: &mut Rng, maxv: u64) -> u64 {
    let choices = [1u64, 2, 1000, (1 << 32) - 1, (1 << 32) + 1, 1 << 40, (1 << 51) / maxv.max(1), 2_100_000_000_000_000 / (4 * maxv.max(1))];
    choices[(r.next_u32() as usize) % choices.len()].max(1)
}

pub fn build(sk: &Value, r: &mut Rng, explicit_only: bool) -> Built {
    let secp = pools::secp();
    let mut assets: HashMap<String, AssetId> = [("A".to_string(), pools::asset_id(r)), ("B".to_string(), pools::asset_id(r))].into_iter().collect();
    let ins = sk["ins"].as_array().unwrap();
    let outs = sk["outs"].as_array().unwrap();
    let maxv = ins.iter().map(|i| i["v"].as_u64().unwrap()).chain(outs.iter().map(|o| o["v"].as_u64().unwrap())).max().unwrap_or(1);
    let mut scales: HashMap<String, u64> = HashMap::new();
    for a in ["A", "B", "N"] {
        scales.insert(a.to_string(), if explicit_only { 1 + (r.next_u64() % 1000) } else { scale(r, maxv * 4) });
    }
    let iss_on = sk["iss_on"].as_u64().unwrap_or(0) as usize;
    let iss_v = sk["iss_v"].as_u64().unwrap_or(0);
    let iss_tv = sk["iss_tv"].as_u64().unwrap_or(0);
    let (iss_vc, iss_tc) = (sk["iss_vc"].as_bool().unwrap_or(false), sk["iss_tc"].as_bool().unwrap_or(false));
    scales.insert("T".to_string(), if explicit_only { 1 } else { 1 + (r.next_u64() % 1000) });
    let (mut iss_amount, mut iss_tokens) = (0u64, 0u64);
    let (mut txins, mut utxos, mut secrets) = (vec![], vec![], vec![]);
    for (k, i) in ins.iter().enumerate() {
        let a = i["asset"].as_str().unwrap();
        let v = i["v"].as_u64().unwrap() * scales[a];
        // mode of the spent output: "expl", "full", "value" (value committed under the unblinded generator), "asset" (explicit value, blinded generator)
        let mode = i["mode"].as_str().unwrap_or(if i["conf"].as_bool().unwrap_or(false) { "full" } else { "expl" });
        let abf = if mode == "full" || mode == "asset" { pools::abf(r) } else { AssetBlindingFactor::zero() };
        let vbf = if mode == "full" || mode == "value" { pools::vbf(r) } else { ValueBlindingFactor::zero() };
        let id = assets[a];
        utxos.push(TxOut {
            asset: if mode == "full" || mode == "asset" { Asset::new_confidential(secp, id, abf) } else { Asset::Explicit(id) },
            value: if mode == "full" || mode == "value" { CValue::new_confidential_from_assetid(secp, v, id, vbf, abf) } else { CValue::Explicit(v) },
            nonce: Nonce::Null,
            script_pubkey: p2wpkh(r),
            witness: Default::default(),
        });
        secrets.push(TxOutSecrets::new(id, abf, v, vbf));
        let mut txin = TxIn { previous_output: OutPoint::new(Txid::from_byte_array(pools::bytes32(r)), k as u32), ..Default::default() };
        if iss_on == k + 1 {
            iss_amount = iss_v * scales["N"];
            iss_tokens = iss_tv * scales["T"];
            let contract = pools::bytes32(r);
            txin.asset_issuance = AssetIssuance {
                asset_blinding_nonce: elements::secp256k1_zkp::ZERO_TWEAK, asset_entropy: contract,
                amount: if iss_amount > 0 { CValue::Explicit(iss_amount) } else { CValue::Null },
                inflation_keys: if iss_tokens > 0 { CValue::Explicit(iss_tokens) } else { CValue::Null },
            };
            // ids by the constructors (not through TxIn::issuance_ids): the token id depends on whether the amount is committed
            let entropy = AssetId::generate_asset_entropy(txin.previous_output, elements::ContractHash::from_byte_array(contract));
            let asset_id = AssetId::from_entropy(entropy);
            let token_id = AssetId::reissuance_token_from_entropy(entropy, iss_vc && iss_amount > 0);
            assets.insert("N".to_string(), asset_id);
            assets.insert("T".to_string(), token_id);
            let (ivbf, tvbf) = (pools::vbf(r), pools::vbf(r));
            // committed issuance amounts are built with the lower-level constructor, each under the unblinded generator of
            // its own id (TxIn::blind_issuances derives the token id before the amount is committed: see DESIGN.md, observations)
            let empty = Script::new();
            if iss_vc && iss_amount > 0 {
                let (comm, prf) = CValue::Explicit(iss_amount).blind_with_shared_secret(secp, ivbf, pools::secret_key(r), &empty, &elements::RangeProofMessage::new(asset_id, AssetBlindingFactor::zero())).expect("issuance amount");
                txin.asset_issuance.amount = comm;
                txin.witness.amount_rangeproof = Some(Box::new(prf));
            }
            if iss_tc && iss_tokens > 0 {
                let (comm, prf) = CValue::Explicit(iss_tokens).blind_with_shared_secret(secp, tvbf, pools::secret_key(r), &empty, &elements::RangeProofMessage::new(token_id, AssetBlindingFactor::zero())).expect("issuance tokens");
                txin.asset_issuance.inflation_keys = comm;
                txin.witness.inflation_keys_rangeproof = Some(Box::new(prf));
            }
            if iss_amount > 0 { secrets.push(TxOutSecrets::new(asset_id, AssetBlindingFactor::zero(), iss_amount, if iss_vc { ivbf } else { ValueBlindingFactor::zero() })); }
            if iss_tokens > 0 { secrets.push(TxOutSecrets::new(token_id, AssetBlindingFactor::zero(), iss_tokens, if iss_tc { tvbf } else { ValueBlindingFactor::zero() })); }
        }
        txins.push(txin);
    }
    assets.entry("N".to_string()).or_insert_with(|| pools::asset_id(r));
    assets.entry("T".to_string()).or_insert_with(|| pools::asset_id(r));
    let mut receivers = HashMap::new();
    let mut orig = HashMap::new();
    let mut txouts = vec![];
    for (k, o) in outs.iter().enumerate() {
        let a = o["asset"].as_str().unwrap();
        let v = o["v"].as_u64().unwrap() * scales[a];
        let unspendable = o["burn"].as_bool().unwrap_or(false) || o["script"].as_str() == Some("unspendable");
        let fee = o["fee"].as_bool().unwrap_or(false);
        let marked = o["marked"].as_bool().unwrap_or(false);
        let script = if fee || o["script"].as_str() == Some("empty") { Script::new() } else if unspendable { Script::from(vec![0x6a, 0x01, 0x42]) }
                     else if o["script"].as_str() == Some("big10000") { Script::from(vec![0x51u8; 10_000]) }
                     else if o["script"].as_str() == Some("big10001") { Script::from(vec![0x51u8; 10_001]) }
                     else if o["script"].as_str() == Some("resv50") { Script::from(vec![0x50u8, 0x51]) }
                     else if o["script"].as_str() == Some("resvba") { Script::from(vec![0xbau8, 0x51, 0x51]) } else { p2wpkh(r) };
        let nonce = if marked {
            let skey = pools::secret_key(r);
            receivers.insert(k, skey);
            orig.insert(k, (assets[a], v));
            Nonce::Confidential(PublicKey::from_secret_key(secp, &skey))
        } else { Nonce::Null };
        txouts.push(TxOut { asset: Asset::Explicit(assets[a]), value: CValue::Explicit(v), nonce, script_pubkey: script, witness: Default::default() });
    }
    let spks = txouts.iter().map(|o: &TxOut| o.script_pubkey.clone()).collect();
    Built { tx: Transaction { version: 2, lock_time: elements::LockTime::ZERO, input: txins, output: txouts }, utxos, secrets, receivers, orig, assets, iss_amount, iss_tokens, spks }
}

fn sk_class(sk: &Value) -> String {
    let ins: Vec<String> = sk["ins"].as_array().unwrap().iter().map(|i| format!("{}{}", i["asset"].as_str().unwrap(), match i["mode"].as_str().unwrap_or(if i["conf"] == true { "full" } else { "expl" }) { "full" => "c", "value" => "v", "asset" => "a", _ => "e" })).collect();
    let outs: Vec<String> = sk["outs"].as_array().unwrap().iter().map(|o| format!("{}{}", o["asset"].as_str().unwrap(), if o["fee"] == true { "f" } else if o["marked"] == true { match o["want"].as_str().unwrap_or("full") { "value" => "v", "asset" => "a", _ => "m" } } else if o["burn"] == true { "0" } else { "u" })).collect();
    let iss = if sk["iss_on"].as_u64().unwrap_or(0) > 0 {
        format!("+iss({}{},{}{})", if sk["iss_v"].as_u64().unwrap_or(0) > 0 { "amt" } else { "null" }, if sk["iss_vc"] == true { "*" } else { "" },
                if sk["iss_tv"].as_u64().unwrap_or(0) > 0 { "tok" } else { "null" }, if sk["iss_tc"] == true { "*" } else { "" })
    } else { String::new() };
    format!("in={}{}/out={}", ins.join(","), iss, outs.join(","))
}

type Bad = Vec<(String, String)>;

/// Blind and check every C04 claim; returns the blinded transaction for the tamper stage.
fn blind_and_check(b: &Built, r: &mut Rng, cls: &str, bad: &mut Bad) -> Option<(Transaction, HashMap<usize, (AssetBlindingFactor, ValueBlindingFactor)>)> {
    let secp = pools::secp();
    let mut tx = b.tx.clone();
    let map = match tx.blind(r, secp, &b.secrets, false) {
        Ok(m) => m,
        Err(e) => { bad.push((format!("C04/blind/error/{}", cls), e.to_string())); return None; }
    };
    if let Err(e) = tx.verify_tx_amt_proofs(secp, &b.utxos) {
        bad.push((format!("C04/verify-after-blind/{}", cls), e.to_string()));
    }
    let mut factors = HashMap::new();
    for (oi, skey) in b.receivers.iter() {
        let (asset, value) = b.orig[oi];
        let Some((abf, vbf, _)) = map.get(&CtLocation { input_index: *oi, ty: CtLocationType::Input }) else {
            bad.push((format!("C04/factors-not-reported/{}", cls), format!("output {}", oi)));
            continue;
        };
        factors.insert(*oi, (*abf, *vbf));
        match tx.output[*oi].unblind(secp, *skey) {
            Ok(s) => {
                if s.asset != asset || s.value != value { bad.push((format!("C04/unblind/asset-or-value/{}", cls), String::new())); }
                if s.asset_bf != *abf || s.value_bf != *vbf { bad.push((format!("C04/unblind/factors-differ-from-reported/{}", cls), String::new())); }
            }
            Err(e) => bad.push((format!("C04/unblind/error/{}", cls), e.to_string())),
        }
        if Asset::new_confidential(secp, asset, *abf) != tx.output[*oi].asset || CValue::new_confidential_from_assetid(secp, value, asset, *vbf, *abf) != tx.output[*oi].value {
            bad.push((format!("C04/factors-do-not-reproduce-commitments/{}", cls), String::new()));
        }
        // a wrong key must not unblind
        if tx.output[*oi].unblind(secp, pools::secret_key(r)).map(|s| s.value == value && s.asset == asset).unwrap_or(false) {
            bad.push((format!("C04/unblind/wrong-key-succeeds/{}", cls), String::new()));
        }
    }
    for (oi, o) in tx.output.iter().enumerate() {
        if (o.value.is_confidential() && o.asset.is_confidential()) != b.receivers.contains_key(&oi) {
            bad.push((format!("C04/blinded-set/{}", cls), format!("output {}", oi)));
        }
    }
    // the balance equation over the real field: sum r(in) = sum r(out)
    let mut lhs = crate::scalar::ZERO;
    for s in &b.secrets { lhs = lhs.add(&Sc::r(s.value, s.asset_bf.into_inner().as_ref(), s.value_bf.into_inner().as_ref())); }
    let mut rhs = crate::scalar::ZERO;
    for (oi, (abf, vbf)) in factors.iter() { rhs = rhs.add(&Sc::r(b.orig[oi].1, abf.into_inner().as_ref(), vbf.into_inner().as_ref())); }
    if factors.len() == b.receivers.len() && lhs != rhs {
        bad.push((format!("C04/balance-equation/{}", cls), "sum of v*abf+vbf over inputs differs from outputs (mod group order)".into()));
    }
    // C01 link: values produced by the blinding functions round-trip
    match deserialize::<Transaction>(&serialize(&tx)) {
        Ok(t2) if t2 == tx => {}
        _ => bad.push((format!("C04/blinded-tx-roundtrip/{}", cls), String::new())),
    }
    Some((tx, factors))
}

/// Hand-blinding with the lower-level constructors: each marked output in the mode the skeleton asks for
/// ("full": asset and value committed, "value": value committed under the unblinded generator of an explicit asset,
/// "asset": explicit value under a blinded generator); the last marked output absorbs the balance.
fn manual_blind(b: &Built, sk: &Value, r: &mut Rng) -> Result<(Transaction, HashMap<usize, (AssetBlindingFactor, ValueBlindingFactor)>), String> {
    use elements::{Address, AddressParams, RangeProofMessage};
    let secp = pools::secp();
    let mut tx = b.tx.clone();
    let outs = sk["outs"].as_array().unwrap();
    let marked: Vec<usize> = outs.iter().enumerate().filter(|(_, o)| o["marked"] == true && o["fee"] != true).map(|(k, _)| k).collect();
    let last = *marked.last().ok_or("no marked output")?;
    let mut factors = HashMap::new();
    let mut out_secrets: Vec<TxOutSecrets> = vec![];
    for &k in &marked {
        let (asset, value) = b.orig[&k];
        let want = outs[k]["want"].as_str().unwrap_or("full");
        let blinder = tx.output[k].nonce.commitment().ok_or("marked output without a blinding key")?;
        let spk = tx.output[k].script_pubkey.clone();
        if k != last {
            match want {
                "full" => {
                    let addr = Address::from_script(&spk, Some(blinder), &AddressParams::ELEMENTS).ok_or("address")?;
                    let (o, abf, vbf, _) = TxOut::new_not_last_confidential(r, secp, value, &addr, asset, &b.secrets).map_err(|e| e.to_string())?;
                    tx.output[k] = o;
                    factors.insert(k, (abf, vbf));
                    out_secrets.push(TxOutSecrets::new(asset, abf, value, vbf));
                }
                "value" => {
                    let vbf = pools::vbf(r);
                    let msg = RangeProofMessage::new(asset, AssetBlindingFactor::zero());
                    let (comm, prf) = CValue::Explicit(value).blind_with_shared_secret(secp, vbf, pools::secret_key(r), &spk, &msg).map_err(|e| e.to_string())?;
                    tx.output[k].value = comm;
                    tx.output[k].witness.rangeproof = Some(Box::new(prf));
                    factors.insert(k, (AssetBlindingFactor::zero(), vbf));
                    out_secrets.push(TxOutSecrets::new(asset, AssetBlindingFactor::zero(), value, vbf));
                }
                "asset" => {
                    let abf = pools::abf(r);
                    let (a, sp) = Asset::Explicit(asset).blind(r, secp, abf, &b.secrets).map_err(|e| e.to_string())?;
                    tx.output[k].asset = a;
                    tx.output[k].witness.surjection_proof = Some(Box::new(sp));
                    factors.insert(k, (abf, ValueBlindingFactor::zero()));
                    out_secrets.push(TxOutSecrets::new(asset, abf, value, ValueBlindingFactor::zero()));
                }
                x => return Err(format!("mode {}", x)),
            }
        } else {
            let ins: Vec<(u64, AssetBlindingFactor, ValueBlindingFactor)> = b.secrets.iter().map(|s| (s.value, s.asset_bf, s.value_bf)).collect();
            let os: Vec<(u64, AssetBlindingFactor, ValueBlindingFactor)> = out_secrets.iter().map(|s| (s.value, s.asset_bf, s.value_bf)).collect();
            match want {
                "full" => {
                    let refs: Vec<&TxOutSecrets> = out_secrets.iter().collect();
                    let (o, abf, vbf, _) = TxOut::new_last_confidential(r, secp, value, asset, spk, blinder, &b.secrets, &refs).map_err(|e| e.to_string())?;
                    tx.output[k] = o;
                    factors.insert(k, (abf, vbf));
                }
                "value" => {
                    let vbf = ValueBlindingFactor::last(secp, value, AssetBlindingFactor::zero(), &ins, &os);
                    let msg = RangeProofMessage::new(asset, AssetBlindingFactor::zero());
                    let (comm, prf) = CValue::Explicit(value).blind_with_shared_secret(secp, vbf, pools::secret_key(r), &spk, &msg).map_err(|e| e.to_string())?;
                    tx.output[k].value = comm;
                    tx.output[k].witness.rangeproof = Some(Box::new(prf));
                    factors.insert(k, (AssetBlindingFactor::zero(), vbf));
                }
                x => return Err(format!("last output in mode {}", x)),
            }
        }
    }
    Ok((tx, factors))
}

fn flip(bytes: &[u8], r: &mut Rng, lo: usize) -> Vec<u8> {
    let mut v = bytes.to_vec();
    let i = lo + (r.next_u32() as usize) % (v.len() - lo);
    v[i] ^= 1 << (r.next_u32() % 8);
    v
}

fn apply_tamper(t: &Value, tx: &mut Transaction, utxos: &mut Vec<TxOut>, b: &Built, factors: &HashMap<usize, (AssetBlindingFactor, ValueBlindingFactor)>, r: &mut Rng) -> bool {
    let secp = pools::secp();
    let k = t["k"].as_u64().unwrap() as usize;
    let j = t["j"].as_u64().unwrap() as usize;
    match t["kind"].as_str().unwrap() {
        "out_amount" => match tx.output[k - 1].value.explicit() { Some(x) => tx.output[k - 1].value = CValue::Explicit(x + 1), None => return false },
        "out_asset" => { let Some(cur) = tx.output[k - 1].asset.explicit() else { return false }; let other = if cur == b.assets["A"] { b.assets["B"] } else { b.assets["A"] }; tx.output[k - 1].asset = Asset::Explicit(other); }
        "replace_value_commit" => { let (a, v) = b.orig[&(k - 1)]; let (abf, _) = factors[&(k - 1)]; tx.output[k - 1].value = CValue::new_confidential_from_assetid(secp, v, a, pools::vbf(r), abf); }
        "replace_asset_commit" => { let (a, _) = b.orig[&(k - 1)]; tx.output[k - 1].asset = Asset::new_confidential(secp, a, pools::abf(r)); }
        "swap_commitments" => { let (x, y) = (tx.output[k - 1].value, tx.output[j - 1].value); tx.output[k - 1].value = y; tx.output[j - 1].value = x; }
        "drop_rp" => tx.output[k - 1].witness.rangeproof = None,
        "drop_sp" => tx.output[k - 1].witness.surjection_proof = None,
        "corrupt_rp" => {
            let bytes = tx.output[k - 1].witness.rangeproof.as_ref().unwrap().serialize();
            for _ in 0..50 {
                if let Ok(p) = RangeProof::from_slice(&flip(&bytes, r, 10)) { tx.output[k - 1].witness.rangeproof = Some(Box::new(p)); return true; }
            }
            return false;
        }
        "corrupt_sp" => {
            let bytes = tx.output[k - 1].witness.surjection_proof.as_ref().unwrap().serialize();
            for _ in 0..50 {
                if let Ok(p) = SurjectionProof::from_slice(&flip(&bytes, r, 3)) { tx.output[k - 1].witness.surjection_proof = Some(Box::new(p)); return true; }
            }
            return false;
        }
        "swap_rp" => { let x = tx.output[k - 1].witness.rangeproof.clone(); tx.output[k - 1].witness.rangeproof = tx.output[j - 1].witness.rangeproof.clone(); tx.output[j - 1].witness.rangeproof = x; }
        "swap_sp" => { let x = tx.output[k - 1].witness.surjection_proof.clone(); tx.output[k - 1].witness.surjection_proof = tx.output[j - 1].witness.surjection_proof.clone(); tx.output[j - 1].witness.surjection_proof = x; }
        "change_script" => tx.output[k - 1].script_pubkey = p2wpkh(r),
        "issuance_amount" => { for i in tx.input.iter_mut() { match i.asset_issuance.amount {
            CValue::Explicit(x) => i.asset_issuance.amount = CValue::Explicit(x + 1),
            CValue::Confidential(_) => i.asset_issuance.amount = CValue::new_confidential(secp, b.iss_amount, elements::secp256k1_zkp::Generator::new_unblinded(secp, b.assets["N"].into_tag()), pools::vbf(r)),
            CValue::Null => {} } } }
        "issuance_tokens" => { for i in tx.input.iter_mut() { match i.asset_issuance.inflation_keys {
            CValue::Explicit(x) => i.asset_issuance.inflation_keys = CValue::Explicit(x + 1),
            CValue::Confidential(_) => i.asset_issuance.inflation_keys = CValue::new_confidential(secp, b.iss_tokens, elements::secp256k1_zkp::Generator::new_unblinded(secp, b.assets["T"].into_tag()), pools::vbf(r)),
            CValue::Null => {} } } }
        "utxo_value" => { utxos[k - 1].value = match utxos[k - 1].value { CValue::Explicit(x) => CValue::Explicit(x + 1), _ => pools::conf_value(r) }; }
        "utxo_asset" => {
            // a spent output of the other asset: every commitment it carries is re-made for that asset
            // (replacing the generator alone leaves the value commitment, and hence the balance, untouched)
            let s = b.secrets_of_input(k - 1);
            let other = if s.asset == b.assets["A"] { b.assets["B"] } else { b.assets["A"] };
            if utxos[k - 1].asset.is_explicit() { utxos[k - 1].asset = Asset::Explicit(other); } else { utxos[k - 1].asset = Asset::new_confidential(secp, other, s.asset_bf); }
            if utxos[k - 1].value.is_confidential() { utxos[k - 1].value = CValue::new_confidential_from_assetid(secp, s.value, other, s.value_bf, s.asset_bf); }
        }
        "utxo_vbf" => { let s = b.secrets_of_input(k - 1); utxos[k - 1].value = CValue::new_confidential_from_assetid(secp, s.value, s.asset, pools::vbf(r), s.asset_bf); }
        "utxo_abf" => { let s = b.secrets_of_input(k - 1); let abf = pools::abf(r); utxos[k - 1].asset = Asset::new_confidential(secp, s.asset, abf); if utxos[k - 1].value.is_confidential() { utxos[k - 1].value = CValue::new_confidential_from_assetid(secp, s.value, s.asset, s.value_bf, abf); } }
        "utxo_drop_last" => { utxos.pop(); }
        "utxo_extra" => { let u = utxos[0].clone(); utxos.push(u); }
        x => panic!("tamper kind {}", x),
    }
    true
}

impl Built {
    /// secrets of the k-th real input (skipping issuance pseudo-inputs)
    fn secrets_of_input(&self, k: usize) -> TxOutSecrets {
        let mut idx = 0;
        for (n, i) in self.tx.input.iter().enumerate() {
            if n == k { return self.secrets[idx]; }
            idx += 1 + usize::from(!i.asset_issuance.amount.is_null()) + usize::from(!i.asset_issuance.inflation_keys.is_null());
        }
        panic!("input index");
    }
}

fn run_case(c: &Value, ci: usize, seed: u64, k: u64, do_c04: bool, do_c05: bool) -> (Vec<(String, Value, String)>, u64) {
    let mut out = vec![];
    let mut evals = 0u64;
    let sk = &c["sk"];
    let cls = sk_class(sk);
    for j in 0..k {
        let case = json!({"class": cls, "case_index": ci, "seed": seed, "j": j});
        let mut r = rng(seed, 0x0400_0000 + ((ci as u64) << 6) + j);
        let res = guard(|| {
            let mut bad: Bad = vec![];
            let mut n = 1u64;
            let b = build(sk, &mut r, false);
            let mut scratch: Bad = vec![];
            let manual = sk["manual"] == true;
            let blinded = if manual {
                // hand-blinded bases exist for the verifier (C05) only
                if !do_c05 { return (bad, 0); }
                match manual_blind(&b, sk, &mut r) { Ok(x) => Some(x), Err(e) => { bad.push((format!("C05/manual-base-not-constructible/{}", cls), e)); None } }
            } else { blind_and_check(&b, &mut r, &cls, if do_c04 { &mut bad } else { &mut scratch }) };
            if let (true, Some((tx, factors))) = (do_c05, blinded) {
                if tx.verify_tx_amt_proofs(pools::secp(), &b.utxos).is_ok() {
                    for t in c["tampers"].as_array().unwrap() {
                        let mut tx2 = tx.clone();
                        let mut utxos2 = b.utxos.clone();
                        if !apply_tamper(t, &mut tx2, &mut utxos2, &b, &factors, &mut r) { continue; }
                        n += 1;
                        let kind = t["kind"].as_str().unwrap();
                        match tx2.verify_tx_amt_proofs(pools::secp(), &utxos2) {
                            Ok(()) => bad.push((format!("C05/tamper-accepted/{}", kind), format!("class {} position k={} j={}", cls, t["k"], t["j"]))),
                            Err(e) => {
                                let want = t["err"].as_str().unwrap();
                                let name = format!("{:?}", e);
                                if want != "any" && !name.starts_with(want) {
                                    bad.push((format!("C05/tamper-error-class/{}", kind), format!("got {} want {}", name, want)));
                                }
                            }
                        }
                    }
                } else if !do_c04 || manual {
                    bad.push((format!("C05/base-does-not-verify/{}", cls), format!("{:?}", tx.verify_tx_amt_proofs(pools::secp(), &b.utxos))));
                }
            }
            (bad, n)
        });
        match res {
            Ok((bad, n)) => { evals += n; for (key, d) in bad { out.push((key, case.clone(), d)); } }
            Err(p) => out.push((format!("{}/panic/{}", if do_c04 { "C04" } else { "C05" }, last_panic_loc()), case, p)),
        }
    }
    (out, evals)
}

pub fn replay(args: &[String], out: &mut Out) {
    let cases = read_ndjson(&arg(args, "--cases").expect("--cases"));
    let seed = arg_u64(args, "--seed", 1);
    let k = arg_u64(args, "--k", 1);
    let threads = arg_u64(args, "--threads", 8) as usize;
    let stride = arg_u64(args, "--stride", 1) as usize;
    let props = arg(args, "--props").unwrap_or_else(|| "C04,C05".into());
    let (do4, do5) = (props.contains("C04"), props.contains("C05"));
    let selected: Vec<(usize, &Value)> = cases.iter().enumerate().filter(|(i, _)| i % stride == 0).collect();
    let chunks: Vec<Vec<(usize, &Value)>> = (0..threads).map(|t| selected.iter().filter(|(i, _)| (i / stride) % threads == t).cloned().collect()).collect();
    let results: Vec<Vec<(Vec<(String, Value, String)>, u64)>> = std::thread::scope(|sc| {
        let hs: Vec<_> = chunks.iter().map(|ch| sc.spawn(move || { crate::util::quiet_panics(); ch.iter().map(|(i, c)| run_case(c, *i, seed, k, do4, do5)).collect::<Vec<_>>() })).collect();
        hs.into_iter().map(|h| h.join().unwrap()).collect()
    });
    for res in results {
        for (bad, n) in res {
            out.count("distinct_cases");
            out.add("evaluations", n);
            for (key, c, d) in bad { out.viol(&key, c, d); }
        }
    }
    if let Some((_, c)) = selected.iter().find(|(_, c)| c["sk"]["outs"].as_array().unwrap().len() >= 4) { out.sample(json!({"sk": c["sk"], "n_tampers": c["tampers"].as_array().unwrap().len(), "tamper_sample": c["tampers"].as_array().unwrap().iter().take(4).collect::<Vec<_>>()})); }
}

/// C05 (b): all-explicit table.
pub fn explicit(args: &[String], out: &mut Out) {
    let cases = read_ndjson(&arg(args, "--cases").expect("--cases"));
    let seed = arg_u64(args, "--seed", 1);
    let threads = arg_u64(args, "--threads", 8) as usize;
    let indexed: Vec<(usize, &Value)> = cases.iter().enumerate().collect();
    let results: Vec<Vec<(String, Value, String)>> = std::thread::scope(|sc| {
        let hs: Vec<_> = (0..threads).map(|t| { let indexed = &indexed; sc.spawn(move || {
            crate::util::quiet_panics();
            let mut bad = vec![];
            for (ci, c) in indexed.iter().filter(|(i, _)| i % threads == t) { explicit_case(*ci, c, seed, &mut bad); }
            bad
        }) }).collect();
        hs.into_iter().map(|h| h.join().unwrap()).collect()
    });
    for (ci, c) in cases.iter().enumerate() {
        out.count("distinct_cases");
        out.count("evaluations");
        if ci % 3000 == 11 { out.sample(c.clone()); }
    }
    for bad in results { for (k, c, d) in bad { out.viol(&k, c, d); } }
}

fn explicit_case(ci: usize, c: &Value, seed: u64, bad: &mut Vec<(String, Value, String)>) {
    let mut r = rng(seed, 0x0500_0000 + ci as u64);
    let issk = c["iss"].as_u64().unwrap();
    let sk = json!({"ins": c["ins"], "outs": c["outs"], "iss_on": if issk > 0 { 1 } else { 0 }, "iss_v": if issk == 1 || issk == 3 { 1 } else { 0 }, "iss_tv": if issk >= 2 { 1 } else { 0 }});
    let verdict = c["verdict"].as_str().unwrap();
    let res = guard(|| {
        let mut b = build(&sk, &mut r, true);
        // one scale for everything: the model's balance must be the real balance
        let unit = 1 + (r.next_u64() % 100_000);
        for (k, i) in c["ins"].as_array().unwrap().iter().enumerate() { b.utxos[k].value = CValue::Explicit(i["v"].as_u64().unwrap() * unit); }
        for (k, o) in c["outs"].as_array().unwrap().iter().enumerate() { b.tx.output[k].value = CValue::Explicit(o["v"].as_u64().unwrap() * unit); }
        for i in b.tx.input.iter_mut() { if i.has_issuance() {
            if !i.asset_issuance.amount.is_null() { i.asset_issuance.amount = CValue::Explicit(unit); }
            if !i.asset_issuance.inflation_keys.is_null() { i.asset_issuance.inflation_keys = CValue::Explicit(unit); }
        } }
        b.tx.verify_tx_amt_proofs(pools::secp(), &b.utxos).map_err(|e| format!("{:?}", e))
    });
    let case = json!({"case": c, "seed": seed});
    match res {
        Err(p) => bad.push((format!("C05/panic/{}", last_panic_loc()), case, p)),
        Ok(got) => {
            if got.is_ok() != (verdict == "OK") {
                let zero_unsp = c["outs"].as_array().unwrap().iter().any(|o| o["v"] == 0 && (o["script"] == "unspendable" || o["script"] == "empty" || o["script"] == "big10001"));
                let key = if verdict == "OK" { format!("C05/explicit/balanced-rejected{}", if zero_unsp { "/zero-value-on-unspendable-script" } else { "" }) } else { format!("C05/explicit/unbalanced-accepted/{}", verdict) };
                bad.push((key, case, format!("library {:?}, specification {}", got, verdict)));
            }
        }
    }
}
