//! C17: (i) the specification's LFSR runs replayed through the library's checksum engines;
//! (ii) exhaustive / sampled one- and two-character corruption of representative addresses.
use crate::pools;
use crate::util::*;
use bech32::primitives::checksum::{Engine, PackedFe32};
use bech32::{Bech32, Bech32m, Checksum, Fe32};
use elements::address::Payload;
use elements::blech32::{Blech32, Blech32m};
use elements::{Address, AddressParams};
use rand::RngCore;
use serde_json::{json, Value};
use std::str::FromStr;

const CHARSET: &[u8; 32] = b"qpzry9x8gf2tvdw0s3jn54khce6mua7l";

fn unpack<T: PackedFe32>(r: &T, k: usize) -> Vec<u64> {
    (0..k).map(|i| u64::from(r.unpack(k - 1 - i))).collect()
}

fn run_engine<Ck: Checksum>(c: &Value, name: &str, out: &mut Out)
where
    Ck::MidstateRepr: PackedFe32,
{
    let k = Ck::CHECKSUM_LENGTH;
    let mut e = Engine::<Ck>::new();
    let syms = c["syms"].as_array().unwrap();
    let states = c["states"].as_array().unwrap();
    for (i, s) in syms.iter().enumerate() {
        e.input_fe(Fe32::try_from(s.as_u64().unwrap() as u8).unwrap());
        let got = unpack(e.residue(), k);
        let want: Vec<u64> = states[i].as_array().unwrap().iter().map(|x| x.as_u64().unwrap()).collect();
        out.count("lfsr_steps");
        if got != want {
            out.viol(
                &format!("C17/lfsr-step/{}", name),
                json!({"code": name, "syms": syms, "step": i}),
                format!("engine residue {:?} spec {:?}", got, want),
            );
            return;
        }
    }
}

pub fn lfsr(args: &[String], out: &mut Out) {
    let cases = read_ndjson(&arg(args, "--cases").expect("--cases"));
    for (ci, c) in cases.iter().enumerate() {
        out.count("distinct_cases");
        out.count("evaluations");
        if ci == 40 {
            out.sample(json!({"code": c["code"], "syms": c["syms"], "final_state": c["states"].as_array().unwrap().last()}));
        }
        let tm: Vec<u64> = c["targetm"].as_array().unwrap().iter().map(|x| x.as_u64().unwrap()).collect();
        match c["code"].as_str().unwrap() {
            "bech32" => {
                run_engine::<Bech32>(c, "bech32", out);
                run_engine::<Bech32m>(c, "bech32m", out);
                if unpack(&Bech32m::TARGET_RESIDUE, 6) != tm || Bech32::TARGET_RESIDUE != 1 {
                    out.viol("C17/target/bech32", json!({}), "target residue differs from the specification".into());
                }
            }
            "blech32" => {
                run_engine::<Blech32>(c, "blech32", out);
                run_engine::<Blech32m>(c, "blech32m", out);
                if unpack(&Blech32m::TARGET_RESIDUE, 12) != tm || Blech32::TARGET_RESIDUE != 1 {
                    out.viol("C17/target/blech32", json!({}), "target residue differs from the specification".into());
                }
                if Blech32::CHECKSUM_LENGTH != 12 || Blech32m::CHECKSUM_LENGTH != 12 {
                    out.viol("C17/checksum-length/blech32", json!({}), "checksum length is not 12".into());
                }
            }
            x => panic!("code {}", x),
        }
    }
}

static NETS: [(&str, &AddressParams); 3] =
    [("liquid", &AddressParams::LIQUID), ("elements", &AddressParams::ELEMENTS), ("liquidtestnet", &AddressParams::LIQUID_TESTNET)];

pub fn representative(r: &mut Rng) -> Vec<(String, Address)> {
    let mut v = vec![];
    for (nname, net) in NETS.iter() {
        for blinded in [false, true] {
            for (ver, plen) in [(0u8, 20usize), (0, 32), (1, 32), (16, 2), (16, 40)] {
                let a = Address {
                    params: net,
                    payload: Payload::WitnessProgram { version: Fe32::try_from(ver).unwrap(), program: pools::rbytes(r, plen) },
                    blinding_pubkey: if blinded { Some(pools::pubkey(r)) } else { None },
                };
                v.push((format!("{}/{}/v{}-{}", nname, if blinded { "blinded" } else { "unblinded" }, ver, plen), a));
            }
        }
    }
    v
}

/// Does any parser of the library accept `s`?
fn parses(s: &str) -> Option<&'static str> {
    // a parser that panics on a corrupted string has not rejected it (and is a finding in its own right)
    match guard(|| parses_inner(s)) {
        Ok(r) => r,
        Err(_) => Some("PANIC in a parser"),
    }
}

fn parses_inner(s: &str) -> Option<&'static str> {
    if Address::from_str(s).is_ok() {
        return Some("from_str");
    }
    for (_, net) in NETS.iter() {
        if Address::parse_with_params(s, net).is_ok() {
            return Some("parse_with_params");
        }
    }
    if elements::blech32::decode::SegwitHrpstring::new(s).is_ok() {
        return Some("blech32::SegwitHrpstring::new");
    }
    None
}

fn corrupt_address(name: &str, s: &str, all_doubles: bool, sampled: u64, r: &mut Rng, threads: usize) -> (u64, Vec<(String, String, &'static str)>) {
    let sep = s.rfind('1').unwrap();
    let bytes = s.as_bytes();
    let n = bytes.len();
    let mut evals = 0u64;
    let mut bad = vec![];
    // singles
    for i in sep + 1..n {
        for &c in CHARSET.iter() {
            if c == bytes[i] {
                continue;
            }
            let mut b = bytes.to_vec();
            b[i] = c;
            let t = String::from_utf8(b).unwrap();
            evals += 1;
            if let Some(p) = parses(&t) {
                bad.push((format!("C17/undetected/single/{}", name), t, p));
            }
        }
    }
    // hrp: every letter-case pattern of the hrp against an unchanged data part (mixed case must be refused) ...
    for mask in 1u32..(1 << sep) {
        let mut b = bytes.to_vec();
        for i in 0..sep {
            if mask & (1 << i) != 0 {
                b[i] = if b[i].is_ascii_lowercase() { b[i].to_ascii_uppercase() } else { b[i].to_ascii_lowercase() };
            }
        }
        if b == bytes {
            continue;
        }
        let t = String::from_utf8(b).unwrap();
        evals += 1;
        if let Some(p) = parses(&t) {
            bad.push((format!("C17/undetected/hrp-case/{}", name), t, p));
        }
    }
    // ... and every character replaced by every printable ASCII character; all pairs as well
    let alnum: Vec<u8> = (33u8..=126).collect();
    for i in 0..sep {
        for &c in &alnum {
            if c == bytes[i] {
                continue;
            }
            let mut b = bytes.to_vec();
            b[i] = c;
            let t = String::from_utf8(b.clone()).unwrap();
            evals += 1;
            if let Some(p) = parses(&t) {
                bad.push((format!("C17/undetected/hrp-single/{}", name), t, p));
            }
            for j in i + 1..sep {
                for &d in &alnum {
                    if d == bytes[j] {
                        continue;
                    }
                    let mut b2 = b.clone();
                    b2[j] = d;
                    let t = String::from_utf8(b2).unwrap();
                    evals += 1;
                    if let Some(p) = parses(&t) {
                        bad.push((format!("C17/undetected/hrp-double/{}", name), t, p));
                    }
                }
            }
        }
    }
    // doubles
    if all_doubles {
        let positions: Vec<usize> = (sep + 1..n).collect();
        let chunks: Vec<Vec<usize>> = (0..threads).map(|t| positions.iter().copied().filter(|p| p % threads == t).collect()).collect();
        let results: Vec<(u64, Vec<(String, String, &'static str)>)> = std::thread::scope(|sc| {
            let hs: Vec<_> = chunks
                .iter()
                .map(|chunk| {
                    sc.spawn(move || {
                        let mut ev = 0u64;
                        let mut bad = vec![];
                        for &i in chunk {
                            for j in i + 1..n {
                                for &c in CHARSET.iter() {
                                    if c == bytes[i] {
                                        continue;
                                    }
                                    for &d in CHARSET.iter() {
                                        if d == bytes[j] {
                                            continue;
                                        }
                                        let mut b = bytes.to_vec();
                                        b[i] = c;
                                        b[j] = d;
                                        let t = unsafe { String::from_utf8_unchecked(b) };
                                        ev += 1;
                                        if let Some(p) = parses(&t) {
                                            bad.push((format!("C17/undetected/double/{}", name), t, p));
                                        }
                                    }
                                }
                            }
                        }
                        (ev, bad)
                    })
                })
                .collect();
            hs.into_iter().map(|h| h.join().unwrap()).collect()
        });
        for (ev, b) in results {
            evals += ev;
            bad.extend(b);
        }
    } else {
        let m = (n - sep - 1) as u32;
        for _ in 0..sampled {
            let i = sep + 1 + (r.next_u32() % m) as usize;
            let mut j = sep + 1 + (r.next_u32() % m) as usize;
            if i == j {
                j = if j + 1 < n { j + 1 } else { sep + 1 };
            }
            let mut b = bytes.to_vec();
            loop {
                let c = CHARSET[(r.next_u32() % 32) as usize];
                if c != bytes[i] {
                    b[i] = c;
                    break;
                }
            }
            loop {
                let d = CHARSET[(r.next_u32() % 32) as usize];
                if d != bytes[j] {
                    b[j] = d;
                    break;
                }
            }
            let t = String::from_utf8(b).unwrap();
            evals += 1;
            if let Some(p) = parses(&t) {
                bad.push((format!("C17/undetected/double/{}", name), t, p));
            }
        }
    }
    (evals, bad)
}

pub fn corrupt(args: &[String], out: &mut Out) {
    let seed = arg_u64(args, "--seed", 1);
    let sampled = arg_u64(args, "--sampled", 20000);
    let all_net = arg(args, "--all-doubles-net").unwrap_or_default(); // e.g. "elements"
    let threads = arg_u64(args, "--threads", 8) as usize;
    let mut r = rng(seed, 0xc17);
    let reps = representative(&mut r);
    for (name, a) in reps {
        let s = a.to_string();
        // the uncorrupted string must parse (otherwise the enumeration is vacuous)
        if Address::from_str(&s).ok().as_ref() != Some(&a) {
            out.viol(&format!("C17/base-address-does-not-parse/{}", name), json!({"s": s}), String::new());
            continue;
        }
        out.count("distinct_addresses");
        let all = !all_net.is_empty() && (all_net == "all" || name.starts_with(&all_net));
        let (ev, bad) = corrupt_address(&name, &s, all, sampled, &mut r, threads);
        out.add("evaluations", ev);
        // upper-case form, singles only
        let up = s.to_uppercase();
        // the upper-case form is a valid spelling of the same address: it must parse, otherwise its sweep is vacuous
        if Address::from_str(&up).ok().as_ref() != Some(&a) {
            out.viol(&format!("C17/base-address-does-not-parse/uppercase/{}", name), json!({"s": up}), String::new());
        }
        let (ev2, bad2) = corrupt_address_upper(&name, &up);
        out.add("evaluations", ev2);
        if name.contains("v16-40") {
            out.sample(json!({"class": name, "address": s, "corruptions_tried": ev}));
        }
        for (key, t, p) in bad.into_iter().chain(bad2) {
            out.viol(&key, json!({"base": s, "corrupted": t}), format!("accepted by {}", p));
        }
    }
}

fn corrupt_address_upper(name: &str, s: &str) -> (u64, Vec<(String, String, &'static str)>) {
    let sep = s.rfind('1').unwrap();
    let bytes = s.as_bytes();
    let mut evals = 0;
    let mut bad = vec![];
    for i in sep + 1..bytes.len() {
        for &c in CHARSET.iter() {
            let cu = c.to_ascii_uppercase();
            if cu == bytes[i] {
                continue;
            }
            let mut b = bytes.to_vec();
            b[i] = cu;
            let t = String::from_utf8(b).unwrap();
            evals += 1;
            if let Some(p) = parses(&t) {
                bad.push((format!("C17/undetected/single-uppercase/{}", name), t, p));
            }
        }
    }
    // every case pattern of the hrp against the unchanged upper-case data part
    for mask in 1u32..(1 << sep) {
        let mut b = bytes.to_vec();
        for i in 0..sep {
            if mask & (1 << i) != 0 && b[i].is_ascii_uppercase() {
                b[i] = b[i].to_ascii_lowercase();
            }
        }
        if b == bytes {
            continue;
        }
        let t = String::from_utf8(b).unwrap();
        evals += 1;
        if let Some(p) = parses(&t) {
            bad.push((format!("C17/undetected/hrp-case-uppercase/{}", name), t, p));
        }
    }
    (evals, bad)
}
