//! Corpus of valid encodings: hex vectors shipped in /repo (tests/data/*.hex and hex literals in
//! src/**), found by scanning; used by the byte-mutation recorders (C01, C07, C10).
use crate::util::unhex;

fn is_hex(s: &str) -> bool {
    s.len() >= 16 && s.len() % 2 == 0 && s.bytes().all(|b| b.is_ascii_hexdigit())
}

/// All hex strings of at least 8 bytes found in the repository's test data and sources.
pub fn repo_hex_vectors() -> Vec<Vec<u8>> {
    let mut out: Vec<Vec<u8>> = vec![];
    let mut files: Vec<std::path::PathBuf> = vec![];
    for dir in ["/repo/tests/data", "/repo/src", "/repo/src/pset", "/repo/src/pset/map", "/repo/src/blech32"] {
        if let Ok(rd) = std::fs::read_dir(dir) {
            for e in rd.flatten() {
                let p = e.path();
                if p.is_file() {
                    files.push(p);
                }
            }
        }
    }
    files.sort();
    for p in files {
        let Ok(text) = std::fs::read_to_string(&p) else { continue };
        if p.extension().map_or(false, |e| e == "hex") {
            let t: String = text.split_whitespace().collect();
            if is_hex(&t) {
                out.push(unhex(&t));
            }
            continue;
        }
        // string literals, possibly continued over lines with a trailing backslash
        let joined = text.replace("\\\n", "");
        let mut cur = String::new();
        let mut in_str = false;
        for ch in joined.chars() {
            if ch == '"' {
                if in_str {
                    let t: String = cur.split_whitespace().collect();
                    if is_hex(&t) {
                        out.push(unhex(&t));
                    }
                    cur.clear();
                }
                in_str = !in_str;
            } else if in_str {
                cur.push(ch);
            }
        }
    }
    out.sort();
    out.dedup();
    out
}
