//! C19: dynafed parameter roots.  Replays Gen_Dynafed cases: builds the real values from the
//! abstract shapes, evaluates the spec's root expressions with tok.rs, compares with the library.
use crate::tok::{eval, Ctx};
use crate::util::*;
use elements::dynafed::{FullParams, Params};
use elements::hashes::Hash as _;
use elements::{BlockExtData, BlockHeader, Script};
use rand::RngCore;
use serde_json::{json, Value};

fn rbytes(r: &mut Rng, n: usize) -> Vec<u8> {
    let mut v = vec![0u8; n];
    r.fill_bytes(&mut v);
    v
}

/// Build a real Params from the abstract shape and bind its field contents under `pfx`.
fn build(shape: &Value, pfx: &str, r: &mut Rng, ctx: &mut Ctx) -> Params {
    match shape["kind"].as_str().unwrap() {
        "null" => Params::Null,
        "compact" => {
            let sbs = rbytes(r, shape["sbs"].as_u64().unwrap() as usize);
            let el = rbytes(r, 32);
            ctx.set(&format!("{}.sbs", pfx), &sbs);
            ctx.set(&format!("{}.elided", pfx), &el);
            let mut a = [0u8; 32];
            a.copy_from_slice(&el);
            Params::Compact {
                signblockscript: Script::from(sbs),
                signblock_witness_limit: u32::from_str_radix(shape["lim"].as_str().unwrap(), 16).unwrap(),
                elided_root: elements::dynafed::ElidedRoot::from_byte_array(a),
            }
        }
        "full" => {
            let sbs = rbytes(r, shape["sbs"].as_u64().unwrap() as usize);
            let fp = rbytes(r, shape["fp"].as_u64().unwrap() as usize);
            let fps = rbytes(r, shape["fps"].as_u64().unwrap() as usize);
            ctx.set(&format!("{}.sbs", pfx), &sbs);
            ctx.set(&format!("{}.fp", pfx), &fp);
            ctx.set(&format!("{}.fps", pfx), &fps);
            let mut ext = vec![];
            for (i, l) in shape["ext"].as_array().unwrap().iter().enumerate() {
                let e = rbytes(r, l.as_u64().unwrap() as usize);
                ctx.set(&format!("{}.ext{}", pfx, i + 1), &e);
                ext.push(e);
            }
            Params::Full(FullParams::new(
                Script::from(sbs),
                u32::from_str_radix(shape["lim"].as_str().unwrap(), 16).unwrap(),
                elements::bitcoin::ScriptBuf::from(fp),
                fps,
                ext,
            ))
        }
        k => panic!("kind {}", k),
    }
}

fn class_key(shape: &Value) -> String {
    shape["kind"].as_str().unwrap().to_string()
}

pub fn replay_params(args: &[String], out: &mut Out) {
    let cases = read_ndjson(&arg(args, "--cases").expect("--cases"));
    let seed = arg_u64(args, "--seed", 1);
    let k = arg_u64(args, "--k", 1);
    for (ci, c) in cases.iter().enumerate() {
        out.count("distinct_cases");
        if ci % 400 == 7 {
            out.sample(c.clone());
        }
        for j in 0..k {
            out.count("evaluations");
            let mut r = rng(seed, (ci as u64) << 8 | j);
            let mut ctx = Ctx::new();
            let p = build(&c["p"], "x", &mut r, &mut ctx);
            let kind = class_key(&c["p"]);
            let res = guard(|| {
                let mut bad: Vec<(String, String)> = vec![];
                let want_root = eval(&c["root"], &ctx);
                let got = p.calculate_root().to_byte_array();
                if got[..] != want_root[..] {
                    bad.push((format!("C19/params-root/{}", kind), format!("impl {} spec {}", hex(&got), hex(&want_root))));
                }
                if let Params::Full(ref f) = p {
                    let want = eval(&c["direct"], &ctx);
                    let got = f.calculate_root().to_byte_array();
                    if got[..] != want[..] {
                        bad.push(("C19/fullparams-root".into(), format!("impl {} spec {}", hex(&got), hex(&want))));
                    }
                    let comp = f.clone().into_compact();
                    if !comp.is_compact() {
                        bad.push(("C19/fullparams-into_compact/not-compact".into(), String::new()));
                    }
                    if comp.calculate_root().to_byte_array()[..] != want[..] {
                        bad.push(("C19/fullparams-into_compact/root-changed".into(), String::new()));
                    }
                }
                let comp = p.clone().into_compact();
                if comp.is_some() != c["hascompact"].as_bool().unwrap() {
                    bad.push((format!("C19/into_compact/presence/{}", kind), format!("impl {:?}", comp.is_some())));
                }
                if let Some(comp) = comp {
                    let want = eval(&c["croot"], &ctx);
                    let got = comp.calculate_root().to_byte_array();
                    if got[..] != want[..] || got[..] != want_root[..] {
                        bad.push((format!("C19/compact-root/{}", kind), format!("impl {} spec {}", hex(&got), hex(&want))));
                    }
                    if !comp.is_compact() {
                        bad.push((format!("C19/into_compact/not-compact/{}", kind), String::new()));
                    }
                    let want_extra = eval(&c["extra"], &ctx);
                    match comp.elided_root() {
                        Some(e) if e.to_byte_array()[..] == want_extra[..] => {}
                        other => bad.push((format!("C19/elided-root/{}", kind), format!("impl {:?} spec {}", other, hex(&want_extra)))),
                    }
                    if comp.signblockscript() != p.signblockscript() || comp.signblock_witness_limit() != p.signblock_witness_limit() {
                        bad.push((format!("C19/into_compact/sign-fields/{}", kind), String::new()));
                    }
                    if comp.clone().into_compact().as_ref() != Some(&comp) {
                        bad.push((format!("C19/into_compact/not-idempotent/{}", kind), String::new()));
                    }
                    // the compact form survives the wire and keeps its root
                    let bytes = elements::encode::serialize(&comp);
                    match elements::encode::deserialize::<Params>(&bytes) {
                        Ok(back) if back == comp && back.calculate_root() == comp.calculate_root() => {}
                        other => bad.push((format!("C19/compact-wire/{}", kind), format!("{:?}", other.is_ok()))),
                    }
                }
                // the root commits to every field of full parameters
                if let Params::Full(ref f) = p {
                    let base = f.calculate_root();
                    let mut variants: Vec<(&str, FullParams)> = vec![];
                    let mut g = f.clone();
                    g.signblock_witness_limit ^= 1;
                    variants.push(("lim", g));
                    let mut g = f.clone();
                    let mut b = g.signblockscript.to_bytes();
                    b.push(0x51);
                    g.signblockscript = Script::from(b);
                    variants.push(("sbs", g));
                    let mut g = f.clone();
                    let mut b = g.fedpeg_program.to_bytes();
                    b.push(0x51);
                    g.fedpeg_program = elements::bitcoin::ScriptBuf::from(b);
                    variants.push(("fp", g));
                    let mut g = f.clone();
                    g.fedpegscript.push(1);
                    variants.push(("fps", g));
                    let mut g = f.clone();
                    g.extension_space.push(vec![]);
                    variants.push(("ext-count", g));
                    if !f.extension_space.is_empty() {
                        let mut g = f.clone();
                        g.extension_space[0].push(7);
                        variants.push(("ext-entry", g));
                        let mut g = f.clone();
                        g.extension_space.reverse();
                        if g.extension_space != f.extension_space {
                            variants.push(("ext-order", g));
                        }
                    }
                    for (name, g) in variants {
                        if g.calculate_root() == base || Params::Full(g.clone()).calculate_root() == p.calculate_root() {
                            bad.push((format!("C19/not-committed/{}", name), String::new()));
                        }
                        if g.clone().into_compact().elided_root() == f.clone().into_compact().elided_root()
                            && matches!(name, "fp" | "fps" | "ext-count" | "ext-entry" | "ext-order")
                        {
                            bad.push((format!("C19/extra-not-committed/{}", name), String::new()));
                        }
                    }
                }
                bad
            });
            match res {
                Ok(bad) => {
                    for (key, d) in bad {
                        out.viol(&key, json!({"case": c["p"], "seed": seed, "j": j}), d);
                    }
                }
                Err(p) => out.viol(&format!("C19/panic/{}", last_panic_loc()), json!({"case": c["p"]}), p),
            }
        }
    }
}

pub fn replay_headers(args: &[String], out: &mut Out) {
    let cases = read_ndjson(&arg(args, "--cases").expect("--cases"));
    let seed = arg_u64(args, "--seed", 1);
    for (ci, c) in cases.iter().enumerate() {
        out.count("distinct_cases");
        out.count("evaluations");
        if ci % 1000 == 500 {
            out.sample(json!({"c": c["c"], "p": c["p"], "root": c["root"]}));
        }
        let mut r = rng(seed, 0xd1_0000_0000 | ci as u64);
        let mut ctx = Ctx::new();
        let cur = build(&c["c"], "c", &mut r, &mut ctx);
        let prop = build(&c["p"], "p", &mut r, &mut ctx);
        let key_kind = format!("{}-{}", class_key(&c["c"]), class_key(&c["p"]));
        let res = guard(|| {
            let mut bad: Vec<(String, String)> = vec![];
            let mk = |cur: Params, prop: Params, wit: Vec<Vec<u8>>| BlockHeader {
                version: 0x2000_0000,
                prev_blockhash: elements::BlockHash::from_byte_array([0u8; 32]),
                merkle_root: elements::TxMerkleNode::from_byte_array([0u8; 32]),
                time: 1,
                height: 2,
                ext: BlockExtData::Dynafed { current: cur, proposed: prop, signblock_witness: wit },
            };
            let h = mk(cur.clone(), prop.clone(), vec![]);
            let want = eval(&c["root"], &ctx);
            match h.calculate_dynafed_params_root() {
                Some(x) if x.to_byte_array()[..] == want[..] => {}
                other => bad.push((format!("C19/header-root/{}", key_kind), format!("impl {:?} spec {}", other, hex(&want)))),
            }
            let cc = cur.clone().into_compact().unwrap_or(cur.clone());
            let pc = prop.clone().into_compact().unwrap_or(prop.clone());
            let h2 = mk(cc, pc, vec![vec![1, 2, 3]]);
            let want2 = eval(&c["ccroot"], &ctx);
            match h2.calculate_dynafed_params_root() {
                Some(x) if x.to_byte_array()[..] == want2[..] && want2 == want => {}
                other => bad.push((format!("C19/header-root-compacted/{}", key_kind), format!("impl {:?} spec {}", other, hex(&want2)))),
            }
            // a proof-style header has no dynafed root
            let hp = BlockHeader { ext: BlockExtData::Proof { challenge: Script::new(), solution: Script::new() }, ..h.clone() };
            if hp.calculate_dynafed_params_root().is_some() {
                bad.push(("C19/header-root/proof-has-root".into(), String::new()));
            }
            bad
        });
        match res {
            Ok(bad) => {
                for (key, d) in bad {
                    out.viol(&key, json!({"c": c["c"], "p": c["p"], "seed": seed}), d);
                }
            }
            Err(p) => out.viol(&format!("C19/panic/{}", last_panic_loc()), json!({"c": c["c"], "p": c["p"]}), p),
        }
    }
}

fn rand_shape(r: &mut Rng) -> Value {
    let lens = [0u64, 1, 2, 22, 33, 34, 75, 76, 252, 253, 254, 300];
    let pick = |r: &mut Rng| lens[(r.next_u32() % lens.len() as u32) as usize];
    let lim = format!("{:x}", match r.next_u32() % 3 { 0 => 0, 1 => 0xffff_ffff, _ => r.next_u32() });
    match r.next_u32() % 5 {
        0 => json!({"kind":"null"}),
        1 => json!({"kind":"compact","sbs":pick(r),"lim":lim}),
        _ => {
            let n = r.next_u32() % 4;
            let ext: Vec<u64> = (0..n).map(|_| pick(r)).collect();
            json!({"kind":"full","sbs":pick(r),"lim":lim,"fp":pick(r),"fps":pick(r),"ext":ext})
        }
    }
}

fn kind_of(p: &Params) -> &'static str {
    if p.is_null() { "null" } else if p.is_compact() { "compact" } else { "full" }
}

/// Direction B recorder: random sessions of compaction / wire steps on a dynafed header.
pub fn record(args: &[String], out: &mut Out) {
    use std::io::Write;
    let seed = arg_u64(args, "--seed", 1);
    let sessions = arg_u64(args, "--sessions", 500);
    let path = arg(args, "--out").expect("--out");
    let mut f = std::io::BufWriter::new(std::fs::File::create(&path).expect("create trace"));
    let mut r = rng(seed, 0xd19a);
    let mut events = 0u64;
    let root_of = |c: &Params, p: &Params| -> String {
        let h = BlockHeader {
            version: 0x2000_0000,
            prev_blockhash: elements::BlockHash::from_byte_array([0u8; 32]),
            merkle_root: elements::TxMerkleNode::from_byte_array([0u8; 32]),
            time: 1,
            height: 2,
            ext: BlockExtData::Dynafed { current: c.clone(), proposed: p.clone(), signblock_witness: vec![] },
        };
        hex(&h.calculate_dynafed_params_root().unwrap().to_byte_array())
    };
    for _ in 0..sessions {
        let (sc, sp) = (rand_shape(&mut r), rand_shape(&mut r));
        let mut ctx = Ctx::new();
        let mut cur = build(&sc, "c", &mut r, &mut ctx);
        let mut prop = build(&sp, "p", &mut r, &mut ctx);
        let res = guard(|| {
            let mut lines = vec![json!({"op":"init","c":sc,"p":sp,"root":root_of(&cur, &prop)})];
            let steps = 1 + r.next_u32() % 4;
            for _ in 0..steps {
                match r.next_u32() % 3 {
                    0 => {
                        let some = match cur.clone().into_compact() { Some(c) => { cur = c; true } None => false };
                        lines.push(json!({"op":"compact_cur","some":some,"ck":kind_of(&cur),"pk":kind_of(&prop),"root":root_of(&cur,&prop)}));
                    }
                    1 => {
                        let some = match prop.clone().into_compact() { Some(c) => { prop = c; true } None => false };
                        lines.push(json!({"op":"compact_prop","some":some,"ck":kind_of(&cur),"pk":kind_of(&prop),"root":root_of(&cur,&prop)}));
                    }
                    _ => {
                        let b1 = elements::encode::serialize(&cur);
                        let b2 = elements::encode::serialize(&prop);
                        let ok = match (elements::encode::deserialize::<Params>(&b1), elements::encode::deserialize::<Params>(&b2)) {
                            (Ok(a), Ok(b)) => { let ok = a == cur && b == prop; cur = a; prop = b; ok }
                            _ => false,
                        };
                        lines.push(json!({"op":"wire","ok":ok,"ck":kind_of(&cur),"pk":kind_of(&prop),"root":root_of(&cur,&prop)}));
                    }
                }
            }
            lines
        });
        match res {
            Ok(lines) => {
                for l in lines { writeln!(f, "{}", l).unwrap(); events += 1; }
                out.count("traces");
            }
            Err(p) => out.viol(&format!("C19/panic/{}", last_panic_loc()), json!({"c": sc, "p": sp}), p),
        }
    }
    out.add("events", events);
}
