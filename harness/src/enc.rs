//! Independent text encoders: base58check and the table-driven bech32 / bech32m / blech32 / blech32m
//! (generator rows and targets are read from the tables exported by Checksum.tla).
use crate::sha256c::sha256d;
use serde_json::Value;

const B58: &[u8; 58] = b"123456789ABCDEFGHJKLMNPQRSTUVWXYZabcdefghijkmnopqrstuvwxyz";
pub const CHARSET: &[u8; 32] = b"qpzry9x8gf2tvdw0s3jn54khce6mua7l";

pub fn base58(data: &[u8]) -> String {
    let zeros = data.iter().take_while(|b| **b == 0).count();
    let mut digits: Vec<u8> = vec![];
    for &byte in data {
        let mut carry = byte as u32;
        for d in digits.iter_mut() {
            carry += (*d as u32) << 8;
            *d = (carry % 58) as u8;
            carry /= 58;
        }
        while carry > 0 {
            digits.push((carry % 58) as u8);
            carry /= 58;
        }
    }
    let mut s = String::new();
    for _ in 0..zeros { s.push('1'); }
    for d in digits.iter().rev() { s.push(B58[*d as usize] as char); }
    s
}

pub fn base58check(payload: &[u8], good: bool) -> String {
    let mut v = payload.to_vec();
    let mut ck = sha256d(payload)[..4].to_vec();
    if !good { ck[2] ^= 0x10; }
    v.extend(ck);
    base58(&v)
}

pub struct Code {
    pub k: usize,
    pub rows: Vec<Vec<u8>>,
    pub targetm: Vec<u8>,
}

impl Code {
    pub fn from_table(t: &Value) -> Code {
        Code {
            k: t["k"].as_u64().unwrap() as usize,
            rows: t["genrows"].as_array().unwrap().iter().map(|r| r.as_array().unwrap().iter().map(|x| x.as_u64().unwrap() as u8).collect()).collect(),
            targetm: t["targetm"].as_array().unwrap().iter().map(|x| x.as_u64().unwrap() as u8).collect(),
        }
    }
    fn step(&self, st: &mut Vec<u8>, v: u8) {
        let c0 = st[0];
        st.remove(0);
        st.push(v);
        for i in 0..5 {
            if (c0 >> i) & 1 == 1 {
                for j in 0..self.k { st[j] ^= self.rows[i][j]; }
            }
        }
    }
    /// checksum symbols for hrp + data symbols; `m` selects the "m" target
    pub fn checksum(&self, hrp: &str, data: &[u8], m: bool) -> Vec<u8> {
        let mut st = vec![0u8; self.k];
        st[self.k - 1] = 1;
        for c in hrp.bytes() { self.step(&mut st, c.to_ascii_lowercase() >> 5); }
        self.step(&mut st, 0);
        for c in hrp.bytes() { self.step(&mut st, c.to_ascii_lowercase() & 31); }
        for d in data { self.step(&mut st, *d); }
        for _ in 0..self.k { self.step(&mut st, 0); }
        let mut target = vec![0u8; self.k];
        if m { target = self.targetm.clone(); } else { target[self.k - 1] = 1; }
        (0..self.k).map(|j| st[j] ^ target[j]).collect()
    }
}

pub fn to_fes(bytes: &[u8]) -> Vec<u8> {
    let mut out = vec![];
    let (mut acc, mut bits) = (0u32, 0u32);
    for b in bytes {
        acc = (acc << 8) | *b as u32;
        bits += 8;
        while bits >= 5 {
            bits -= 5;
            out.push(((acc >> bits) & 31) as u8);
        }
    }
    if bits > 0 { out.push(((acc << (5 - bits)) & 31) as u8); }
    out
}

/// segwit-style string: hrp 1 <version char> <data> <checksum>; variant "plain" | "m" | "bad"
pub fn segwit_string(code: &Code, hrp: &str, ver: u8, bytes: &[u8], variant: &str) -> String {
    segwit_string_pad(code, hrp, ver, bytes, variant, 0)
}

/// as segwit_string, with the `pad`-th padding bit (1 = least significant) of the last data symbol set
pub fn segwit_string_pad(code: &Code, hrp: &str, ver: u8, bytes: &[u8], variant: &str, pad: usize) -> String {
    let mut data = vec![ver];
    data.extend(to_fes(bytes));
    let padbits = (5 - (8 * bytes.len()) % 5) % 5;
    if pad > 0 && pad <= padbits { let n = data.len(); data[n - 1] |= 1 << (pad - 1); }
    let mut ck = code.checksum(hrp, &data, variant == "m");
    if variant == "bad" { ck[1] ^= 5; }
    let mut s = format!("{}1", hrp);
    for d in data.iter().chain(ck.iter()) { s.push(CHARSET[*d as usize] as char); }
    s
}
