//! TxOut::is_fee, Transaction::fee_in, Transaction::all_fees against Fees.tla (extras).
use crate::pools;
use crate::util::*;
use elements::confidential::{Asset, Nonce, Value as CValue};
use elements::{Script, Transaction, TxOut};
use serde_json::{json, Value};

pub fn replay(args: &[String], out: &mut Out) {
    let cases = read_ndjson(&arg(args, "--cases").expect("--cases"));
    let seed = arg_u64(args, "--seed", 1);
    let mut r = rng(seed, 0x9e62);
    let ids = [pools::asset_id(&mut r), pools::asset_id(&mut r), pools::asset_id(&mut r)];
    for (ci, c) in cases.iter().enumerate() {
        out.count("distinct_cases");
        out.count("evaluations");
        if ci % 2000 == 3 { out.sample(c.clone()); }
        let unit = 1 + (ci as u64 % 97) * 1_000_003;
        let outs: Vec<TxOut> = c["outs"].as_array().unwrap().iter().map(|o| {
            let id = ids[if o["asset"] == "A" { 0 } else { 1 }];
            TxOut {
                asset: if o["aform"] == "expl" { Asset::Explicit(id) } else { Asset::new_confidential(pools::secp(), id, pools::abf(&mut r)) },
                value: match o["vform"].as_str().unwrap() { "expl" => CValue::Explicit(o["v"].as_u64().unwrap() * unit), "conf" => pools::conf_value(&mut r), _ => CValue::Null },
                nonce: Nonce::Null,
                script_pubkey: if o["script"] == "empty" { Script::new() } else { Script::from(vec![0x51]) },
                witness: Default::default(),
            }
        }).collect();
        let tx = Transaction { version: 2, lock_time: elements::LockTime::ZERO, input: vec![], output: outs };
        let case = json!({"case": c});
        match guard(|| ([tx.fee_in(ids[0]), tx.fee_in(ids[1]), tx.fee_in(ids[2])], tx.all_fees())) {
            Err(p) => out.viol(&format!("X/fees/panic/{}", last_panic_loc()), case, p),
            Ok((f, all)) => {
                let want = [c["fee_a"].as_u64().unwrap() * unit, c["fee_b"].as_u64().unwrap() * unit, c["fee_c"].as_u64().unwrap() * unit];
                if f != want { out.viol("X/fees/fee_in", case.clone(), format!("library {:?} specification {:?}", f, want)); }
                let want_assets: std::collections::BTreeSet<usize> = c["assets"].as_array().unwrap().iter().map(|a| if a == "A" { 0 } else { 1 }).collect();
                let got_assets: std::collections::BTreeSet<usize> = all.keys().map(|k| ids.iter().position(|i| i == k).unwrap_or(9)).collect();
                if want_assets != got_assets { out.viol("X/fees/all_fees-assets", case.clone(), format!("{:?} vs {:?}", got_assets, want_assets)); }
                for (k, v) in all.iter() { let i = ids.iter().position(|x| x == k).unwrap_or(0); if *v != want[i] { out.viol("X/fees/all_fees-value", case.clone(), String::new()); } }
            }
        }
    }
}
