//! C18: fast_merkle_root.  Direction A: evaluate the specification's root term with an
//! independent compression function.  Direction B: record the hook's step events.
use crate::sha256c::mid;
use crate::util::*;
use rand::RngCore;
use serde_json::{json, Value};

fn eval(term: &Value, leaves: &[[u8; 32]]) -> [u8; 32] {
    let a = term.as_array().expect("term");
    match a[0].as_str().unwrap() {
        "Z" => [0u8; 32],
        "L" => leaves[a[1].as_u64().unwrap() as usize - 1],
        "M" => mid(&eval(&a[1], leaves), &eval(&a[2], leaves)),
        x => panic!("bad term tag {}", x),
    }
}

/// Definitional tree, own implementation (used for counts beyond what TLC emitted).
fn def_root(leaves: &[[u8; 32]]) -> [u8; 32] {
    if leaves.is_empty() {
        return [0u8; 32];
    }
    let mut lvl: Vec<[u8; 32]> = leaves.to_vec();
    while lvl.len() > 1 {
        let mut next = Vec::with_capacity(lvl.len() / 2 + 1);
        let mut i = 0;
        while i + 1 < lvl.len() {
            next.push(mid(&lvl[i], &lvl[i + 1]));
            i += 2;
        }
        if i < lvl.len() {
            next.push(lvl[i]);
        }
        lvl = next;
    }
    lvl[0]
}

fn real(leaves: &[[u8; 32]]) -> Result<[u8; 32], String> {
    guard(|| *elements::fast_merkle_root(leaves).as_parts().0)
}

fn rand_leaves(r: &mut Rng, n: usize) -> Vec<[u8; 32]> {
    (0..n)
        .map(|_| {
            let mut b = [0u8; 32];
            r.fill_bytes(&mut b);
            b
        })
        .collect()
}

fn check_one(out: &mut Out, n: usize, want: [u8; 32], leaves: &[[u8; 32]], case: Value, sens: bool) {
    out.count("evaluations");
    match real(leaves) {
        Err(p) => out.viol(&format!("C18/panic/n={}", n), case, format!("panic: {} at {}", p, last_panic_loc())),
        Ok(got) => {
            if got != want {
                out.viol(&format!("C18/root-mismatch/n={}", n), case.clone(), format!("impl {} spec {}", hex(&got), hex(&want)));
            }
            if sens && n > 0 {
                // dependence on every leaf and on order
                for i in 0..n {
                    let mut l2 = leaves.to_vec();
                    l2[i][7] ^= 0x10;
                    out.count("sensitivity_checks");
                    if real(&l2).ok() == Some(got) {
                        out.viol(&format!("C18/leaf-ignored/n={}", n), json!({"n": n, "leaf": i}), "root unchanged after editing a leaf".into());
                    }
                    if i + 1 < n {
                        let mut l3 = leaves.to_vec();
                        l3.swap(i, i + 1);
                        out.count("sensitivity_checks");
                        if real(&l3).ok() == Some(got) {
                            out.viol(&format!("C18/order-ignored/n={}", n), json!({"n": n, "swap": i}), "root unchanged after swapping adjacent leaves".into());
                        }
                    }
                }
            }
        }
    }
}

pub fn replay(args: &[String], out: &mut Out) {
    let cases = read_ndjson(&arg(args, "--cases").expect("--cases"));
    let seed = arg_u64(args, "--seed", 1);
    let k = arg_u64(args, "--k", 2);
    for c in &cases {
        let n = c["n"].as_u64().unwrap() as usize;
        for j in 0..k {
            let mut r = rng(seed, (n as u64) << 8 | j);
            let leaves = rand_leaves(&mut r, n);
            let want = eval(&c["term"], &leaves);
            if want != def_root(&leaves) {
                out.viol("C18/oracle-selftest", json!({"n": n}), "term evaluation and own definitional tree disagree".into());
            }
            check_one(out, n, want, &leaves, json!({"n": n, "seed": seed, "j": j}), j == 0);
        }
        // leaves are arbitrary 32-byte strings: an all-zero leaf (the value the function returns for the empty list) at every
        // position, and the all-zero list, must be hashed like any other
        if n >= 1 && n <= 33 {
            let mut r = rng(seed, 0x2e70_0000 + n as u64);
            for z in 0..=n {
                let mut leaves = rand_leaves(&mut r, n);
                if z == n { for l in leaves.iter_mut() { *l = [0u8; 32]; } } else { leaves[z] = [0u8; 32]; }
                let want = eval(&c["term"], &leaves);
                check_one(out, n, want, &leaves, json!({"n": n, "seed": seed, "zero_leaf_at": z}), false);
            }
        }
        out.count("distinct_n");
        if n == 5 || n == 11 {
            out.sample(json!({"n": n, "term": c["term"]}));
        }
    }
}

pub fn big(args: &[String], out: &mut Out) {
    let seed = arg_u64(args, "--seed", 1);
    let count = arg_u64(args, "--count", 50);
    let maxn = arg_u64(args, "--maxn", 5000);
    let mut r = rng(seed, 0xb16);
    let mut ns: Vec<u64> = vec![127, 128, 129, 255, 256, 257, 1023, 1024, 1025, 4095, 4096, 4097];
    for _ in 0..count {
        ns.push(65 + r.next_u64() % (maxn - 64));
    }
    // every level of the pending-subtree stack is reached at a power of two: the counts around 2^16, 2^17 and 2^20 are always tried
    let always: [u64; 7] = [65535, 65536, 65537, 131071, 131072, 131073, (1 << 20) + 1];
    ns.retain(|n| *n <= maxn);
    ns.extend(always);
    for n in ns {
        let leaves = rand_leaves(&mut r, n as usize);
        let want = def_root(&leaves);
        check_one(out, n as usize, want, &leaves, json!({"n": n, "seed": seed, "mode": "big"}), false);
        out.count("distinct_n");
    }
}

fn h8(b: &[u8; 32]) -> String {
    hex(&b[..8])
}

/// Record hook events for n in ns; also checks each logged compression with the own function.
pub fn record(args: &[String], out: &mut Out) {
    use elements::verif_fast_merkle_trace as tr;
    let seed = arg_u64(args, "--seed", 1);
    let maxn = arg_u64(args, "--maxn", 64);
    let path = arg(args, "--out").expect("--out");
    let mut f = std::io::BufWriter::new(std::fs::File::create(&path).expect("create trace"));
    use std::io::Write;
    let mut ns: Vec<u64> = (0..=maxn).collect();
    if let Some(extra) = arg(args, "--extra") {
        ns.extend(extra.split(',').filter(|s| !s.is_empty()).map(|s| s.parse::<u64>().unwrap()));
    }
    let mut events = 0u64;
    for n in ns {
        let mut r = rng(seed, 0x7ace_0000 + n);
        let leaves = rand_leaves(&mut r, n as usize);
        tr::start();
        let res = real(&leaves);
        let steps = tr::take();
        if let Err(p) = res {
            out.viol(&format!("C18/panic/n={}", n), json!({"n": n}), p);
            continue;
        }
        writeln!(f, "{}", json!({"ev":"reset","n":n,"zero":h8(&[0u8;32])})).unwrap();
        events += 1;
        for s in steps {
            let v = match s {
                tr::Step::Leaf { index, value } => json!({"ev":"leaf","index":index,"value":h8(&value)}),
                tr::Step::Carry { level, left, right, out: o } => {
                    if mid(&left, &right) != o {
                        out.viol("C18/compression-mismatch", json!({"n": n, "level": level}), "logged carry output is not the SHA-256 compression of its operands".into());
                    }
                    json!({"ev":"carry","level":level,"left":h8(&left),"right":h8(&right),"out":h8(&o)})
                }
                tr::Step::Store { level, value } => json!({"ev":"store","level":level,"value":h8(&value)}),
                tr::Step::Skip { level } => json!({"ev":"skip","level":level}),
                tr::Step::SweepStart { level, value } => json!({"ev":"sweepstart","level":level,"value":h8(&value)}),
                tr::Step::Promote { level } => json!({"ev":"promote","level":level}),
                tr::Step::Combine { level, left, right, out: o } => {
                    if mid(&left, &right) != o {
                        out.viol("C18/compression-mismatch", json!({"n": n, "level": level}), "logged combine output is not the SHA-256 compression of its operands".into());
                    }
                    json!({"ev":"combine","level":level,"left":h8(&left),"right":h8(&right),"out":h8(&o)})
                }
                tr::Step::Done { value } => {
                    if Ok(value) != res {
                        out.viol("C18/hook-result-mismatch", json!({"n": n}), "Done event differs from return value".into());
                    }
                    json!({"ev":"done","value":h8(&value)})
                }
            };
            writeln!(f, "{}", v).unwrap();
            events += 1;
        }
        out.count("traces");
    }
    out.add("events", events);
}
