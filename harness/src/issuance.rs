//! C11: asset / token id derivation in every representation, and JSON contract hashes.
use crate::pools;
use crate::sha256c;
use crate::tok::{eval, Ctx};
use crate::util::*;
use elements::confidential::Value as CValue;
use elements::hashes::Hash as _;
use elements::pset::PartiallySignedTransaction as Pset;
use elements::{AssetId, AssetIssuance, ContractHash, OutPoint, Transaction, TxIn, TxOut, Txid};
use rand::RngCore;
use serde_json::{json, Value};

fn amount(cls: &str, r: &mut Rng) -> CValue {
    match cls {
        "null" => CValue::Null,
        "expl" => CValue::Explicit(1 + (r.next_u64() >> 20)),
        "conf" => pools::conf_value(r),
        x => panic!("amount class {}", x),
    }
}

fn ids_bytes(p: (AssetId, AssetId)) -> ([u8; 32], [u8; 32]) {
    (p.0.to_byte_array(), p.1.to_byte_array())
}

pub fn replay(args: &[String], out: &mut Out) {
    let cases = read_ndjson(&arg(args, "--cases").expect("--cases"));
    let seed = arg_u64(args, "--seed", 1);
    let k = arg_u64(args, "--k", 4);
    for (ci, c) in cases.iter().enumerate() {
        out.count("distinct_cases");
        if ci % 40 == 3 {
            out.sample(c.clone());
        }
        let inp = &c["inp"];
        let cls = format!(
            "base={}/pegin={}/nonce={}/amount={}",
            inp["base"].as_str().unwrap(),
            inp["pegin"],
            inp["nonce"].as_str().unwrap(),
            inp["amount"].as_str().unwrap()
        );
        let collides = c["collides"].as_bool().unwrap();
        for j in 0..k {
            out.count("evaluations");
            let mut r = rng(seed, (ci as u64) << 8 | j);
            let txid_b = pools::bytes32(&mut r);
            let entropy = pools::bytes32(&mut r);
            let mut ctx = Ctx::new();
            ctx.set("txid", &txid_b);
            ctx.set("entropy", &entropy);
            let plain = u32::from_str_radix(c["plain_index"].as_str().unwrap(), 16).unwrap();
            let stored = u32::from_str_radix(c["pset_index"].as_str().unwrap(), 16).unwrap();
            let nonce = if inp["nonce"] == "zero" { elements::secp256k1_zkp::ZERO_TWEAK } else { pools::tweak(&mut r) };
            let txin = TxIn {
                previous_output: OutPoint::new(Txid::from_byte_array(txid_b), plain),
                is_pegin: inp["pegin"].as_bool().unwrap(),
                asset_issuance: AssetIssuance {
                    asset_blinding_nonce: nonce,
                    asset_entropy: entropy,
                    amount: amount(inp["amount"].as_str().unwrap(), &mut r),
                    inflation_keys: amount(inp["keys"].as_str().unwrap(), &mut r),
                },
                ..Default::default()
            };
            let want = (eval(&c["asset"], &ctx), eval(&c["token"], &ctx));
            let want_e = eval(&c["entropy"], &ctx);
            let case = json!({"inp": inp, "seed": seed, "j": j});
            let res = guard(|| {
                let mut bad: Vec<(String, String)> = vec![];
                let eq = |got: ([u8; 32], [u8; 32])| got.0[..] == want.0[..] && got.1[..] == want.1[..];
                // representation 1: TxIn
                if !eq(ids_bytes(txin.issuance_ids())) {
                    bad.push((format!("C11/txin/ids/{}", cls), "TxIn::issuance_ids differs from the derivation".into()));
                }
                // representation 1b: the same input after a trip through the consensus codec (ids derive from the plain index there too)
                // (the null index carries no flag bits on the wire, so an issuance attached to it has no encoding: in-memory only)
                if !collides && inp["base"] != "null" {
                    let enc = elements::encode::serialize(&Transaction { version: 2, lock_time: elements::LockTime::ZERO, input: vec![txin.clone()], output: vec![] });
                    match elements::encode::deserialize::<Transaction>(&enc) {
                        Ok(t) => if !eq(ids_bytes(t.input[0].issuance_ids())) { bad.push((format!("C11/txin-decoded/ids/{}", cls), "ids of the decoded input differ from the derivation".into())); },
                        Err(e) => bad.push((format!("C11/txin-decoded/decode-error/{}", cls), e.to_string())),
                    }
                }
                // representation 2: pset::Input built from it
                let pin = elements::pset::Input::from_txin(txin.clone());
                if pin.previous_output_index != stored {
                    bad.push((format!("C11/pset-input/stored-index/{}", cls), format!("stored {:08x} spec {:08x}", pin.previous_output_index, stored)));
                }
                if !eq(ids_bytes(pin.issuance_ids())) {
                    let key = if collides { "C11/format/index-3fffffff-pegin-issuance-collides-with-null/pset-input".to_string() } else { format!("C11/pset-input/ids/{}", cls) };
                    bad.push((key, "pset::Input::issuance_ids differs from TxIn::issuance_ids / the derivation".into()));
                }
                // representation 3: input of the transaction extracted from the PSET
                let tx = Transaction {
                    version: 2,
                    lock_time: elements::LockTime::ZERO,
                    input: vec![txin.clone()],
                    output: vec![TxOut::new_fee(1, pools::asset_id(&mut rng(seed, 99)))],
                };
                let pset = Pset::from_tx(tx.clone());
                if !eq(ids_bytes(pset.inputs()[0].issuance_ids())) && !collides {
                    bad.push((format!("C11/pset-from-tx/ids/{}", cls), String::new()));
                }
                match pset.extract_tx() {
                    Ok(tx2) => {
                        let key_c = "C11/format/index-3fffffff-pegin-issuance-collides-with-null/extract".to_string();
                        if !eq(ids_bytes(tx2.input[0].issuance_ids())) {
                            bad.push((if collides { key_c.clone() } else { format!("C11/extracted/ids/{}", cls) }, String::new()));
                        }
                        if tx2.input[0].previous_output.vout != plain {
                            bad.push((if collides { key_c } else { format!("C11/extracted/plain-index/{}", cls) }, format!("{:08x}", tx2.input[0].previous_output.vout)));
                        }
                    }
                    Err(e) => bad.push((format!("C11/extract-error/{}", cls), e.to_string())),
                }
                // a blinder commits the issuance amount in the PSET and keeps the explicit field (Issuance.AddCommitment):
                // the issuance is now a blinded one in the PSET view and in the extracted transaction
                if inp["amount"] == "expl" && !collides {
                    let want_tb = eval(&c["token_both"], &ctx);
                    let eqb = |got: ([u8; 32], [u8; 32])| got.0[..] == want.0[..] && got.1[..] == want_tb[..];
                    let mut p2 = Pset::from_tx(tx.clone());
                    p2.inputs_mut()[0].issuance_value_comm = pools::conf_value(&mut r).commitment();
                    if p2.inputs()[0].issuance_value_amount.is_none() { bad.push((format!("C11/pset-both/amount-field-lost/{}", cls), String::new())); }
                    if !eqb(ids_bytes(p2.inputs()[0].issuance_ids())) { bad.push((format!("C11/pset-both/pset-input-ids/{}", cls), "amount and commitment both present: the issuance is blinded".into())); }
                    match p2.extract_tx() {
                        Ok(t3) => {
                            if !t3.input[0].asset_issuance.amount.is_confidential() { bad.push((format!("C11/pset-both/extracted-amount-not-the-commitment/{}", cls), String::new())); }
                            if !eqb(ids_bytes(t3.input[0].issuance_ids())) { bad.push((format!("C11/pset-both/extracted-ids/{}", cls), "extracted input and PSET input disagree on the ids".into())); }
                        }
                        Err(e) => bad.push((format!("C11/pset-both/extract-error/{}", cls), e.to_string())),
                    }
                }
                // the derivation functions themselves
                let op = OutPoint::new(Txid::from_byte_array(txid_b), plain);
                let conf = inp["amount"] == "conf";
                if inp["nonce"] == "zero" {
                    let ch = ContractHash::from_byte_array(entropy);
                    let e = AssetId::generate_asset_entropy(op, ch);
                    if e.to_byte_array()[..] != want_e[..] {
                        bad.push((format!("C11/api/generate_asset_entropy/base={}", inp["base"].as_str().unwrap()), String::new()));
                    }
                    if AssetId::new_issuance(op, ch).to_byte_array()[..] != want.0[..] {
                        bad.push(("C11/api/new_issuance".into(), String::new()));
                    }
                    if AssetId::new_reissuance_token(op, ch, conf).to_byte_array()[..] != want.1[..] {
                        bad.push((format!("C11/api/new_reissuance_token/conf={}", conf), String::new()));
                    }
                }
                let mut e32 = [0u8; 32];
                e32.copy_from_slice(&want_e);
                let ent = elements::AssetEntropy::from_byte_array(e32);
                if AssetId::from_entropy(ent).to_byte_array()[..] != want.0[..] {
                    bad.push(("C11/api/from_entropy".into(), String::new()));
                }
                if AssetId::reissuance_token_from_entropy(ent, conf).to_byte_array()[..] != want.1[..] {
                    bad.push((format!("C11/api/reissuance_token_from_entropy/conf={}", conf), String::new()));
                }
                bad
            });
            match res {
                Ok(bad) => {
                    for (key, d) in bad {
                        out.viol(&key, case.clone(), d);
                    }
                }
                Err(p) => out.viol(&format!("C11/panic/{}", last_panic_loc()), case, p),
            }
        }
    }
}

pub fn json_contract(args: &[String], out: &mut Out) {
    let cases = read_ndjson(&arg(args, "--cases").expect("--cases"));
    for (ci, c) in cases.iter().enumerate() {
        out.count("distinct_cases");
        let canon = c["canon"].as_str().unwrap();
        let want = sha256c::sha256(canon.as_bytes());
        if ci % 100 == 9 {
            out.sample(json!({"canon": canon, "n_texts": c["texts"].as_array().unwrap().len()}));
        }
        for t in c["texts"].as_array().unwrap() {
            out.count("evaluations");
            let text = t.as_str().unwrap();
            match guard(|| ContractHash::from_json_contract(text)) {
                Ok(Ok(h)) => {
                    if h.to_byte_array() != want {
                        out.viol(
                            &format!("C11/json-contract/hash/nkeys={}", c["nkeys"]),
                            json!({"text": text, "canon": canon}),
                            "contract hash is not SHA-256 of the canonical text".into(),
                        );
                    }
                }
                Ok(Err(e)) => out.viol("C11/json-contract/rejected", json!({"text": text}), e.to_string()),
                Err(p) => out.viol("C11/json-contract/panic", json!({"text": text}), p),
            }
        }
    }
}
