#![allow(dead_code)]
mod alloc;
#[global_allocator]
static GLOBAL: alloc::Counting = alloc::Counting;
mod addr;
mod blind;
mod checksum;
mod corpus;
mod dynafed;
mod enc;
mod fmr;
mod issuance;
mod pools;
mod psetblind;
mod psetbuild;
mod psetcodec;
mod psetmerge;
mod psetview;
mod pegout;
mod fees;
mod pegin;
mod psetops;
mod scalar;
mod script;
mod serdes;
mod sha256c;
mod sighash;
mod taproot;
mod tok;
mod total;
mod util;
mod wire;

use util::Out;

fn main() {
    let args: Vec<String> = std::env::args().collect();
    if args.len() < 3 {
        eprintln!("usage: vh <module> <command> [--opt value]...");
        std::process::exit(2);
    }
    util::quiet_panics();
    if !scalar::selftest() {
        eprintln!("own scalar arithmetic self-test failed");
        std::process::exit(2);
    }
    if !sha256c::selftest() {
        eprintln!("own SHA-256 self-test failed");
        std::process::exit(2);
    }
    let mut out = Out::new();
    let rest = &args[3..];
    match (args[1].as_str(), args[2].as_str()) {
        ("fmr", "replay") => fmr::replay(rest, &mut out),
        ("fmr", "big") => fmr::big(rest, &mut out),
        ("fmr", "record") => fmr::record(rest, &mut out),
        ("dynafed", "params") => dynafed::replay_params(rest, &mut out),
        ("dynafed", "headers") => dynafed::replay_headers(rest, &mut out),
        ("issuance", "replay") => issuance::replay(rest, &mut out),
        ("issuance", "json") => issuance::json_contract(rest, &mut out),
        ("checksum", "lfsr") => checksum::lfsr(rest, &mut out),
        ("checksum", "corrupt") => checksum::corrupt(rest, &mut out),
        ("pegin", "replay") => pegin::replay(rest, &mut out),
        ("fees", "replay") => fees::replay(rest, &mut out),
        ("pegout", "replay") => pegout::replay(rest, &mut out),
        ("psetops", "record") => psetops::record(rest, &mut out),
        ("psetview", "locktime") => psetview::locktime(rest, &mut out),
        ("psetview", "history") => psetview::history(rest, &mut out),
        ("psetview", "record") => psetview::record(rest, &mut out),
        ("psetview", "roundtrip") => psetview::roundtrip(rest, &mut out),
        ("wire", "base") => wire::base(rest, &mut out),
        ("wire", "wire") => wire::wire(rest, &mut out),
        ("wire", "txfields") => wire::txfields(rest, &mut out),
        ("wire", "header") => wire::header(rest, &mut out),
        ("wire", "block") => wire::block(rest, &mut out),
        ("wire", "typed") => wire::typed(rest, &mut out),
        ("wire", "record") => wire::record(rest, &mut out),
        ("sighash", "replay") => sighash::replay(rest, &mut out),
        ("sighash", "sensitivity") => sighash::sensitivity(rest, &mut out),
        ("sighash", "cache-replay") => sighash::cache_replay(rest, &mut out),
        ("sighash", "cache-record") => sighash::cache_record(rest, &mut out),
        ("psetblind", "replay") => psetblind::replay(rest, &mut out),
        ("blind", "replay") => blind::replay(rest, &mut out),
        ("blind", "explicit") => blind::explicit(rest, &mut out),
        ("psetcodec", "subsets") => psetcodec::subsets(rest, &mut out),
        ("psetcodec", "edits") => psetcodec::edits(rest, &mut out),
        ("psetcodec", "record") => psetcodec::record(rest, &mut out),
        ("psetcodec", "sized") => psetcodec::sized(rest, &mut out),
        ("psetmerge", "replay") => psetmerge::replay(rest, &mut out),
        ("psetmerge", "keysources") => psetmerge::keysources(rest, &mut out),
        ("taproot", "replay") => taproot::replay(rest, &mut out),
        ("taproot", "deep") => taproot::deep(rest, &mut out),
        ("taproot", "huffman") => taproot::huffman(rest, &mut out),
        ("script", "sequences") => script::sequences(rest, &mut out),
        ("script", "numbers") => script::numbers(rest, &mut out),
        ("script", "templates") => script::templates(rest, &mut out),
        ("addr", "strings") => addr::strings(rest, &mut out),
        ("addr", "valid") => addr::valid(rest, &mut out),
        ("serde", "content") => serdes::content(rest, &mut out),
        ("serde", "replay") => serdes::replay(rest, &mut out),
        ("total", "record") => total::record(rest, &mut out),
        ("dynafed", "record") => dynafed::record(rest, &mut out),
        (m, c) => {
            eprintln!("unknown command {} {}", m, c);
            std::process::exit(2);
        }
    }
    out.finish();
}
