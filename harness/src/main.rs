#![allow(dead_code)]
mod checksum;
mod dynafed;
mod fmr;
mod issuance;
mod pools;
mod psetview;
mod sha256c;
mod tok;
mod util;

use util::Out;

fn main() {
    let args: Vec<String> = std::env::args().collect();
    if args.len() < 3 {
        eprintln!("usage: vh <module> <command> [--opt value]...");
        std::process::exit(2);
    }
    util::quiet_panics();
    if !sha256c::selftest() {
        eprintln!("own SHA-256 self-test failed");
        std::process::exit(2);
    }
    let mut out = Out::new();
    let rest = &args[3..];
    match (args[1].as_str(), args[2].as_str()) {
        ("fmr", "replay") => fmr::replay(rest, &mut out),
        ("fmr", "big") => fmr::big(rest, &mut out),
        ("fmr", "record") => fmr::record(rest, &mut out),
        ("dynafed", "params") => dynafed::replay_params(rest, &mut out),
        ("dynafed", "headers") => dynafed::replay_headers(rest, &mut out),
        ("issuance", "replay") => issuance::replay(rest, &mut out),
        ("issuance", "json") => issuance::json_contract(rest, &mut out),
        ("checksum", "lfsr") => checksum::lfsr(rest, &mut out),
        ("checksum", "corrupt") => checksum::corrupt(rest, &mut out),
        ("psetview", "locktime") => psetview::locktime(rest, &mut out),
        ("psetview", "history") => psetview::history(rest, &mut out),
        ("psetview", "record") => psetview::record(rest, &mut out),
        ("dynafed", "record") => dynafed::record(rest, &mut out),
        (m, c) => {
            eprintln!("unknown command {} {}", m, c);
            std::process::exit(2);
        }
    }
    out.finish();
}
