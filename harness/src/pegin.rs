//! PeginData::from_pegin_witness / to_pegin_witness, TxIn::pegin_prevout / pegin_data against Pegin.tla (extras).
use crate::pools;
use crate::sha256c::sha256d;
use crate::util::*;
use elements::{OutPoint, PeginData, TxIn, Txid};
use serde_json::{json, Value};

pub fn replay(args: &[String], out: &mut Out) {
    let cases = read_ndjson(&arg(args, "--cases").expect("--cases"));
    let seed = arg_u64(args, "--seed", 1);
    for (ci, c) in cases.iter().enumerate() {
        out.count("distinct_cases");
        out.count("evaluations");
        if ci % 300 == 7 { out.sample(c.clone()); }
        let mut r = rng(seed, 0x9e61_0000 + ci as u64);
        let w: Vec<Vec<u8>> = c["w"].as_array().unwrap().iter().map(|n| pools::rbytes(&mut r, n.as_u64().unwrap() as usize)).collect();
        let is_pegin = c["pegin"].as_bool().unwrap();
        let prev = OutPoint::new(Txid::from_byte_array(pools::bytes32(&mut r)), 5);
        let mut txin = TxIn { previous_output: prev, is_pegin, ..Default::default() };
        txin.witness.pegin_witness = w.clone();
        let case = json!({"case": c});
        let lens: Vec<String> = w.iter().map(|x| x.len().to_string()).collect();
        let cls = lens.join(",");
        let res = guard(|| {
            let mut bad: Vec<(String, String)> = vec![];
            let btc_prev = elements::bitcoin::OutPoint { txid: elements::bitcoin::Txid::from_raw_hash(elements::bitcoin::hashes::Hash::from_byte_array(prev.txid.to_byte_array())), vout: 5 };
            let parsed = PeginData::from_pegin_witness(&w, btc_prev);
            let want_err = c["err"].as_str().unwrap();
            match &parsed {
                Ok(d) => {
                    if want_err != "ok" { bad.push((format!("X/pegin/accepted/{}", cls), format!("specification: {}", want_err))); }
                    else {
                        if d.to_pegin_witness() != w { bad.push((format!("X/pegin/to_pegin_witness-roundtrip/{}", cls), String::new())); }
                        use elements::bitcoin::hashes::Hash as _;
                        let mut le = [0u8; 8]; le.copy_from_slice(&w[0]);
                        if d.value != u64::from_le_bytes(le) || elements::encode::serialize(&d.asset) != w[1] || d.genesis_hash.to_byte_array().to_vec() != w[2]
                            || d.claim_script != &w[3][..] || d.tx != &w[4][..] || d.merkle_proof != &w[5][..] || d.outpoint != btc_prev
                            || d.referenced_block.to_byte_array() != sha256d(&w[5][..80]) {
                            bad.push((format!("X/pegin/fields/{}", cls), "a parsed field is not the corresponding witness item".into()));
                        }
                    }
                }
                Err(e) => {
                    if want_err == "ok" { bad.push((format!("X/pegin/rejected/{}", cls), e.to_string())); }
                    else if *e != want_err { bad.push((format!("X/pegin/first-error/{}", cls), format!("library '{}' specification '{}'", e, want_err))); }
                }
            }
            if txin.pegin_data().is_some() != c["data"].as_bool().unwrap() { bad.push((format!("X/pegin/pegin_data/pegin={}/{}", is_pegin, cls), String::new())); }
            if txin.pegin_prevout().is_some() != is_pegin { bad.push(("X/pegin/pegin_prevout".into(), String::new())); }
            if let Some(p) = txin.pegin_prevout() { if p != btc_prev { bad.push(("X/pegin/pegin_prevout-value".into(), String::new())); } }
            bad
        });
        match res {
            Ok(bad) => for (k, d) in bad { out.viol(&k, case.clone(), d); },
            Err(p) => out.viol(&format!("X/pegin/panic/{}", last_panic_loc()), case, p),
        }
    }
}
