//! TxOut::is_null_data / is_pegout / pegout_data / is_fee against Pegout.tla (extras).
use crate::pools;
use crate::util::*;
use elements::confidential::{Asset, Nonce, Value as CValue};
use elements::{Script, TxOut};
use serde_json::{json, Value};

fn push_prefix(n: usize) -> Vec<u8> {
    if n == 0 { vec![0x00] } else if n < 76 { vec![n as u8] } else if n < 256 { vec![0x4c, n as u8] } else { vec![0x4d, (n % 256) as u8, (n / 256) as u8] }
}

pub fn replay(args: &[String], out: &mut Out) {
    let cases = read_ndjson(&arg(args, "--cases").expect("--cases"));
    let seed = arg_u64(args, "--seed", 1);
    for (ci, c) in cases.iter().enumerate() {
        out.count("distinct_cases");
        out.count("evaluations");
        if ci % 2500 == 17 { out.sample(c.clone()); }
        let mut r = rng(seed, 0x9e60_0000 + ci as u64);
        let mut bytes: Vec<u8> = match c["head"].as_str().unwrap() { "return" => vec![0x6a], "other" => vec![0x76], _ => vec![] };
        let mut datas: Vec<Vec<u8>> = vec![];
        for it in c["items"].as_array().unwrap() {
            match it[0].as_str().unwrap() {
                "push" => { let n = it[1].as_u64().unwrap() as usize; let d = pools::rbytes(&mut r, n); bytes.extend(push_prefix(n)); bytes.extend(&d); datas.push(d); }
                "num" => { bytes.push([0x4f, 0x51, 0x52, 0x60][ci % 4]); datas.push(vec![]); }
                "reserved" => { bytes.push(0x50); datas.push(vec![]); }
                "op" => { bytes.push([0x61, 0x76, 0xac, 0xff][ci % 4]); datas.push(vec![]); }
                "trunc" => { bytes.extend([0x20, 1, 2, 3]); datas.push(vec![]); }
                x => panic!("item {}", x),
            }
        }
        let value = match c["value"].as_str().unwrap() { "explicit" => CValue::Explicit(1 + ci as u64), "conf" => pools::conf_value(&mut r), _ => CValue::Null };
        let asset_id = pools::asset_id(&mut r);
        let o = TxOut { asset: Asset::Explicit(asset_id), value, nonce: Nonce::Null, script_pubkey: Script::from(bytes.clone()), witness: Default::default() };
        let cls = format!("{}/{}items/{}", c["head"].as_str().unwrap(), datas.len(), c["value"].as_str().unwrap());
        let case = json!({"case": c, "script": hex(&bytes)});
        let res = guard(|| (o.is_null_data(), o.is_pegout(), o.is_fee(), o.pegout_data().map(|d| (d.value, d.asset, d.genesis_hash, d.script_pubkey.to_bytes(), d.extra_data.iter().map(|x| x.to_vec()).collect::<Vec<_>>()))));
        match res {
            Err(p) => out.viol(&format!("X/pegout/panic/{}", last_panic_loc()), case, p),
            Ok((nd, po, fee, data)) => {
                if nd != c["nulldata"].as_bool().unwrap() { out.viol(&format!("X/pegout/is_null_data/{}", cls), case.clone(), format!("library {} specification {}", nd, c["nulldata"])); }
                if po != c["pegout"].as_bool().unwrap() { out.viol(&format!("X/pegout/is_pegout/{}", cls), case.clone(), format!("library {} specification {}", po, c["pegout"])); }
                if fee != c["fee"].as_bool().unwrap() { out.viol(&format!("X/pegout/is_fee/{}", cls), case.clone(), format!("library {}", fee)); }
                if po != data.is_some() { out.viol("X/pegout/is_pegout-vs-pegout_data", case.clone(), String::new()); }
                if let (Some((v, a, g, spk, extra)), true) = (data, c["pegout"].as_bool().unwrap()) {
                    use elements::bitcoin::hashes::Hash as _;
                    let want_extra: Vec<Vec<u8>> = c["extra"].as_array().unwrap().iter().map(|k| datas[k.as_u64().unwrap() as usize - 1].clone()).collect();
                    if Some(v) != o.value.explicit() || a != o.asset || g.to_byte_array().to_vec() != datas[0] || spk != datas[1] || extra != want_extra {
                        out.viol(&format!("X/pegout/pegout_data-fields/{}", cls), case.clone(), "value / asset / genesis hash / destination script / extra data differ from the script's pushes".into());
                    }
                }
            }
        }
    }
}
