//! Valid cryptographic objects for concretisation: generators, commitments, keys, tweaks.
use crate::util::Rng;
use elements::confidential::{Asset, AssetBlindingFactor, Nonce, Value, ValueBlindingFactor};
use elements::secp256k1_zkp::{self as zkp, Generator, PedersenCommitment, PublicKey, SecretKey, Tag, Tweak};
use elements::AssetId;
use rand::RngCore;

pub fn secp() -> &'static zkp::Secp256k1<zkp::All> {
    zkp::global::SECP256K1
}

pub fn bytes32(r: &mut Rng) -> [u8; 32] {
    let mut b = [0u8; 32];
    r.fill_bytes(&mut b);
    b
}

pub fn rbytes(r: &mut Rng, n: usize) -> Vec<u8> {
    let mut v = vec![0u8; n];
    r.fill_bytes(&mut v);
    v
}

pub fn tweak(r: &mut Rng) -> Tweak {
    loop {
        if let Ok(t) = Tweak::from_slice(&bytes32(r)) {
            if t != zkp::ZERO_TWEAK {
                return t;
            }
        }
    }
}

pub fn secret_key(r: &mut Rng) -> SecretKey {
    loop {
        if let Ok(k) = SecretKey::from_slice(&bytes32(r)) {
            return k;
        }
    }
}

pub fn pubkey(r: &mut Rng) -> PublicKey {
    PublicKey::from_secret_key(secp(), &secret_key(r))
}

pub fn asset_id(r: &mut Rng) -> AssetId {
    AssetId::from_byte_array(bytes32(r))
}

pub fn generator(r: &mut Rng) -> Generator {
    Generator::new_blinded(secp(), Tag::from(bytes32(r)), tweak(r))
}

pub fn commitment(r: &mut Rng) -> PedersenCommitment {
    let g = generator(r);
    PedersenCommitment::new(secp(), r.next_u64() >> 12, tweak(r), g)
}

pub fn conf_value(r: &mut Rng) -> Value {
    Value::Confidential(commitment(r))
}
pub fn conf_asset(r: &mut Rng) -> Asset {
    Asset::Confidential(generator(r))
}
pub fn conf_nonce(r: &mut Rng) -> Nonce {
    Nonce::Confidential(pubkey(r))
}
pub fn abf(r: &mut Rng) -> AssetBlindingFactor {
    AssetBlindingFactor::from_slice(tweak(r).as_ref()).unwrap()
}
pub fn vbf(r: &mut Rng) -> ValueBlindingFactor {
    ValueBlindingFactor::from_slice(tweak(r).as_ref()).unwrap()
}

use elements::secp256k1_zkp::{RangeProof, SurjectionProof};

/// A real range proof over a fresh commitment (exp 0, 52 bits as the library uses).
pub fn rangeproof(r: &mut Rng) -> RangeProof {
    let g = generator(r);
    let v = 1 + (r.next_u64() >> 30);
    let bf = tweak(r);
    let c = PedersenCommitment::new(secp(), v, bf, g);
    RangeProof::new(secp(), 1, c, v, bf, &[1, 2, 3], &[], secret_key(r), 0, 52, g).expect("rangeproof")
}

/// A small (exact-value style) range proof.
pub fn rangeproof_small(r: &mut Rng) -> RangeProof {
    let g = generator(r);
    let v = 1 + (r.next_u64() >> 30);
    let bf = tweak(r);
    let c = PedersenCommitment::new(secp(), v, bf, g);
    RangeProof::new(secp(), v, c, v, bf, &[], &[], secret_key(r), -1, 0, g).expect("rangeproof")
}

pub fn surjectionproof(r: &mut Rng, n_inputs: usize) -> SurjectionProof {
    let tags: Vec<Tag> = (0..n_inputs).map(|_| Tag::from(bytes32(r))).collect();
    let bfs: Vec<Tweak> = (0..n_inputs).map(|_| tweak(r)).collect();
    let dom: Vec<(Generator, Tag, Tweak)> = (0..n_inputs).map(|i| (Generator::new_blinded(secp(), tags[i], bfs[i]), tags[i], bfs[i])).collect();
    let k = (r.next_u32() as usize) % n_inputs;
    let t = tweak(r);
    SurjectionProof::new(secp(), r, tags[k], t, &dom).expect("surjection proof")
}
