//! Valid cryptographic objects for concretisation: generators, commitments, keys, tweaks.
use crate::util::Rng;
use elements::confidential::{Asset, AssetBlindingFactor, Nonce, Value, ValueBlindingFactor};
use elements::secp256k1_zkp::{self as zkp, Generator, PedersenCommitment, PublicKey, SecretKey, Tag, Tweak};
use elements::AssetId;
use rand::RngCore;

pub fn secp() -> &'static zkp::Secp256k1<zkp::All> {
    zkp::global::SECP256K1
}

pub fn bytes32(r: &mut Rng) -> [u8; 32] {
    let mut b = [0u8; 32];
    r.fill_bytes(&mut b);
    b
}

pub fn rbytes(r: &mut Rng, n: usize) -> Vec<u8> {
    let mut v = vec![0u8; n];
    r.fill_bytes(&mut v);
    v
}

pub fn tweak(r: &mut Rng) -> Tweak {
    loop {
        if let Ok(t) = Tweak::from_slice(&bytes32(r)) {
            if t != zkp::ZERO_TWEAK {
                return t;
            }
        }
    }
}

pub fn secret_key(r: &mut Rng) -> SecretKey {
    loop {
        if let Ok(k) = SecretKey::from_slice(&bytes32(r)) {
            return k;
        }
    }
}

pub fn pubkey(r: &mut Rng) -> PublicKey {
    PublicKey::from_secret_key(secp(), &secret_key(r))
}

pub fn asset_id(r: &mut Rng) -> AssetId {
    AssetId::from_byte_array(bytes32(r))
}

pub fn generator(r: &mut Rng) -> Generator {
    Generator::new_blinded(secp(), Tag::from(bytes32(r)), tweak(r))
}

pub fn commitment(r: &mut Rng) -> PedersenCommitment {
    let g = generator(r);
    PedersenCommitment::new(secp(), r.next_u64() >> 12, tweak(r), g)
}

pub fn conf_value(r: &mut Rng) -> Value {
    Value::Confidential(commitment(r))
}
pub fn conf_asset(r: &mut Rng) -> Asset {
    Asset::Confidential(generator(r))
}
pub fn conf_nonce(r: &mut Rng) -> Nonce {
    Nonce::Confidential(pubkey(r))
}
pub fn abf(r: &mut Rng) -> AssetBlindingFactor {
    AssetBlindingFactor::from_slice(tweak(r).as_ref()).unwrap()
}
pub fn vbf(r: &mut Rng) -> ValueBlindingFactor {
    ValueBlindingFactor::from_slice(tweak(r).as_ref()).unwrap()
}
