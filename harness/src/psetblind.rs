//! C09: multi-party PSET blinding schedules emitted by Gen_PsetBlind, replayed with real keys and proofs.
use crate::pools;
use crate::scalar::Sc;
use crate::util::*;
use elements::confidential::{Asset, AssetBlindingFactor, Value as CValue, ValueBlindingFactor};
use elements::encode::{deserialize, serialize};
use elements::pset::{Input, Output, PartiallySignedTransaction as Pset};
use elements::secp256k1_zkp::SecretKey;
use elements::{AssetId, BlindAssetProofs, BlindValueProofs, OutPoint, Script, TxOut, TxOutSecrets, Txid};
use rand::RngCore;
use serde_json::{json, Value};
use std::collections::HashMap;

pub struct Built {
    pub pset: Pset,
    pub utxos: Vec<TxOut>,
    pub in_secrets: Vec<TxOutSecrets>,
    pub in_owner: Vec<usize>,            // party (1-based) owning each input
    pub out_index: HashMap<(usize, usize), usize>, // (party, k) -> output index in the PSET
    pub receivers: HashMap<usize, SecretKey>,      // output index -> receiver blinding secret key
    pub orig: HashMap<usize, (AssetId, u64)>,      // output index -> original asset / value
}

/// a standard output script: p2wpkh, p2wsh, p2tr, p2sh or p2pkh (blinding goes through the address of the script)
fn p2wpkh(r: &mut Rng) -> Script {
    let v = match r.next_u32() % 7 {
        // future witness versions: v16 with the shortest and the longest program, v2
        5 => { let n = if r.next_u32() % 2 == 0 { 2 } else { 40 }; let mut v = vec![0x60, n as u8]; v.extend(pools::rbytes(r, n)); v }
        6 => { let mut v = vec![0x52, 0x20]; v.extend(pools::rbytes(r, 32)); v }
        0 => { let mut v = vec![0x00, 0x14]; v.extend(pools::rbytes(r, 20)); v }
        1 => { let mut v = vec![0x00, 0x20]; v.extend(pools::rbytes(r, 32)); v }
        2 => { let mut v = vec![0x51, 0x20]; v.extend(pools::rbytes(r, 32)); v }
        3 => { let mut v = vec![0xa9, 0x14]; v.extend(pools::rbytes(r, 20)); v.push(0x87); v }
        _ => { let mut v = vec![0x76, 0xa9, 0x14]; v.extend(pools::rbytes(r, 20)); v.extend([0x88, 0xac]); v }
    };
    Script::from(v)
}

/// Build a real PSET for a structural scenario; values are chosen so that every asset balances.
pub fn build(c: &Value, r: &mut Rng) -> Built {
    let secp = pools::secp();
    let mut assets: HashMap<String, AssetId> = [("A".to_string(), pools::asset_id(r)), ("B".to_string(), pools::asset_id(r))].into_iter().collect();
    let mut pset = Pset::new_v2();
    let (mut utxos, mut in_secrets, mut in_owner) = (vec![], vec![], vec![]);
    let mut pot: HashMap<String, u64> = HashMap::new();
    let mut planned: Vec<(usize, usize, String, u64, usize)> = vec![]; // (party, k, asset, value, blinder input index)
    let parties = c["parties"].as_array().unwrap();
    for (pi, p) in parties.iter().enumerate() {
        let party = pi + 1;
        let mut totals: HashMap<String, u64> = HashMap::new();
        let mut first_input_of: HashMap<String, usize> = HashMap::new();
        for i in p["ins"].as_array().unwrap() {
            let a = i["asset"].as_str().unwrap().to_string();
            let a = a.as_str();
            let v = 100_000 + (r.next_u64() % 900_000);
            let (abf, vbf) = if i["conf"].as_bool().unwrap() { (pools::abf(r), pools::vbf(r)) } else { (AssetBlindingFactor::zero(), ValueBlindingFactor::zero()) };
            let sec = TxOutSecrets::new(assets[a], abf, v, vbf);
            let utxo = TxOut {
                asset: if i["conf"].as_bool().unwrap() { Asset::new_confidential(secp, assets[a], abf) } else { Asset::Explicit(assets[a]) },
                value: if i["conf"].as_bool().unwrap() { CValue::new_confidential_from_assetid(secp, v, assets[a], vbf, abf) } else { CValue::Explicit(v) },
                nonce: elements::confidential::Nonce::Null,
                script_pubkey: p2wpkh(r),
                witness: Default::default(),
            };
            let prevout = OutPoint::new(Txid::from_byte_array(pools::bytes32(r)), utxos.len() as u32);
            let mut inp = Input::from_prevout(prevout);
            inp.witness_utxo = Some(utxo.clone());
            // an explicit (unblinded) issuance on this input: issued asset "N" and / or reissuance tokens "T", owned by this party
            let iss = i["iss"].as_str().unwrap_or("none");
            if iss != "none" {
                let contract = pools::bytes32(r);
                inp.issuance_asset_entropy = Some(contract);
                inp.blinded_issuance = Some(0);
                // a new issuance has a zero blinding nonce: absent (built field by field) or present and zero (as from_tx stores it)
                if r.next_u32() % 2 == 0 { inp.issuance_blinding_nonce = Some(elements::secp256k1_zkp::ZERO_TWEAK); }
                let entropy = AssetId::generate_asset_entropy(prevout, elements::ContractHash::from_byte_array(contract));
                if iss.contains("amt") {
                    let v = 1_000 + r.next_u64() % 1_000_000;
                    inp.issuance_value_amount = Some(v);
                    let name = format!("N{}", party);
                    assets.insert(name.clone(), AssetId::from_entropy(entropy));
                    first_input_of.entry(name.clone()).or_insert(utxos.len());
                    *totals.entry(name).or_insert(0) += v;
                }
                if iss.contains("tok") {
                    let v = 1 + r.next_u64() % 1_000;
                    inp.issuance_inflation_keys = Some(v);
                    let name = format!("T{}", party);
                    assets.insert(name.clone(), AssetId::reissuance_token_from_entropy(entropy, false));
                    first_input_of.entry(name.clone()).or_insert(utxos.len());
                    *totals.entry(name).or_insert(0) += v;
                }
            }
            pset.add_input(inp);
            first_input_of.entry(a.to_string()).or_insert(utxos.len());
            utxos.push(utxo);
            in_secrets.push(sec);
            in_owner.push(party);
            *totals.entry(a.to_string()).or_insert(0) += v;
        }
        // split each asset's total among the party's outputs of that asset; what is not assigned goes to the pot
        // the issued asset / token of this party are called "N" / "T" in the scenario
        let outs: Vec<String> = p["outs"].as_array().unwrap().iter().map(|x| { let n = x.as_str().unwrap(); if n == "N" || n == "T" { format!("{}{}", n, party) } else { n.to_string() } }).collect();
        let mut names: Vec<&String> = totals.keys().collect();
        names.sort();
        for a in names {
            let total = totals[a];
            let ks: Vec<usize> = outs.iter().enumerate().filter(|(_, x)| *x == a).map(|(k, _)| k + 1).collect();
            if ks.is_empty() {
                *pot.entry(a.clone()).or_insert(0) += total;
                continue;
            }
            let mut rest = total;
            if a == "A" && party == 1 {
                rest -= 5_000;
                *pot.entry("A".to_string()).or_insert(0) += 5_000;
            }
            for (n, k) in ks.iter().enumerate() {
                let v = if n + 1 == ks.len() { rest } else { 1 + r.next_u64() % (rest / 2).max(1) };
                rest -= v;
                planned.push((party, *k, a.clone(), v, first_input_of[a]));
            }
        }
    }
    let mut out_index = HashMap::new();
    let mut receivers = HashMap::new();
    let mut orig = HashMap::new();
    // explicit outputs first or last depending on the seed, fee in between: positions vary
    let nexpl = c["nexpl"].as_u64().unwrap();
    let pot_a = pot.get("A").copied().unwrap_or(0);
    let fee = if nexpl == 0 { pot_a } else { 1 + pot_a / 3 };
    let mut explicit: Vec<Output> = vec![Output::new_explicit(Script::new(), fee, assets["A"], None)];
    if nexpl > 0 {
        explicit.push(Output::new_explicit(p2wpkh(r), pot_a - fee, assets["A"], None));
    }
    let mut pot_names: Vec<&String> = pot.keys().filter(|k| *k != "A").collect();
    pot_names.sort();
    for name in pot_names {
        explicit.push(Output::new_explicit(p2wpkh(r), pot[name], assets[name], None));
    }
    let explicit_first = r.next_u32() % 2 == 0;
    if explicit_first {
        for o in explicit.drain(..) { pset.add_output(o); }
    }
    for (party, k, a, v, blinder) in planned {
        let sk = pools::secret_key(r);
        let pk = elements::bitcoin::PublicKey::new(elements::secp256k1_zkp::PublicKey::from_secret_key(secp, &sk));
        let mut o = Output::new_explicit(p2wpkh(r), v, assets[&a], Some(pk));
        o.blinder_index = Some(blinder as u32);
        let idx = pset.outputs().len();
        pset.add_output(o);
        out_index.insert((party, k), idx);
        receivers.insert(idx, sk);
        orig.insert(idx, (assets[&a], v));
    }
    for o in explicit.drain(..) { pset.add_output(o); }
    Built { pset, utxos, in_secrets, in_owner, out_index, receivers, orig }
}

fn run_case(c: &Value, seed: u64, ci: usize) -> (Vec<(String, Value, String)>, u64) {
    let mut bad: Vec<(String, Value, String)> = vec![];
    let mut steps_done = 0u64;
    let secp = pools::secp();
    let mut r = rng(seed, 0x0900_0000 + ci as u64);
    let np = c["parties"].as_array().unwrap().len();
    let hop = c["hop"].as_bool().unwrap();
    let has_iss = c["parties"].as_array().unwrap().iter().any(|p| p["ins"].as_array().unwrap().iter().any(|i| i["iss"].as_str().unwrap_or("none") != "none"));
    let cls = format!("np={}/hop={}{}", np, hop, if has_iss { "/issuance" } else { "" });
    let case = json!({"case_index": ci, "seed": seed, "parties": c["parties"], "order": c["order"], "hop": hop, "nexpl": c["nexpl"]});
    let res = guard(|| {
        let mut bad: Vec<(String, String)> = vec![];
        let b = build(c, &mut r);
        let mut pset = b.pset.clone();
        let mut factors: HashMap<usize, (AssetBlindingFactor, ValueBlindingFactor)> = HashMap::new();
        let mut n = 0u64;
        for st in c["steps"].as_array().unwrap() {
            n += 1;
            let party = st["party"].as_u64().unwrap() as usize;
            let secrets: HashMap<usize, TxOutSecrets> = b.in_owner.iter().enumerate().filter(|(_, o)| **o == party).map(|(i, _)| (i, b.in_secrets[i])).collect();
            let before = pset.global.scalars.len();
            let role = st["role"].as_str().unwrap();
            let ret = if role == "last" { pset.blind_last(&mut r, secp, &secrets) } else { pset.blind_non_last(&mut r, secp, &secrets) };
            let ret = match ret {
                Ok(m) => m,
                Err(e) => { bad.push((format!("C09/{}/error/{}", role, cls), e.to_string())); return (bad, n); }
            };
            for (loc, (abf, vbf, _)) in ret.iter() { factors.insert(loc.input_index, (*abf, *vbf)); }
            // the published scalar = (own inputs) - (own outputs blinded in this step), over the real field
            if role == "nonlast" {
                if pset.global.scalars.len() != before + 1 {
                    bad.push((format!("C09/nonlast/scalar-not-pushed/{}", cls), format!("{} -> {}", before, pset.global.scalars.len())));
                } else {
                    let mut want = crate::scalar::ZERO;
                    for (i, s) in secrets.iter() { let _ = i; want = want.add(&Sc::r(s.value, s.asset_bf.into_inner().as_ref(), s.value_bf.into_inner().as_ref())); }
                    for (loc, (abf, vbf, _)) in ret.iter() {
                        let v = b.orig[&loc.input_index].1;
                        want = want.sub(&Sc::r(v, abf.into_inner().as_ref(), vbf.into_inner().as_ref()));
                    }
                    let got = Sc::from_be(pset.global.scalars.last().unwrap().as_ref());
                    if got != want {
                        bad.push((format!("C09/nonlast/scalar-value/{}", cls), "published scalar is not (own inputs) - (own outputs) over the group order".into()));
                    }
                }
            }
            if hop {
                let bytes = serialize(&pset);
                match deserialize::<Pset>(&bytes) {
                    Ok(p2) => pset = p2,
                    Err(e) => { bad.push((format!("C09/hop/deserialize/{}", cls), e.to_string())); return (bad, n); }
                }
            }
            // projected state vs specification
            if pset.global.scalars.len() as u64 != st["nscalars"].as_u64().unwrap() {
                bad.push((format!("C09/{}/scalar-count/{}", role, cls), format!("impl {} spec {}", pset.global.scalars.len(), st["nscalars"])));
            }
            let want_blinded: std::collections::BTreeSet<usize> = st["blinded"].as_array().unwrap().iter().map(|x| b.out_index[&(x[0].as_u64().unwrap() as usize, x[1].as_u64().unwrap() as usize)]).collect();
            for (oi, o) in pset.outputs().iter().enumerate() {
                let full = o.is_fully_blinded();
                if full != want_blinded.contains(&oi) || (!full && o.is_partially_blinded()) {
                    bad.push((format!("C09/{}/blinded-set/{}", role, cls), format!("output {} fully={} partially={}", oi, full, o.is_partially_blinded())));
                }
            }
        }
        // final claims
        match pset.extract_tx() {
            Err(e) => bad.push((format!("C09/final/extract/{}", cls), e.to_string())),
            Ok(tx) => {
                if let Err(e) = tx.verify_tx_amt_proofs(secp, &b.utxos) {
                    bad.push((format!("C09/final/verify/{}", cls), e.to_string()));
                }
                for (oi, sk) in b.receivers.iter() {
                    let (asset, value) = b.orig[oi];
                    match tx.output[*oi].unblind(secp, *sk) {
                        Ok(s) => {
                            if s.asset != asset || s.value != value { bad.push((format!("C09/final/unblind-value/{}", cls), String::new())); }
                            if let Some((abf, vbf)) = factors.get(oi) {
                                if s.asset_bf != *abf || s.value_bf != *vbf { bad.push((format!("C09/final/unblind-factors/{}", cls), String::new())); }
                                if Asset::new_confidential(secp, asset, *abf) != tx.output[*oi].asset || CValue::new_confidential_from_assetid(secp, value, asset, *vbf, *abf) != tx.output[*oi].value {
                                    bad.push((format!("C09/final/factors-do-not-reproduce-commitments/{}", cls), String::new()));
                                }
                            } else { bad.push((format!("C09/final/no-factors-reported/{}", cls), String::new())); }
                        }
                        Err(e) => bad.push((format!("C09/final/unblind/{}", cls), e.to_string())),
                    }
                    let o = &pset.outputs()[*oi];
                    match (&o.blind_value_proof, &o.blind_asset_proof, o.amount_comm, o.asset_comm) {
                        (Some(vp), Some(ap), Some(vc), Some(ac)) => {
                            if !vp.blind_value_proof_verify(secp, value, ac, vc) { bad.push((format!("C09/final/blind_value_proof/{}", cls), String::new())); }
                            if !ap.blind_asset_proof_verify(secp, asset, ac) { bad.push((format!("C09/final/blind_asset_proof/{}", cls), String::new())); }
                            // C05: the exact-value / exact-asset proofs reject any other value, asset or commitment
                            if vp.blind_value_proof_verify(secp, value + 1, ac, vc) { bad.push(("C05/explicit-proofs/value-proof-accepts-other-value".into(), String::new())); }
                            if let Some(other) = pools::conf_value(&mut r).commitment() {
                                if vp.blind_value_proof_verify(secp, value, ac, other) { bad.push(("C05/explicit-proofs/value-proof-accepts-other-commitment".into(), String::new())); }
                            }
                            // a range proof that is not an exact-value proof: the range merely starts at the claimed value (the commitment
                            // holds more), or starts below it: neither ties the commitment to the claimed value
                            {
                                use elements::secp256k1_zkp::{PedersenCommitment, RangeProof};
                                let vbf2 = pools::vbf(&mut r);
                                let real = value + 4_000;
                                let comm2 = PedersenCommitment::new(secp, real, vbf2.into_inner(), ac);
                                for (min, tag) in [(value, "range-starts-at-claimed-value"), (value.saturating_sub(1).max(1), "range-starts-below")] {
                                    if let Ok(p) = RangeProof::new(secp, min, comm2, real, vbf2.into_inner(), &[], &[], pools::secret_key(&mut r), 0, 16, ac) {
                                        if p.blind_value_proof_verify(secp, value, ac, comm2) { bad.push((format!("C05/explicit-proofs/non-exact-proof-accepted/{}", tag), String::new())); }
                                    }
                                }
                            }
                            if ap.blind_asset_proof_verify(secp, pools::asset_id(&mut r), ac) { bad.push(("C05/explicit-proofs/asset-proof-accepts-other-asset".into(), String::new())); }
                            if let Some(g) = pools::conf_asset(&mut r).commitment() {
                                if ap.blind_asset_proof_verify(secp, asset, g) { bad.push(("C05/explicit-proofs/asset-proof-accepts-other-commitment".into(), String::new())); }
                            }
                        }
                        _ => bad.push((format!("C09/final/explicit-proofs-missing/{}", cls), String::new())),
                    }
                }
            }
        }
        if !pset.global.scalars.is_empty() { bad.push((format!("C09/final/scalars-left/{}", cls), String::new())); }
        (bad, n)
    });
    match res {
        Ok((b, n)) => { steps_done = n; for (k, d) in b { bad.push((k, case.clone(), d)); } }
        Err(p) => bad.push((format!("C09/panic/{}", last_panic_loc()), case, p)),
    }
    (bad, steps_done)
}

pub fn replay(args: &[String], out: &mut Out) {
    let cases = read_ndjson(&arg(args, "--cases").expect("--cases"));
    let seed = arg_u64(args, "--seed", 1);
    let stride = arg_u64(args, "--stride3", 1) as usize; // sub-sample 3-party cases
    let threads = arg_u64(args, "--threads", 8) as usize;
    let selected: Vec<(usize, &Value)> = cases.iter().enumerate().filter(|(i, c)| c["parties"].as_array().unwrap().len() < 3 || i % stride == 0).collect();
    let chunks: Vec<Vec<(usize, &Value)>> = (0..threads).map(|t| selected.iter().filter(|(i, _)| i % threads == t).cloned().collect()).collect();
    let results: Vec<Vec<(Vec<(String, Value, String)>, u64)>> = std::thread::scope(|sc| {
        let hs: Vec<_> = chunks.iter().map(|ch| sc.spawn(move || { crate::util::quiet_panics(); ch.iter().map(|(i, c)| run_case(c, seed, *i)).collect::<Vec<_>>() })).collect();
        hs.into_iter().map(|h| h.join().unwrap()).collect()
    });
    for res in results {
        for (bad, n) in res {
            out.count("distinct_cases");
            out.add("evaluations", n);
            for (k, c, d) in bad { out.viol(&k, c, d); }
        }
    }
    if let Some((_, c)) = selected.iter().find(|(_, c)| c["parties"].as_array().unwrap().len() == 3 || selected.len() < 50) { out.sample((*c).clone()); }
}
