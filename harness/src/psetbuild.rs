//! Field-level construction of real PSETs: one setter per optional field of every map.
//! Used by C07 (codec), C14 (merge), C20 (serde) and C10 (totality).
use crate::pools;
use crate::util::Rng;
use elements::bitcoin::bip32::{DerivationPath, Fingerprint, Xpub};
use elements::hashes::{hash160, ripemd160, sha256, sha256d, Hash as _};
use elements::locktime::{Height, Time};
use elements::pset::raw::{Key, ProprietaryKey};
use elements::pset::{Input, Output, PartiallySignedTransaction as Pset};
use elements::taproot::{LeafVersion, TapLeafHash, TaprootBuilder};
use elements::{confidential, AssetId, LockTime, OutPoint, Script, Sequence, Transaction, TxIn, TxOut, Txid};
use rand::RngCore;
use std::str::FromStr;

pub const GLOBAL_FIELDS: &[&str] = &["fallback_locktime", "tx_modifiable", "xpub", "scalars", "elements_tx_modifiable_flag", "proprietary", "unknown"];
pub const INPUT_FIELDS: &[&str] = &[
    "non_witness_utxo", "witness_utxo", "partial_sigs", "sighash_type", "redeem_script", "witness_script", "bip32_derivation",
    "final_script_sig", "final_script_witness", "ripemd160_preimages", "sha256_preimages", "hash160_preimages", "hash256_preimages",
    "sequence", "required_time_locktime", "required_height_locktime", "tap_key_sig", "tap_script_sigs", "tap_scripts", "tap_key_origins",
    "tap_internal_key", "tap_merkle_root", "issuance_value_amount", "issuance_value_comm", "issuance_value_rangeproof",
    "issuance_keys_rangeproof", "pegin_tx", "pegin_txout_proof", "pegin_genesis_hash", "pegin_claim_script", "pegin_value", "pegin_witness",
    "issuance_inflation_keys", "issuance_inflation_keys_comm", "issuance_blinding_nonce", "issuance_asset_entropy", "in_utxo_rangeproof",
    "in_issuance_blind_value_proof", "in_issuance_blind_inflation_keys_proof", "amount", "blind_value_proof", "asset", "blind_asset_proof",
    "blinded_issuance", "proprietary", "unknown",
];
pub const OUTPUT_FIELDS: &[&str] = &[
    "redeem_script", "witness_script", "bip32_derivation", "tap_internal_key", "tap_tree", "tap_key_origins", "value_rangeproof",
    "asset_surjection_proof", "ecdh_pubkey", "blind_value_proof", "blind_asset_proof", "proprietary", "unknown",
];

pub fn script(r: &mut Rng, n: usize) -> Script {
    Script::from(pools::rbytes(r, n))
}
pub fn btc_pk(r: &mut Rng) -> elements::bitcoin::PublicKey {
    elements::bitcoin::PublicKey::new(pools::pubkey(r))
}
/// a key in the 65-byte uncompressed form (still allowed in partial signatures and BIP32 derivations)
pub fn btc_pk_uncompressed(r: &mut Rng) -> elements::bitcoin::PublicKey {
    elements::bitcoin::PublicKey::new_uncompressed(pools::pubkey(r))
}
pub fn xonly(r: &mut Rng) -> elements::secp256k1_zkp::XOnlyPublicKey {
    pools::pubkey(r).x_only_public_key().0
}
pub fn keysource(r: &mut Rng, depth: usize) -> (Fingerprint, DerivationPath) {
    let b = pools::bytes32(r);
    let path: Vec<String> = (0..depth).map(|i| format!("{}{}", b[4 + i] as u32 + i as u32 * 300, if b[20 + i] & 1 == 1 { "'" } else { "" })).collect();
    let p = if depth == 0 { "m".to_string() } else { format!("m/{}", path.join("/")) };
    (Fingerprint::from([b[0], b[1], b[2], b[3]]), DerivationPath::from_str(&p).unwrap())
}
pub fn schnorr_sig(r: &mut Rng) -> elements::SchnorrSig {
    let mut b = [0u8; 64];
    r.fill_bytes(&mut b);
    elements::SchnorrSig { sig: elements::secp256k1_zkp::schnorr::Signature::from_slice(&b).unwrap(), hash_ty: if b[0] & 1 == 0 { elements::SchnorrSighashType::Default } else { elements::SchnorrSighashType::SinglePlusAnyoneCanPay } }
}
pub fn small_tx(r: &mut Rng) -> Transaction {
    Transaction {
        version: 2,
        lock_time: LockTime::ZERO,
        input: vec![TxIn { previous_output: OutPoint::new(Txid::from_byte_array(pools::bytes32(r)), 1), ..Default::default() }],
        output: vec![TxOut::new_fee(1 + r.next_u64() % 1000, pools::asset_id(r))],
    }
}
pub fn explicit_txout(r: &mut Rng) -> TxOut {
    TxOut { asset: confidential::Asset::Explicit(pools::asset_id(r)), value: confidential::Value::Explicit(1 + r.next_u64() % 100000), nonce: confidential::Nonce::Null, script_pubkey: script(r, 22), witness: Default::default() }
}
pub fn xpub(r: &mut Rng) -> Xpub {
    let seed = pools::bytes32(r);
    let xprv = elements::bitcoin::bip32::Xpriv::new_master(elements::bitcoin::NetworkKind::Main, &seed).unwrap();
    Xpub::from_priv(&elements::bitcoin::secp256k1::Secp256k1::new(), &xprv)
}
/// a taproot builder with leaves at the given depths (DFS order), complete
pub fn tap_builder(r: &mut Rng, depths: &[usize]) -> TaprootBuilder {
    let mut b = TaprootBuilder::new();
    for d in depths {
        let n = 5 + (r.next_u32() % 30) as usize;
        b = b.add_leaf(*d, script(r, n)).expect("valid depth sequence");
    }
    b
}

pub fn set_global_field(p: &mut Pset, f: &str, r: &mut Rng) {
    match f {
        "fallback_locktime" => p.global.tx_data.fallback_locktime = Some(LockTime::from_consensus(r.next_u32())),
        "tx_modifiable" => p.global.tx_data.tx_modifiable = Some(r.next_u32() as u8 & 7),
        "xpub" => {
            let x = xpub(r);
            // a master key has depth 0: its key source must have an empty path
            p.global.xpub.insert(x, (x.fingerprint(), DerivationPath::from_str("m").unwrap()));
        }
        // three scalars, deliberately not in ascending order (their order is part of the value)
        "scalars" => { let mut v = vec![pools::tweak(r), pools::tweak(r), pools::tweak(r)]; v.sort_by(|a, b| b.as_ref().cmp(a.as_ref())); p.global.scalars.extend(v); }
        "elements_tx_modifiable_flag" => p.global.elements_tx_modifiable_flag = Some(r.next_u32() as u8 & 1),
        "proprietary" => {
            p.global.proprietary.insert(ProprietaryKey { prefix: b"foo".to_vec(), subtype: 5, key: pools::rbytes(r, 3) }, pools::rbytes(r, 7));
            p.global.proprietary.insert(ProprietaryKey { prefix: b"pset".to_vec(), subtype: 0x7e, key: pools::rbytes(r, 2) }, pools::rbytes(r, 4));
        }
        "unknown" => { p.global.unknown.insert(Key { type_value: 0x7f, key: pools::rbytes(r, 4) }, pools::rbytes(r, 9)); }
        x => panic!("global field {}", x),
    }
}

pub fn set_input_field(i: &mut Input, f: &str, r: &mut Rng) {
    match f {
        "non_witness_utxo" => i.non_witness_utxo = Some(small_tx(r)),
        "witness_utxo" => i.witness_utxo = Some(explicit_txout(r)),
        "partial_sigs" => { i.partial_sigs.insert(btc_pk(r), pools::rbytes(r, 71)); i.partial_sigs.insert(btc_pk_uncompressed(r), pools::rbytes(r, 72)); }
        // raw values: taproot default (0), the standard flags, and values no enum names (the field is a plain u32 on the wire)
        "sighash_type" => i.sighash_type = Some(elements::pset::PsbtSighashType::from_u32([0x00u32, 0x01, 0x02, 0x83, 0x04, 0x41, 0xff, 0x100, 0x8000_0001][(r.next_u32() % 9) as usize])),
        "redeem_script" => i.redeem_script = Some(script(r, 23)),
        "witness_script" => i.witness_script = Some(script(r, 40)),
        "bip32_derivation" => { i.bip32_derivation.insert(btc_pk(r), keysource(r, 3)); i.bip32_derivation.insert(btc_pk_uncompressed(r), keysource(r, 1)); }
        "final_script_sig" => i.final_script_sig = Some(script(r, 30)),
        "final_script_witness" => i.final_script_witness = Some(vec![pools::rbytes(r, 72), vec![], pools::rbytes(r, 33)]),
        "ripemd160_preimages" => { let pre = pools::rbytes(r, 32); i.ripemd160_preimages.insert(ripemd160::Hash::hash(&pre), pre); }
        "sha256_preimages" => { let pre = pools::rbytes(r, 32); i.sha256_preimages.insert(sha256::Hash::hash(&pre), pre); }
        "hash160_preimages" => { let pre = pools::rbytes(r, 20); i.hash160_preimages.insert(hash160::Hash::hash(&pre), pre); }
        "hash256_preimages" => { let pre = pools::rbytes(r, 5); i.hash256_preimages.insert(sha256d::Hash::hash(&pre), pre); }
        "sequence" => i.sequence = Some(Sequence(r.next_u32())),
        "required_time_locktime" => i.required_time_locktime = Some(Time::from_consensus(500_000_000 + r.next_u32() % 1_000_000_000).unwrap()),
        "required_height_locktime" => i.required_height_locktime = Some(Height::from_consensus(1 + r.next_u32() % 400_000_000).unwrap()),
        "tap_key_sig" => i.tap_key_sig = Some(schnorr_sig(r)),
        "tap_script_sigs" => { i.tap_script_sigs.insert((xonly(r), TapLeafHash::from_byte_array(pools::bytes32(r))), schnorr_sig(r)); }
        "tap_scripts" => {
            let b = tap_builder(r, &[1, 2, 2]);
            let info = b.finalize(pools::secp(), xonly(r)).expect("finalize");
            let (sv, _) = info.as_script_map().iter().next().map(|(k, v)| (k.clone(), v.clone())).unwrap();
            let cb = info.control_block(&sv).unwrap();
            i.tap_scripts.insert(cb, sv);
        }
        "tap_key_origins" => { i.tap_key_origins.insert(xonly(r), (vec![TapLeafHash::from_byte_array(pools::bytes32(r)), TapLeafHash::from_byte_array(pools::bytes32(r))], keysource(r, 2))); }
        "tap_internal_key" => i.tap_internal_key = Some(xonly(r)),
        "tap_merkle_root" => i.tap_merkle_root = Some(elements::taproot::TapNodeHash::from_byte_array(pools::bytes32(r))),
        "issuance_value_amount" => i.issuance_value_amount = Some(1 + r.next_u64() % 1_000_000),
        "issuance_value_comm" => i.issuance_value_comm = Some(pools::commitment(r)),
        "issuance_value_rangeproof" => i.issuance_value_rangeproof = Some(Box::new(pools::rangeproof_small(r))),
        "issuance_keys_rangeproof" => i.issuance_keys_rangeproof = Some(Box::new(pools::rangeproof_small(r))),
        "pegin_tx" => i.pegin_tx = Some(elements::bitcoin::Transaction { version: elements::bitcoin::transaction::Version::TWO, lock_time: elements::bitcoin::absolute::LockTime::ZERO, input: vec![elements::bitcoin::TxIn::default()], output: vec![elements::bitcoin::TxOut { value: elements::bitcoin::Amount::from_sat(5000), script_pubkey: elements::bitcoin::ScriptBuf::from(pools::rbytes(r, 22)) }] }),
        "pegin_txout_proof" => i.pegin_txout_proof = Some(pools::rbytes(r, 80)),
        "pegin_genesis_hash" => i.pegin_genesis_hash = Some(elements::BlockHash::from_byte_array(pools::bytes32(r))),
        "pegin_claim_script" => i.pegin_claim_script = Some(script(r, 22)),
        "pegin_value" => i.pegin_value = Some(1 + r.next_u64() % 1_000_000),
        "pegin_witness" => i.pegin_witness = Some(vec![pools::rbytes(r, 8), pools::rbytes(r, 32)]),
        "issuance_inflation_keys" => i.issuance_inflation_keys = Some(1 + r.next_u64() % 10),
        "issuance_inflation_keys_comm" => i.issuance_inflation_keys_comm = Some(pools::commitment(r)),
        "issuance_blinding_nonce" => i.issuance_blinding_nonce = Some(pools::tweak(r)),
        "issuance_asset_entropy" => i.issuance_asset_entropy = Some(pools::bytes32(r)),
        "in_utxo_rangeproof" => i.in_utxo_rangeproof = Some(Box::new(pools::rangeproof_small(r))),
        "in_issuance_blind_value_proof" => i.in_issuance_blind_value_proof = Some(Box::new(pools::rangeproof_small(r))),
        "in_issuance_blind_inflation_keys_proof" => i.in_issuance_blind_inflation_keys_proof = Some(Box::new(pools::rangeproof_small(r))),
        "amount" => i.amount = Some(1 + r.next_u64() % 1_000_000),
        "blind_value_proof" => i.blind_value_proof = Some(Box::new(pools::rangeproof_small(r))),
        "asset" => i.asset = Some(pools::asset_id(r)),
        "blind_asset_proof" => i.blind_asset_proof = Some(Box::new(pools::surjectionproof(r, 1))),
        "blinded_issuance" => i.blinded_issuance = Some(r.next_u32() as u8 & 1),
        "proprietary" => {
            i.proprietary.insert(ProprietaryKey { prefix: b"bar".to_vec(), subtype: 9, key: pools::rbytes(r, 5) }, pools::rbytes(r, 11));
            i.proprietary.insert(ProprietaryKey { prefix: b"pset".to_vec(), subtype: 0x7d, key: vec![] }, pools::rbytes(r, 3));
        }
        "unknown" => { i.unknown.insert(Key { type_value: 0x6e, key: pools::rbytes(r, 2) }, pools::rbytes(r, 6)); }
        x => panic!("input field {}", x),
    }
}

pub fn set_output_field(o: &mut Output, f: &str, r: &mut Rng) {
    match f {
        "redeem_script" => o.redeem_script = Some(script(r, 23)),
        "witness_script" => o.witness_script = Some(script(r, 35)),
        "bip32_derivation" => { o.bip32_derivation.insert(btc_pk(r), keysource(r, 4)); }
        "tap_internal_key" => o.tap_internal_key = Some(xonly(r)),
        "tap_tree" => o.tap_tree = Some(elements::pset::TapTree::from_inner(tap_builder(r, &[0])).expect("complete tree")),
        "tap_key_origins" => { o.tap_key_origins.insert(xonly(r), (vec![TapLeafHash::from_byte_array(pools::bytes32(r))], keysource(r, 1))); }
        "value_rangeproof" => o.value_rangeproof = Some(Box::new(pools::rangeproof_small(r))),
        "asset_surjection_proof" => o.asset_surjection_proof = Some(Box::new(pools::surjectionproof(r, 2))),
        "ecdh_pubkey" => o.ecdh_pubkey = Some(btc_pk(r)),
        "blind_value_proof" => o.blind_value_proof = Some(Box::new(pools::rangeproof_small(r))),
        "blind_asset_proof" => o.blind_asset_proof = Some(Box::new(pools::surjectionproof(r, 1))),
        "proprietary" => { o.proprietary.insert(ProprietaryKey { prefix: b"baz".to_vec(), subtype: 1, key: pools::rbytes(r, 1) }, pools::rbytes(r, 2)); }
        "unknown" => { o.unknown.insert(Key { type_value: 0x55, key: vec![] }, pools::rbytes(r, 6)); }
        x => panic!("output field {}", x),
    }
}

/// kind: "explicit" | "commit" (amount and asset commitments, no blinding key) | "blinded" (complete blinding data)
pub fn base_output(r: &mut Rng, kind: &str) -> Output {
    let mut o = Output::new_explicit(script(r, 22), 1 + r.next_u64() % 1_000_000, pools::asset_id(r), None);
    match kind {
        "explicit" => {}
        "commit" => { o.amount = None; o.asset = None; o.amount_comm = Some(pools::commitment(r)); o.asset_comm = Some(pools::generator(r)); }
        "mixed-a" => { o.asset = None; o.asset_comm = Some(pools::generator(r)); }
        "mixed-v" => { o.amount = None; o.amount_comm = Some(pools::commitment(r)); }
        "marked" => { o.blinding_key = Some(btc_pk(r)); o.blinder_index = Some(0); }
        "blinded" => {
            o.blinding_key = Some(btc_pk(r));
            o.blinder_index = Some(r.next_u32() % 3);
            o.amount_comm = Some(pools::commitment(r));
            o.asset_comm = Some(pools::generator(r));
            o.value_rangeproof = Some(Box::new(pools::rangeproof_small(r)));
            o.asset_surjection_proof = Some(Box::new(pools::surjectionproof(r, 2)));
            o.ecdh_pubkey = Some(btc_pk(r));
        }
        x => panic!("output kind {}", x),
    }
    o
}

pub fn base_input(r: &mut Rng, n: u32) -> Input {
    Input::from_prevout(OutPoint::new(Txid::from_byte_array(pools::bytes32(r)), n))
}

pub fn asset(r: &mut Rng) -> AssetId {
    pools::asset_id(r)
}
