//! C07: PSET codec.  Own key-value reader/writer; classification of wire pairs by the
//! specification's type tables; field-subset round trips; edits of a fully populated PSET.
use crate::pools;
use crate::psetbuild::*;
use crate::tok::varint;
use crate::util::*;
use elements::encode::{deserialize, serialize};
use elements::pset::PartiallySignedTransaction as Pset;
use serde_json::{json, Value};
use std::str::FromStr;

pub type Pair = (Vec<u8>, Vec<u8>); // (key incl. type byte, value)

fn read_varint(b: &[u8], pos: &mut usize) -> Option<u64> {
    let f = *b.get(*pos)?;
    *pos += 1;
    let n = match f { 0xfd => 2, 0xfe => 4, 0xff => 8, _ => return Some(f as u64) };
    let s = b.get(*pos..*pos + n)?;
    *pos += n;
    let mut v = 0u64;
    for (i, x) in s.iter().enumerate() { v |= (*x as u64) << (8 * i); }
    Some(v)
}

/// Parse a PSET byte string into its maps (global first). None if the framing is broken.
pub fn kv_parse(b: &[u8]) -> Option<Vec<Vec<Pair>>> {
    if b.len() < 5 || &b[..4] != b"pset" || b[4] != 0xff { return None; }
    let mut pos = 5;
    let mut maps = vec![];
    while pos < b.len() {
        let mut m = vec![];
        loop {
            let kl = read_varint(b, &mut pos)? as usize;
            if kl == 0 { break; }
            let key = b.get(pos..pos + kl)?.to_vec();
            pos += kl;
            let vl = read_varint(b, &mut pos)? as usize;
            let val = b.get(pos..pos + vl)?.to_vec();
            pos += vl;
            m.push((key, val));
        }
        maps.push(m);
    }
    Some(maps)
}

pub fn kv_write(maps: &[Vec<Pair>]) -> Vec<u8> {
    let mut out = b"pset\xff".to_vec();
    for m in maps {
        for (k, v) in m {
            out.extend(varint(k.len() as u64, None));
            out.extend(k);
            out.extend(varint(v.len() as u64, None));
            out.extend(v);
        }
        out.push(0);
    }
    out
}

/// (wire type, pset-proprietary subtype or 255) of a raw key
fn wire_id(key: &[u8]) -> (u64, u64) {
    let ty = key[0] as u64;
    if ty != 0xfc { return (ty, 255); }
    let mut pos = 1;
    let Some(pl) = read_varint(key, &mut pos) else { return (ty, 254) };
    let Some(prefix) = key.get(pos..pos + pl as usize) else { return (ty, 254) };
    pos += pl as usize;
    let Some(sub) = read_varint(key, &mut pos) else { return (ty, 254) };
    if prefix == b"pset" { (ty, sub) } else { (ty, 254) }
}

/// field name of a raw key according to the specification's table of this map kind
pub fn classify(table: &Value, key: &[u8]) -> String {
    let (ty, sub) = wire_id(key);
    for row in table.as_array().unwrap() {
        if row[1].as_u64() == Some(ty) && row[2].as_u64() == Some(sub) { return row[0].as_str().unwrap().to_string(); }
    }
    if ty == 0xfc { "proprietary".to_string() } else { "unknown".to_string() }
}

fn field_present(table: &Value, map: &[Pair], f: &str) -> bool {
    map.iter().any(|(k, _)| classify(table, k) == f)
}

const TAP_SHAPES: &[&[usize]] = &[&[0], &[1, 1], &[1, 2, 2], &[2, 2, 1], &[2, 2, 2, 2], &[1, 2, 3, 3], &[3, 3, 2, 1]];

fn roundtrip_checks(p: &Pset, cls: &str, bad: &mut Vec<(String, String)>) {
    let b = serialize(p);
    match deserialize::<Pset>(&b) {
        Err(e) => bad.push((format!("C07/roundtrip/rejected/{}", cls), e.to_string())),
        Ok(p2) => {
            if p2 != *p { bad.push((format!("C07/roundtrip/value-differs/{}", cls), String::new())); }
            let b2 = serialize(&p2);
            if b2 != b {
                bad.push((format!("C07/fixpoint/reencode-differs/{}", cls), format!("{} vs {} bytes", b.len(), b2.len())));
            }
            match deserialize::<Pset>(&b2) { Ok(p3) if p3 == p2 && serialize(&p3) == b2 => {}, _ => bad.push((format!("C07/fixpoint/second-pass/{}", cls), String::new())) }
        }
    }
    let s = p.to_string();
    match Pset::from_str(&s) {
        Ok(p2) if p2 == *p && p2.to_string() == s => {}
        other => bad.push((format!("C07/base64/{}", cls), format!("{:?}", other.map(|_| ()).map_err(|e| e.to_string())))),
    }
}

pub fn subsets(args: &[String], out: &mut Out) {
    let cases = read_ndjson(&arg(args, "--cases").expect("--cases"));
    let tables = &read_ndjson(&arg(args, "--tables").expect("--tables"))[0];
    let seed = arg_u64(args, "--seed", 1);
    for (ci, c) in cases.iter().enumerate() {
        out.count("distinct_cases");
        out.count("evaluations");
        let kind = c["kind"].as_str().unwrap();
        let fields: Vec<&str> = c["fields"].as_array().unwrap().iter().map(|x| x.as_str().unwrap()).collect();
        let outkind = c["outkind"].as_str().unwrap();
        let cls = if fields.len() <= 2 { format!("{}/{}/{}", kind, outkind, fields.join("+")) } else { format!("{}/{}/{}fields", kind, outkind, fields.len()) };
        if ci % 120 == 5 { out.sample(c.clone()); }
        let mut r = rng(seed, 0x0700_0000 + ci as u64);
        let res = guard(|| {
            let mut bad = vec![];
            let mut p = Pset::new_v2();
            let (nin, nout) = (c["nin"].as_u64().unwrap() as usize, c["nout"].as_u64().unwrap() as usize);
            for n in 0..nin { p.add_input(base_input(&mut r, n as u32)); }
            for n in 0..nout { p.add_output(base_output(&mut r, if kind == "output" && n + 1 == nout { outkind } else { "explicit" })); }
            for f in &fields {
                match kind {
                    "global" => set_global_field(&mut p, f, &mut r),
                    "input" => set_input_field(p.inputs_mut().last_mut().unwrap(), f, &mut r),
                    _ => {
                        if *f == "tap_tree" {
                            let shape = TAP_SHAPES[ci % TAP_SHAPES.len()];
                            p.outputs_mut().last_mut().unwrap().tap_tree = Some(elements::pset::TapTree::from_inner(tap_builder(&mut r, shape)).unwrap());
                        } else if !(outkind == "blinded" && matches!(*f, "value_rangeproof" | "asset_surjection_proof" | "ecdh_pubkey")) {
                            // (a blinded base already carries these)
                            let o = p.outputs_mut().last_mut().unwrap();
                            // blinding data must be absent or complete: proofs on an unmarked explicit output are fine
                            set_output_field(o, f, &mut r);
                        }
                    }
                }
            }
            // a marked output with partial blinding data is not well-formed: skip those (the format refuses them)
            if kind == "output" {
                let o = p.outputs().last().unwrap();
                if o.is_marked_for_blinding() && o.is_partially_blinded() && !o.is_fully_blinded() { return (bad, false); }
            }
            roundtrip_checks(&p, &cls, &mut bad);
            // every populated field is on the wire under the type the specification's table gives
            if let Some(maps) = kv_parse(&serialize(&p)) {
                if maps.len() != 1 + nin + nout { bad.push((format!("C07/map-count/{}", cls), format!("{}", maps.len()))); }
                let (tk, idx) = match kind { "global" => ("g", 0), "input" => ("i", nin), _ => ("o", nin + nout) };
                if let Some(m) = maps.get(idx) {
                    for f in &fields {
                        if !field_present(&tables[tk], m, f) { bad.push((format!("C07/wire-type/{}.{}", kind, f), "field not found under its specified wire type".into())); }
                    }
                }
            } else {
                bad.push((format!("C07/framing/{}", cls), "own reader cannot parse the serialization".into()));
            }
            (bad, true)
        });
        let case = json!({"case": c, "seed": seed, "case_index": ci});
        match res {
            Ok((bad, counted)) => { if !counted { out.count("skipped_not_well_formed"); } for (k, d) in bad { out.viol(&k, case.clone(), d); } }
            Err(p) => out.viol(&format!("C07/panic/{}", last_panic_loc()), case, p),
        }
    }
    // ELIP-100 / ELIP-102 metadata through the accessors, and every tap-tree shape
    let mut r = rng(seed, 0x0701);
    let res = guard(|| {
        let mut bad = vec![];
        let mut p = Pset::new_v2();
        p.add_input(base_input(&mut r, 0));
        p.add_output(base_output(&mut r, "explicit"));
        let (a1, a2) = (pools::asset_id(&mut r), pools::asset_id(&mut r));
        let am = elements::pset::elip100::AssetMetadata::new("{\"name\":\"x\"}".to_string(), elements::OutPoint::new(elements::Txid::from_byte_array(pools::bytes32(&mut r)), 3));
        let tm = elements::pset::elip100::TokenMetadata::new(a1, true);
        p.add_asset_metadata(a1, &am);
        p.add_token_metadata(a2, &tm);
        let abf = pools::abf(&mut r);
        p.inputs_mut()[0].set_abf(abf);
        p.outputs_mut()[0].set_abf(abf);
        roundtrip_checks(&p, "elip100+elip102", &mut bad);
        let p2: Pset = match deserialize(&serialize(&p)) {
            Ok(x) => x,
            Err(e) => { bad.push(("C07/elip100/metadata-pset-does-not-decode".into(), e.to_string())); return bad; }
        };
        if p2.get_asset_metadata(a1).and_then(|x| x.ok()) != Some(am) { bad.push(("C07/elip100/asset-metadata".into(), String::new())); }
        if p2.get_token_metadata(a2).and_then(|x| x.ok()) != Some(tm) { bad.push(("C07/elip100/token-metadata".into(), String::new())); }
        if p2.inputs()[0].get_abf().and_then(|x| x.ok()) != Some(abf) || p2.outputs()[0].get_abf().and_then(|x| x.ok()) != Some(abf) { bad.push(("C07/elip102/abf".into(), String::new())); }
        for shape in TAP_SHAPES {
            let mut q = Pset::new_v2();
            q.add_input(base_input(&mut r, 0));
            let mut o = base_output(&mut r, "explicit");
            o.tap_tree = Some(elements::pset::TapTree::from_inner(tap_builder(&mut r, shape)).unwrap());
            q.add_output(o);
            let mut b2 = vec![];
            roundtrip_checks(&q, &format!("taptree/{}leaves", shape.len()), &mut b2);
            for (k, d) in b2 { bad.push((if k.starts_with("C07/fixpoint") || k.starts_with("C07/roundtrip/value") { format!("C07/taptree/{}leaves/not-a-fixpoint", if shape.len() >= 2 { "multi" } else { "single" }) } else { k }, d)); }
        }
        bad
    });
    match res {
        Ok(bad) => for (k, d) in bad { out.viol(&k, json!({"part": "accessors+taptrees"}), d); },
        Err(p) => out.viol(&format!("C07/panic/{}", last_panic_loc()), json!({"part": "accessors+taptrees"}), p),
    }
    out.add("evaluations", 2 + TAP_SHAPES.len() as u64);
}

/// A PSET with every field of every map populated (one input, one fully blinded output).
pub fn full_pset(r: &mut Rng) -> Pset {
    let mut p = Pset::new_v2();
    p.add_input(base_input(r, 1));
    p.add_output(base_output(r, "blinded"));
    for f in GLOBAL_FIELDS { set_global_field(&mut p, f, r); }
    for f in INPUT_FIELDS { set_input_field(&mut p.inputs_mut()[0], f, r); }
    for f in OUTPUT_FIELDS { if !matches!(*f, "value_rangeproof" | "asset_surjection_proof" | "ecdh_pubkey") { set_output_field(&mut p.outputs_mut()[0], f, r); } }
    p.outputs_mut()[0].amount = None;
    p.outputs_mut()[0].asset = None;
    p
}

pub fn edits(args: &[String], out: &mut Out) {
    let cases = read_ndjson(&arg(args, "--cases").expect("--cases"));
    let tables = &read_ndjson(&arg(args, "--tables").expect("--tables"))[0];
    let seed = arg_u64(args, "--seed", 1);
    let mut r = rng(seed, 0x0702);
    let base = full_pset(&mut r);
    let bytes = serialize(&base);
    let maps = kv_parse(&bytes).expect("own reader parses the base");
    // the wire must carry exactly the pairs the specification's base lists (as a multiset of fields)
    for (kind, tk, idx) in [("global", "g", 0usize), ("input", "i", 1), ("output", "o", 2)] {
        let mut got: Vec<String> = maps[idx].iter().map(|(k, _)| classify(&tables[tk], k)).collect();
        got.sort();
        let mut want: Vec<String> = tables["base"][kind].as_array().unwrap().iter().map(|x| x[0].as_str().unwrap().to_string()).collect();
        want.sort();
        if got != want {
            let missing: Vec<&String> = want.iter().filter(|w| !got.contains(w)).collect();
            let extra: Vec<&String> = got.iter().filter(|g| !want.contains(g)).collect();
            out.viol(&format!("C07/wire-type/{}-table-mismatch", kind), json!({"missing": missing, "extra": extra}), "pairs on the wire differ from the specification's table".into());
        }
    }
    if deserialize::<Pset>(&bytes).ok().as_ref() != Some(&base) { out.viol("C07/roundtrip/full-base", json!({}), String::new()); }
    out.sample(json!({"base_pairs": {"global": maps[0].len(), "input": maps[1].len(), "output": maps[2].len()}, "first_edit": cases.first()}));
    for (ci, c) in cases.iter().enumerate() {
        out.count("distinct_cases");
        out.count("evaluations");
        let kind = c["kind"].as_str().unwrap();
        let e = &c["edit"];
        let (op, f, k) = (e["op"].as_str().unwrap(), e["f"].as_str().unwrap(), e["k"].as_u64().unwrap() as usize);
        let cls = format!("{}/{}/{}", kind, op, f);
        let mut m2 = maps.clone();
        let mut raw: Option<Vec<u8>> = None;
        if kind == "top" {
            let set_count = |m: &mut Vec<Vec<Pair>>, ty: u8, delta: i64| { for (key, v) in m[0].iter_mut() { if key.len() == 1 && key[0] == ty { let mut pos = 0; let n = read_varint(v, &mut pos).unwrap() as i64 + delta; *v = varint(n as u64, None); } } };
            match op {
                "input_count+1" => set_count(&mut m2, 4, 1),
                "input_count-1" => set_count(&mut m2, 4, -1),
                "output_count+1" => set_count(&mut m2, 5, 1),
                "output_count-1" => set_count(&mut m2, 5, -1),
                "bad_magic" => { let mut b = bytes.clone(); b[1] ^= 0x20; raw = Some(b); }
                "bad_separator" => { let mut b = bytes.clone(); b[4] = 0xfe; raw = Some(b); }
                "drop_last_map" => { m2.pop(); }
                "extra_empty_map" => m2.push(vec![]),
                "truncate_1" => { let mut b = bytes.clone(); b.pop(); raw = Some(b); }
                "trailing_byte" => { let mut b = bytes.clone(); b.push(0x00); raw = Some(b); }
                x => panic!("top op {}", x),
            }
        } else {
            let (tk, idx) = match kind { "global" => ("g", 0), "input" => ("i", 1), _ => ("o", 2) };
            let positions: Vec<usize> = m2[idx].iter().enumerate().filter(|(_, (key, _))| classify(&tables[tk], key) == f).map(|(i, _)| i).collect();
            let pick = |k: usize| -> Option<usize> { positions.get(if k == 0 { 0 } else { k - 1 }).copied() };
            match op {
                "reverse" => m2[idx].reverse(),
                _ => {
                    let Some(pos) = pick(k) else { out.viol(&format!("C07/wire-type/{}.{}", kind, f), json!({"edit": e}), "pair not found on the wire".into()); continue; };
                    match op {
                        "drop" => { m2[idx].remove(pos); }
                        "dup" => { let p = m2[idx][pos].clone(); m2[idx].push(p); }
                        "tofront" => { let p = m2[idx].remove(pos); m2[idx].insert(0, p); }
                        "badhash" => { let l = m2[idx][pos].1.len(); m2[idx][pos].1[l - 1] ^= 1; }
                        x => panic!("op {}", x),
                    }
                }
            }
        }
        let b2 = raw.unwrap_or_else(|| kv_write(&m2));
        let want_ok = c["ok"].as_bool().unwrap();
        let case = json!({"case": c, "case_index": ci});
        // the text entry point (base64) must give the verdict of the binary one
        {
            use elements::bitcoin::base64::prelude::{Engine as _, BASE64_STANDARD};
            let text = BASE64_STANDARD.encode(&b2);
            match (guard(|| Pset::from_str(&text)), guard(|| deserialize::<Pset>(&b2))) {
                (Ok(t), Ok(b)) => { if t.is_ok() != b.is_ok() || (t.is_ok() && t.as_ref().ok() != b.as_ref().ok()) { out.viol(&format!("C07/base64/verdict-differs-from-binary/{}", cls), case.clone(), format!("text ok={} binary ok={}", t.is_ok(), b.is_ok())); } }
                _ => {}
            }
        }
        match guard(|| deserialize::<Pset>(&b2)) {
            Err(p) => out.viol(&format!("C07/panic/{}", last_panic_loc()), case, p),
            Ok(Err(e)) => { if want_ok { out.viol(&format!("C07/edit/valid-rejected/{}", cls), case, e.to_string()); } }
            Ok(Ok(p2)) => {
                if !want_ok {
                    out.viol(&format!("C07/edit/invalid-accepted/{}/{}", c["why"].as_str().unwrap(), cls), case, String::new());
                } else {
                    let canon = serialize(&p2);
                    match deserialize::<Pset>(&canon) { Ok(p3) if p3 == p2 && serialize(&p3) == canon => {}, _ => out.viol(&format!("C07/edit/not-canonical/{}", cls), case.clone(), String::new()) }
                    let same = c["same"] == "yes";
                    if c["same"] == "any" { continue; }
                    if same && (p2 != base || canon != bytes) { out.viol(&format!("C07/edit/order-sensitive/{}", cls), case, String::new()); }
                    else if !same && p2 == base { out.viol(&format!("C07/edit/drop-ignored/{}", cls), case, String::new()); }
                }
            }
        }
    }
}

// ---------- direction B: byte-level mutation recorder

fn mutate(b: &[u8], r: &mut Rng, other: &[u8]) -> Vec<u8> {
    use rand::RngCore;
    let mut v = b.to_vec();
    if v.len() < 8 { return v; }
    match r.next_u32() % 10 {
        0 => { let i = (r.next_u32() as usize) % v.len(); v[i] ^= 1 << (r.next_u32() % 8); }
        1 => { let i = (r.next_u32() as usize) % v.len(); v[i] = r.next_u32() as u8; }
        2 => { let k = (r.next_u32() as usize) % v.len(); v.truncate(k); }
        3 => { v.push(r.next_u32() as u8); }
        4 => { let i = 5 + (r.next_u32() as usize) % (v.len() - 5); v[i] = [0u8, 1, 2, 0x21, 0xfc, 0xfd, 0xff][(r.next_u32() % 7) as usize]; }
        5 => { let i = (r.next_u32() as usize) % v.len(); v.remove(i); }
        6 => { let i = (r.next_u32() as usize) % v.len(); v.insert(i, r.next_u32() as u8); }
        _ => {
            // structural: reorder / duplicate / splice pairs via the own reader
            if let Some(mut maps) = kv_parse(b) {
                let mi = (r.next_u32() as usize) % maps.len();
                if !maps[mi].is_empty() {
                    let pi = (r.next_u32() as usize) % maps[mi].len();
                    match r.next_u32() % 4 {
                        0 => { let p = maps[mi][pi].clone(); maps[mi].push(p); }
                        1 => { maps[mi].reverse(); }
                        2 => { maps[mi].remove(pi); }
                        _ => { if let Some(om) = kv_parse(other) { if let Some(p) = om.iter().flatten().nth((r.next_u32() as usize) % om.iter().map(|m| m.len()).sum::<usize>().max(1)) { maps[mi].push(p.clone()); } } }
                    }
                }
                v = kv_write(&maps);
            }
        }
    }
    v
}

pub fn record(args: &[String], out: &mut Out) {
    use std::io::Write;
    use rand::RngCore;
    let seed = arg_u64(args, "--seed", 1);
    let per_item = arg_u64(args, "--per-item", 200);
    let path = arg(args, "--out").expect("--out");
    let mut f = std::io::BufWriter::new(std::fs::File::create(&path).expect("create trace"));
    let mut r = rng(seed, 0x07b);
    let mut corpus: Vec<Vec<u8>> = crate::corpus::repo_hex_vectors().into_iter().filter(|v| v.starts_with(b"pset\xff")).collect();
    out.add("corpus_repo_psets", corpus.len() as u64);
    for _ in 0..4 { corpus.push(serialize(&full_pset(&mut r))); }
    let mut p = Pset::new_v2();
    p.add_input(base_input(&mut r, 0));
    p.add_output(base_output(&mut r, "explicit"));
    corpus.push(serialize(&p));
    let mut events = 0u64;
    for idx in 0..corpus.len() {
        for m in 0..=per_item {
            let other = corpus[(r.next_u32() as usize) % corpus.len()].clone();
            let bytes = if m == 0 { corpus[idx].clone() } else { mutate(&corpus[idx], &mut r, &other) };
            if std::env::var("VH_DEBUG_LAST").is_ok() { std::fs::write(format!("{}.last", path), hex(&bytes)).ok(); }
            let res = guard(|| match deserialize::<Pset>(&bytes) {
                Err(_) => json!({"accepted": false}),
                Ok(x) => {
                    let canon = serialize(&x);
                    let back = deserialize::<Pset>(&canon);
                    let eq = back.as_ref().map(|y| *y == x).unwrap_or(false);
                    let fix = back.as_ref().map(|y| serialize(y) == canon).unwrap_or(false);
                    let s = x.to_string();
                    let b64 = Pset::from_str(&s).map(|y| y == x).unwrap_or(false);
                    let counts = kv_parse(&canon).map(|m| m.len() == 1 + x.inputs().len() + x.outputs().len()).unwrap_or(false) && x.n_inputs() == x.inputs().len() && x.n_outputs() == x.outputs().len();
                    json!({"accepted": true, "canon_decodes_equal": eq, "canon_fixpoint": fix, "base64_roundtrip": b64, "counts_consistent": counts})
                }
            });
            let mut e = match res {
                Ok(v) => { let mut v = v; v["panic"] = json!(false); v }
                Err(pn) => { out.viol(&format!("C07/panic/{}", last_panic_loc()), json!({"bytes_hex": hex(&bytes[..bytes.len().min(300)])}), pn); json!({"accepted": false, "panic": true}) }
            };
            if e["accepted"] == true { out.count("accepted_events"); }
            e["ev"] = json!("pset_decode");
            e["len"] = json!(bytes.len());
            writeln!(f, "{}", e).unwrap();
            events += 1;
        }
        out.count("traces");
    }
    out.add("events", events);
}

/// Variable-length parts at the CompactSize boundaries (PsetCodec.SizedCases): round trip, fixpoint, and the
/// value length on the wire against the specification's framing formula (measured by the own reader).
pub fn sized(args: &[String], out: &mut Out) {
    use elements::bitcoin::bip32::{ChildNumber, DerivationPath, Fingerprint};
    use elements::pset::raw::{Key, ProprietaryKey};
    use elements::taproot::TapLeafHash;
    let cases = read_ndjson(&arg(args, "--cases").expect("--cases"));
    let tables = &read_ndjson(&arg(args, "--tables").expect("--tables"))[0];
    let seed = arg_u64(args, "--seed", 1);
    let path_of = |r: &mut Rng, n: usize| -> (Fingerprint, DerivationPath) {
        let v: Vec<ChildNumber> = (0..n).map(|i| if i % 3 == 0 { ChildNumber::from_hardened_idx((i as u32 * 7) % 1000).unwrap() } else { ChildNumber::from_normal_idx(i as u32).unwrap() }).collect();
        let f = pools::rbytes(r, 4);
        (Fingerprint::from([f[0], f[1], f[2], f[3]]), DerivationPath::from(v))
    };
    for (ci, c) in cases.iter().enumerate() {
        out.count("distinct_cases");
        out.count("evaluations");
        let (kind, field, part) = (c["kind"].as_str().unwrap(), c["field"].as_str().unwrap(), c["part"].as_str().unwrap());
        let n = c["n"].as_u64().unwrap() as usize;
        let cls = format!("{}.{}/{}={}", kind, field, part, n);
        if ci % 40 == 3 { out.sample(c.clone()); }
        let mut r = rng(seed, 0x0702_0000 + ci as u64);
        let res = guard(|| {
            let mut bad = vec![];
            let mut p = Pset::new_v2();
            p.add_input(base_input(&mut r, 0));
            p.add_output(base_output(&mut r, "explicit"));
            let bytes = pools::rbytes(&mut r, n);
            match (kind, field, part) {
                ("input", "redeem_script", _) => p.inputs_mut()[0].redeem_script = Some(elements::Script::from(bytes)),
                ("input", "witness_script", _) => p.inputs_mut()[0].witness_script = Some(elements::Script::from(bytes)),
                ("input", "final_script_sig", _) => p.inputs_mut()[0].final_script_sig = Some(elements::Script::from(bytes)),
                ("input", "final_script_witness", "item") => p.inputs_mut()[0].final_script_witness = Some(vec![bytes]),
                ("input", "final_script_witness", "items") => p.inputs_mut()[0].final_script_witness = Some(vec![vec![7u8]; n]),
                ("input", "partial_sigs", _) => { p.inputs_mut()[0].partial_sigs.insert(btc_pk(&mut r), bytes); }
                ("input", "bip32_derivation", _) => { let ks = path_of(&mut r, n); p.inputs_mut()[0].bip32_derivation.insert(btc_pk(&mut r), ks); }
                ("input", "tap_key_origins", "leaves") | ("output", "tap_key_origins", "leaves") => {
                    let leaves: Vec<TapLeafHash> = (0..n).map(|_| TapLeafHash::from_byte_array(pools::bytes32(&mut r))).collect();
                    let v = (leaves, path_of(&mut r, 1));
                    if kind == "input" { p.inputs_mut()[0].tap_key_origins.insert(xonly(&mut r), v); } else { p.outputs_mut()[0].tap_key_origins.insert(xonly(&mut r), v); }
                }
                ("input", "tap_key_origins", "path") => { let v = (vec![TapLeafHash::from_byte_array(pools::bytes32(&mut r))], path_of(&mut r, n)); p.inputs_mut()[0].tap_key_origins.insert(xonly(&mut r), v); }
                ("input", "tap_scripts", _) => {
                    let s = elements::Script::from(bytes);
                    let info = elements::taproot::TaprootBuilder::new().add_leaf(0, s.clone()).unwrap().finalize(pools::secp(), xonly(&mut r)).expect("finalize");
                    let sv = (s, elements::taproot::LeafVersion::default());
                    let cb = info.control_block(&sv).unwrap();
                    p.inputs_mut()[0].tap_scripts.insert(cb, sv);
                }
                ("input", "sha256_preimages", _) => { use elements::hashes::Hash; p.inputs_mut()[0].sha256_preimages.insert(elements::hashes::sha256::Hash::hash(&bytes), bytes); }
                ("input", "pegin_txout_proof", _) => p.inputs_mut()[0].pegin_txout_proof = Some(bytes),
                ("input", "pegin_claim_script", _) => p.inputs_mut()[0].pegin_claim_script = Some(elements::Script::from(bytes)),
                ("input", "pegin_witness", "item") => p.inputs_mut()[0].pegin_witness = Some(vec![bytes]),
                ("input", "pegin_witness", "items") => p.inputs_mut()[0].pegin_witness = Some(vec![vec![9u8]; n]),
                ("input", "witness_utxo", _) => { let mut o = explicit_txout(&mut r); o.script_pubkey = elements::Script::from(bytes); p.inputs_mut()[0].witness_utxo = Some(o); }
                (_, "proprietary", _) => {
                    let k = match part { "prefix" => ProprietaryKey { prefix: bytes.clone(), subtype: 3, key: vec![1, 2] }, "key" => ProprietaryKey { prefix: b"xy".to_vec(), subtype: 3, key: bytes.clone() }, _ => ProprietaryKey { prefix: b"xy".to_vec(), subtype: 3, key: vec![1] } };
                    let v = if part == "value" { bytes.clone() } else { vec![5, 6, 7] };
                    match kind { "input" => { p.inputs_mut()[0].proprietary.insert(k, v); } "output" => { p.outputs_mut()[0].proprietary.insert(k, v); } _ => { p.global.proprietary.insert(k, v); } }
                }
                (_, "unknown", _) => {
                    let ty = match kind { "input" => 0x6e, "output" => 0x55, _ => 0x7f };
                    let (k, v) = if part == "key" { (Key { type_value: ty, key: bytes.clone() }, vec![1, 2, 3]) } else { (Key { type_value: ty, key: vec![4] }, bytes.clone()) };
                    match kind { "input" => { p.inputs_mut()[0].unknown.insert(k, v); } "output" => { p.outputs_mut()[0].unknown.insert(k, v); } _ => { p.global.unknown.insert(k, v); } }
                }
                ("output", "redeem_script", _) => p.outputs_mut()[0].redeem_script = Some(elements::Script::from(bytes)),
                ("output", "witness_script", _) => p.outputs_mut()[0].witness_script = Some(elements::Script::from(bytes)),
                ("output", "script", _) => p.outputs_mut()[0].script_pubkey = elements::Script::from(bytes),
                ("output", "tap_tree", "leaf") => {
                    let b = elements::taproot::TaprootBuilder::new().add_leaf(0, elements::Script::from(bytes)).unwrap();
                    p.outputs_mut()[0].tap_tree = Some(elements::pset::TapTree::from_inner(b).expect("complete"));
                }
                ("output", "tap_tree", "leaves") => {
                    // a comb: leaf depths 1, 2, .., n-1, n-1
                    let depths: Vec<usize> = if n == 1 { vec![0] } else { (1..n).chain(std::iter::once(n - 1)).collect() };
                    let mut b = elements::taproot::TaprootBuilder::new();
                    for (k, d) in depths.iter().enumerate() { b = b.add_leaf(*d, elements::Script::from(vec![0x51, (k % 251) as u8, (k / 251) as u8])).expect("comb"); }
                    p.outputs_mut()[0].tap_tree = Some(elements::pset::TapTree::from_inner(b).expect("complete"));
                }
                ("output", "bip32_derivation", _) => { let ks = path_of(&mut r, n); p.outputs_mut()[0].bip32_derivation.insert(btc_pk(&mut r), ks); }
                ("global", "scalars", _) => { for _ in 0..n { p.global.scalars.push(pools::tweak(&mut r)); } }
                ("global", "xpub", _) => {
                    let secp = elements::bitcoin::secp256k1::Secp256k1::new();
                    let (fp, path) = { let v: Vec<ChildNumber> = (0..n).map(|i| ChildNumber::from_normal_idx(i as u32).unwrap()).collect(); (xpub(&mut r).fingerprint(), DerivationPath::from(v)) };
                    let x = xpub(&mut r).derive_pub(&secp, &path).expect("derive");
                    p.global.xpub.insert(x, (fp, path));
                }
                x => panic!("sized part {:?}", x),
            }
            roundtrip_checks(&p, &format!("sized/{}", cls), &mut bad);
            let want = c["vlen"].as_u64().unwrap();
            if want != 1_000_000_000 {
                match kv_parse(&serialize(&p)) {
                    None => bad.push((format!("C07/framing/sized/{}", cls), "own reader cannot parse the serialization".into())),
                    Some(maps) => {
                        let (tk, idx) = match kind { "global" => ("g", 0), "input" => ("i", 1), _ => ("o", 2) };
                        let fname = if field == "script" { "script" } else { field };
                        let hits: Vec<usize> = maps.get(idx).map(|m| m.iter().filter(|(k, _)| classify(&tables[tk], k) == fname).map(|(_, v)| v.len()).collect()).unwrap_or_default();
                        if hits.is_empty() && !(kind == "global" && field == "scalars") {
                            bad.push((format!("C07/wire-type/sized/{}", cls), "field not found under its specified wire type".into()));
                        } else if !hits.iter().any(|l| *l as u64 == want) {
                            bad.push((format!("C07/framing/value-length/{}", cls), format!("value lengths on the wire {:?}, specification {}", hits, want)));
                        }
                    }
                }
            }
            if kind == "global" && field == "scalars" {
                let q: Pset = deserialize(&serialize(&p)).map_err(|e| e.to_string()).unwrap_or_else(|_| Pset::new_v2());
                if q.global.scalars != p.global.scalars { bad.push((format!("C07/roundtrip/scalars-order-or-count/{}", cls), String::new())); }
            }
            bad
        });
        let case = json!({"case": c, "seed": seed, "case_index": ci});
        match res {
            Ok(bad) => for (k, d) in bad { out.viol(&k, case.clone(), d); },
            Err(pn) => out.viol(&format!("C07/panic/sized/{}/{}", cls, last_panic_loc()), case, pn),
        }
    }
}
