//! C14: merging descendants of a common ancestor; key-source reconciliation table.
use crate::pools;
use crate::psetbuild::*;
use crate::psetcodec::{classify, kv_parse};
use crate::util::*;
use elements::bitcoin::bip32::{ChildNumber, DerivationPath, Fingerprint};
use elements::encode::serialize;
use elements::pset::PartiallySignedTransaction as Pset;
use serde_json::{json, Value};
use std::collections::BTreeSet;

type Fact = (usize, Vec<u8>, Vec<u8>);

fn facts(p: &Pset) -> BTreeSet<Fact> {
    let maps = kv_parse(&serialize(p)).expect("own reader parses a serialized PSET");
    maps.into_iter().enumerate().flat_map(|(i, m)| m.into_iter().map(move |(k, v)| (i, k, v))).collect()
}

fn ancestor(seed: u64, nin: usize, nout: usize) -> Pset {
    let mut r = rng(seed, 0x14a);
    let mut p = Pset::new_v2();
    for k in 0..nin { p.add_input(base_input(&mut r, k as u32)); }
    for _ in 0..nout { p.add_output(base_output(&mut r, "explicit")); }
    p
}

fn apply_add(p: &mut Pset, add: &Value, seed: u64) {
    let pos = add[0].as_str().unwrap();
    let f = add[1].as_str().unwrap();
    // identical additions carry identical contents: the content depends on (position, field) only
    let h = crate::sha256c::sha256(format!("{}/{}/{}", seed, pos, f).as_bytes());
    let mut r = rng(u64::from_le_bytes([h[0], h[1], h[2], h[3], h[4], h[5], h[6], h[7]]), 1);
    match pos {
        "g" => set_global_field(p, f, &mut r),
        x if x.starts_with('i') => set_input_field(&mut p.inputs_mut()[x[1..].parse::<usize>().unwrap() - 1], f, &mut r),
        x if x.starts_with('o') => set_output_field(&mut p.outputs_mut()[x[1..].parse::<usize>().unwrap() - 1], f, &mut r),
        x => panic!("position {}", x),
    }
}

fn fact_name(tables: &Value, f: &Fact, nin: usize) -> String {
    let (kind, tk) = if f.0 == 0 { ("global", "g") } else if f.0 <= nin { ("input", "i") } else { ("output", "o") };
    format!("{}.{}", kind, classify(&tables[tk], &f.1))
}

pub fn replay(args: &[String], out: &mut Out) {
    let cases = read_ndjson(&arg(args, "--cases").expect("--cases"));
    let tables = &read_ndjson(&arg(args, "--tables").expect("--tables"))[0];
    let seed = arg_u64(args, "--seed", 1);
    for (ci, c) in cases.iter().enumerate() {
        let (nin, nout) = (c["shape"][0].as_u64().unwrap() as usize, c["shape"][1].as_u64().unwrap() as usize);
        let mut anc = ancestor(seed, nin, nout);
        // ancestors whose last input already pins the lock time (Gen_PsetMerge.LockCases)
        match c["anc"].as_str() {
            Some("hlock") => anc.inputs_mut()[nin - 1].required_height_locktime = Some(elements::locktime::Height::from_consensus(499_999_999).unwrap()),
            Some("tlock") => anc.inputs_mut()[nin - 1].required_time_locktime = Some(elements::locktime::Time::from_consensus(u32::MAX).unwrap()),
            _ => {}
        }
        out.count("distinct_cases");
        if ci % 700 == 9 { out.sample(c.clone()); }
        let case = json!({"case": c, "case_index": ci, "seed": seed});
        let res = guard(|| {
            let mut bad: Vec<(String, String)> = vec![];
            let mut n = 0u64;
            let descs: Vec<Pset> = c["descs"].as_array().unwrap().iter().map(|adds| { let mut p = anc.clone(); for a in adds.as_array().unwrap() { apply_add(&mut p, a, seed); } p }).collect();
            let adds_label: Vec<String> = c["descs"].as_array().unwrap().iter().flat_map(|adds| adds.as_array().unwrap().iter().map(|a| format!("{}.{}", a[0].as_str().unwrap(), a[1].as_str().unwrap()))).collect();
            let ids: Vec<_> = descs.iter().map(|d| d.unique_id().ok()).collect();
            let all_same = ids.iter().all(|i| i.is_some() && *i == ids[0]);
            let dfacts: Vec<BTreeSet<Fact>> = descs.iter().map(facts).collect();
            let mut results: Vec<Pset> = vec![];
            for ord in c["orders"].as_array().unwrap() {
                let ord: Vec<usize> = ord.as_array().unwrap().iter().map(|x| x.as_u64().unwrap() as usize - 1).collect();
                let mut acc = descs[ord[0]].clone();
                let mut merged = vec![ord[0]];
                let mut aborted = false;
                for &k in &ord[1..] {
                    n += 1;
                    let same_id = acc.unique_id().ok().is_some() && acc.unique_id().ok() == ids[k];
                    let held_both: Vec<usize> = acc.inputs().iter().enumerate().filter(|(_, i)| i.non_witness_utxo.is_some() && i.witness_utxo.is_some()).map(|(n, _)| n).collect();
                    match acc.merge(descs[k].clone()) {
                        Ok(()) => {
                            // the inherited combiner rule clears the non-witness UTXO only when a witness UTXO is newly set
                            for n in &held_both { if acc.inputs()[*n].non_witness_utxo.is_none() { bad.push(("C14/merge/dropped/input.non_witness_utxo/receiver-already-held-both-forms".into(), adds_label.join(" | "))); } }
                            if !same_id { bad.push(("C14/merge/accepted-different-unique-id".into(), adds_label.join(" | "))); }
                            merged.push(k);
                        }
                        Err(e) => {
                            if same_id { bad.push((format!("C14/merge/refused-same-unique-id/{}", adds_label.join("+")), e.to_string())); }
                            aborted = true;
                            break;
                        }
                    }
                }
                if aborted { continue; }
                let rf = facts(&acc);
                // nothing lost
                for &k in &merged {
                    for f in dfacts[k].iter() {
                        let is_txmod = f.0 == 0 && f.1 == vec![6u8];
                        if !rf.contains(f) && !is_txmod {
                            let name = fact_name(tables, f, nin);
                            // the same key present with another value = a conflict resolved arbitrarily, not a loss; here additions are disjoint or identical
                            bad.push((format!("C14/merge/dropped/{}", name), format!("merging {}", adds_label.join(" | "))));
                        }
                    }
                }
                // nothing invented
                let union: BTreeSet<&Fact> = merged.iter().flat_map(|k| dfacts[*k].iter()).collect();
                for f in rf.iter() {
                    let is_txmod = f.0 == 0 && f.1 == vec![6u8];
                    if !union.contains(f) && !is_txmod { bad.push((format!("C14/merge/invented/{}", fact_name(tables, f, nin)), adds_label.join(" | "))); }
                }
                if acc.unique_id().ok() != ids[ord[0]] { bad.push(("C14/merge/unique-id-changed".into(), adds_label.join(" | "))); }
                // the merged PSET is a well-formed PSET: it survives its own codec (no duplicated keys, consistent counts)
                match elements::encode::deserialize::<Pset>(&serialize(&acc)) {
                    Ok(q) if q == acc => {}
                    other => bad.push(("C14/merge/result-does-not-round-trip".into(), format!("{} -> {:?}", adds_label.join(" | "), other.map(|_| ()).map_err(|e| e.to_string())))),
                }
                if merged.len() == descs.len() { results.push(acc); }
            }
            if all_same && results.len() >= 2 {
                for r2 in &results[1..] {
                    if *r2 != results[0] || serialize(r2) != serialize(&results[0]) {
                        // name the facts on which the orders disagree
                        let (fa, fb) = (facts(&results[0]), facts(r2));
                        let diff: BTreeSet<String> = fa.symmetric_difference(&fb).map(|f| fact_name(tables, f, nin)).collect();
                        bad.push((format!("C14/merge/order-sensitive/{}", diff.into_iter().collect::<Vec<_>>().join("+")), adds_label.join(" | ")));
                        break;
                    }
                }
            }
            (bad, n)
        });
        match res {
            Ok((bad, n)) => { out.add("evaluations", n); for (k, d) in bad { out.viol(&k, case.clone(), d); } }
            Err(p) => out.viol(&format!("C14/panic/{}", last_panic_loc()), case, p),
        }
    }
}

fn keysource_of(v: &Value) -> (Fingerprint, DerivationPath) {
    let fp = if v["fp"] == "F1" { Fingerprint::from([1, 2, 3, 4]) } else { Fingerprint::from([9, 8, 7, 6]) };
    let path: Vec<ChildNumber> = v["path"].as_array().unwrap().iter().map(|x| { let n = x.as_u64().unwrap() as u32; if n >= 100 { ChildNumber::from_hardened_idx(n - 100).unwrap() } else { ChildNumber::from_normal_idx(n).unwrap() } }).collect();
    (fp, DerivationPath::from(path))
}

pub fn keysources(args: &[String], out: &mut Out) {
    let cases = read_ndjson(&arg(args, "--cases").expect("--cases"));
    let seed = arg_u64(args, "--seed", 1);
    let anc = ancestor(seed, 2, 2);
    let mut r = rng(seed, 0x14b);
    let x = xpub(&mut r);
    for (ci, c) in cases.iter().enumerate() {
        out.count("distinct_cases");
        out.count("evaluations");
        if ci % 50 == 3 { out.sample(c.clone()); }
        let (ka, kb) = (keysource_of(&c["a"]), keysource_of(&c["b"]));
        let cls = format!("len{}-vs-len{}/{}", ka.1.len(), kb.1.len(), if c["a"]["fp"] == c["b"]["fp"] { "same-fp" } else { "other-fp" });
        let case = json!({"case": c});
        let mk = |ks: &(Fingerprint, DerivationPath)| { let mut p = anc.clone(); p.global.xpub.insert(x, ks.clone()); p };
        // the operand merged in also carries other global data: reconciling the key source must not end the merge of the map
        let extra_key = elements::pset::raw::ProprietaryKey { prefix: b"vh".to_vec(), subtype: 7, key: vec![1] };
        for (first, second, dir) in [(&ka, &kb, "a<-b"), (&kb, &ka, "b<-a")] {
            let mut p = mk(first);
            let mut q = mk(second);
            q.global.proprietary.insert(extra_key.clone(), vec![9, 9]);
            q.global.scalars.push(pools::tweak(&mut r));
            let want_scalars = q.global.scalars.clone();
            let res = guard(|| p.merge(q));
            let want = c["want"].as_str().unwrap();
            match res {
                Err(pn) => out.viol(&format!("C14/xpub/panic/{}", cls), case.clone(), format!("{} at {} ({})", pn, last_panic_loc(), dir)),
                Ok(Err(e)) => { if want == "ok" { out.viol(&format!("C14/xpub/reconcilable-refused/{}", cls), case.clone(), e.to_string()); } }
                Ok(Ok(())) => {
                    if want == "conflict" {
                        out.viol(&format!("C14/xpub/conflict-accepted/{}", cls), case.clone(), format!("{}: kept {:?}", dir, p.global.xpub.get(&x)));
                    } else {
                        let keep = if c["keep"] == "a" { &ka } else { &kb };
                        if p.global.xpub.get(&x) != Some(keep) { out.viol(&format!("C14/xpub/wrong-key-source-kept/{}", cls), case.clone(), dir.to_string()); }
                        if p.global.proprietary.get(&extra_key) != Some(&vec![9, 9]) || !want_scalars.iter().all(|s| p.global.scalars.contains(s)) {
                            out.viol(&format!("C14/merge/dropped/global-data-after-xpub/{}", cls), case.clone(), dir.to_string());
                        }
                    }
                }
            }
        }
    }
    // PSETs whose unique id cannot be computed (contradictory required lock times) are not "the same transaction" as anything:
    // merging one with a PSET of another transaction must be refused, in both directions
    {
        out.count("distinct_cases");
        out.count("evaluations");
        let mut broken = ancestor(seed, 2, 2);
        broken.inputs_mut()[0].required_time_locktime = Some(elements::locktime::Time::from_consensus(1_600_000_000).unwrap());
        broken.inputs_mut()[1].required_height_locktime = Some(elements::locktime::Height::from_consensus(700_000).unwrap());
        let mut other = ancestor(seed ^ 0x5555, 2, 2);
        set_input_field(&mut other.inputs_mut()[0], "partial_sigs", &mut r);
        if broken.unique_id().is_ok() { out.viol("C14/harness/conflicting-locktimes-have-an-id", json!({}), String::new()); }
        for (a, b, dir) in [(&broken, &other, "broken<-other"), (&other, &broken, "other<-broken")] {
            let mut acc = a.clone();
            match guard(|| acc.merge(b.clone())) {
                Err(pn) => out.viol("C14/merge/panic/undecidable-id", json!({"dir": dir}), pn),
                Ok(Ok(())) => out.viol("C14/merge/accepted-different-unique-id/id-not-computable", json!({"dir": dir}), "merge of PSETs of different transactions accepted because one id is not computable".into()),
                Ok(Err(_)) => {}
            }
        }
    }
    let _ = pools::secp();
}
