//! Structural PSET operations (add / insert / remove of inputs and outputs): PsetOps.tla.
//! Direction B: random sessions against the real object, one event per call with the full projected state.
use crate::pools;
use crate::util::*;
use elements::encode::{deserialize, serialize};
use elements::pset::{Input, Output, PartiallySignedTransaction as Pset};
use elements::{OutPoint, Script, Txid};
use rand::Rng as _;
use serde_json::{json, Value};
use std::io::Write;

const NONE: u64 = 1_000_000;

fn project(p: &Pset) -> (Vec<u64>, Vec<Value>) {
    let ins = p.inputs().iter().map(|i| i.previous_output_index as u64).collect();
    let outs = p.outputs().iter().map(|o| json!([o.amount.unwrap_or(0), o.blinder_index.map(|b| b as u64).unwrap_or(NONE)])).collect();
    (ins, outs)
}

pub fn record(args: &[String], out: &mut Out) {
    let path = arg(args, "--out").expect("--out");
    let seed = arg_u64(args, "--seed", 1);
    let sessions = arg_u64(args, "--sessions", 100);
    let maxlen = arg_u64(args, "--maxlen", 20);
    let cap = arg_u64(args, "--cap", 5) as usize;
    let mut fh = std::io::BufWriter::new(std::fs::File::create(&path).unwrap());
    let mut r = rng(seed, 0x0b5e_0001);
    let asset = pools::asset_id(&mut r);
    let txid = Txid::from_byte_array(pools::bytes32(&mut r));
    for s in 0..sessions {
        out.count("traces");
        writeln!(fh, "{}", json!({"op": "reset"})).unwrap();
        let mut p = Pset::new_v2();
        let mut next: u64 = 1;
        let n = r.gen_range(1..=maxlen);
        for _ in 0..n {
            let nin = p.inputs().len();
            let nout = p.outputs().len();
            let k = r.gen_range(0..6);
            let (op, pos, bi): (&str, u64, u64) = match k {
                0 if nin < cap => ("add_input", 0, NONE),
                1 if nin < cap => ("insert_input", r.gen_range(0..=nin) as u64, NONE),
                2 => ("remove_input", r.gen_range(0..=nin) as u64, NONE),
                3 if nout < cap => ("add_output", 0, if r.gen_bool(0.3) { NONE } else { r.gen_range(0..=nin) as u64 }),
                4 if nout < cap => ("insert_output", r.gen_range(0..=nout) as u64, if r.gen_bool(0.3) { NONE } else { r.gen_range(0..=nin) as u64 }),
                5 => ("remove_output", r.gen_range(0..=nout) as u64, NONE),
                _ => continue,
            };
            let mk_in = |id: u64| Input::from_prevout(OutPoint::new(txid, id as u32));
            let mk_out = |id: u64, bi: u64| {
                let mut o = Output::new_explicit(Script::from(vec![0x51]), id, asset, None);
                o.blinder_index = if bi == NONE { None } else { Some(bi as u32) };
                o
            };
            let res = guard(|| match op {
                "add_input" => { p.add_input(mk_in(next)); 0 }
                "insert_input" => { p.insert_input(mk_in(next), pos as usize); 0 }
                "remove_input" => p.remove_input(pos as usize).map(|i| i.previous_output_index as u64).unwrap_or(NONE),
                "add_output" => { p.add_output(mk_out(next, bi)); 0 }
                "insert_output" => { p.insert_output(mk_out(next, bi), pos as usize); 0 }
                "remove_output" => p.remove_output(pos as usize).map(|o| o.amount.unwrap_or(0)).unwrap_or(NONE),
                _ => unreachable!(),
            });
            if !op.starts_with("remove") {
                next += 1;
            }
            let ret = match res {
                Ok(v) => v,
                Err(pn) => {
                    out.viol(&format!("X/psetops/panic/{}", op), json!({"session": s, "op": op, "pos": pos}), pn);
                    break;
                }
            };
            let (ins, outs) = project(&p);
            let sane = p.sanity_check().is_ok();
            // the counts written on the wire are the ones the decoder checks: a sane PSET survives serialization
            let rt = match guard(|| deserialize::<Pset>(&serialize(&p))) {
                Ok(Ok(q)) => q == p,
                _ => false,
            };
            out.count("events");
            writeln!(fh, "{}", json!({"op": op, "pos": pos, "bi": bi, "ret": ret, "icount": p.n_inputs(), "ocount": p.n_outputs(),
                                      "ins": ins, "outs": outs, "sane": sane, "rt": rt})).unwrap();
        }
    }
    fh.flush().unwrap();
}
