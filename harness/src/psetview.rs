//! C08: BIP370 lock time, unique id under histories, extraction reflecting fields.
use crate::pools;
use crate::util::*;
use elements::bitcoin::bip32::{DerivationPath, Fingerprint};
use elements::locktime::{Height, Time};
use elements::pset::{Input, Output, PartiallySignedTransaction as Pset};
use elements::{confidential, LockTime, OutPoint, Script, Sequence, TxOut, Txid};
use serde_json::{json, Value};
use std::str::FromStr;

const TLO: u32 = 500_000_000;
const THI: u32 = 1_700_000_000;
const HLO: u32 = 100;
const HHI: u32 = 499_999_999;
const FH: u32 = 7;
const FT: u32 = 1_600_000_000;

fn base_pset(r: &mut Rng, nin: usize, nout: usize) -> Pset {
    let mut p = Pset::new_v2();
    for i in 0..nin {
        p.add_input(Input::from_prevout(OutPoint::new(Txid::from_byte_array(pools::bytes32(r)), i as u32)));
    }
    let asset = pools::asset_id(r);
    for j in 0..nout {
        p.add_output(Output::new_explicit(Script::from(vec![0x51, j as u8]), 1000 + j as u64, asset, None));
    }
    // the first input carries a blinded issuance (commitments only) and one further output carries commitments only
    if nin > 0 {
        let i = &mut p.inputs_mut()[0];
        i.issuance_value_comm = pools::conf_value(r).commitment();
        i.issuance_inflation_keys_comm = pools::conf_value(r).commitment();
        i.issuance_asset_entropy = Some(pools::bytes32(r));
        i.blinded_issuance = Some(1);
    }
    let mut oc = Output::new_explicit(Script::from(vec![0x51, 0x77]), 1, asset, None);
    oc.amount = None;
    oc.asset = None;
    oc.amount_comm = pools::conf_value(r).commitment();
    oc.asset_comm = pools::conf_asset(r).commitment();
    p.add_output(oc);
    p
}

fn want_lock(w: &Value) -> Result<LockTime, ()> {
    let kind = w[0].as_str().unwrap();
    let v = w[1].as_str().unwrap();
    match (kind, v) {
        ("fallback", "absent") => Ok(LockTime::ZERO),
        ("fallback", "fh") => Ok(LockTime::from_consensus(FH)),
        ("fallback", "ft") => Ok(LockTime::from_consensus(FT)),
        ("height", "hlo") => Ok(LockTime::from_consensus(HLO)),
        ("height", "hhi") => Ok(LockTime::from_consensus(HHI)),
        ("time", "tlo") => Ok(LockTime::from_consensus(TLO)),
        ("time", "thi") => Ok(LockTime::from_consensus(THI)),
        ("error", _) => Err(()),
        x => panic!("want {:?}", x),
    }
}

fn kind_of(l: &Result<LockTime, String>) -> String {
    match l {
        Err(_) => "error".into(),
        Ok(LockTime::Blocks(_)) => "height".into(),
        Ok(LockTime::Seconds(_)) => "time".into(),
    }
}

fn set_time(i: &mut Input, v: &str) {
    i.required_time_locktime = match v {
        "none" => None,
        "tlo" => Some(Time::from_consensus(TLO).unwrap()),
        "thi" => Some(Time::from_consensus(THI).unwrap()),
        x => panic!("{}", x),
    }
}
fn set_height(i: &mut Input, v: &str) {
    i.required_height_locktime = match v {
        "none" => None,
        "hlo" => Some(Height::from_consensus(HLO).unwrap()),
        "hhi" => Some(Height::from_consensus(HHI).unwrap()),
        x => panic!("{}", x),
    }
}
fn set_fallback(p: &mut Pset, v: &str) {
    p.global.tx_data.fallback_locktime = match v {
        "absent" => None,
        "fh" => Some(LockTime::from_consensus(FH)),
        "ft" => Some(LockTime::from_consensus(FT)),
        x => panic!("{}", x),
    }
}

fn check_lock(p: &Pset, want: &Value, case: &Value, out: &mut Out) {
    let got = guard(|| p.locktime());
    let got = match got {
        Err(pn) => {
            out.viol(&format!("C08/locktime/panic/{}", last_panic_loc()), case.clone(), pn);
            return;
        }
        Ok(g) => g.map_err(|e| e.to_string()),
    };
    let w = want_lock(want);
    let same = match (&got, &w) {
        (Ok(a), Ok(b)) => a == b,
        (Err(_), Err(())) => true,
        _ => false,
    };
    if !same {
        let key = if want[0] == kind_of(&got).as_str() {
            format!("C08/locktime/want={}/wrong-value", want[0].as_str().unwrap())
        } else {
            format!("C08/locktime/want={}/got={}", want[0].as_str().unwrap(), kind_of(&got))
        };
        out.viol(&key, case.clone(), format!("locktime() = {:?}, BIP370 prescribes {}", got, want));
    }
}

pub fn locktime(args: &[String], out: &mut Out) {
    let cases = read_ndjson(&arg(args, "--cases").expect("--cases"));
    let seed = arg_u64(args, "--seed", 1);
    for (ci, c) in cases.iter().enumerate() {
        out.count("distinct_cases");
        out.count("evaluations");
        if ci % 500 == 77 {
            out.sample(c.clone());
        }
        let mut r = rng(seed, ci as u64);
        let ins = c["ins"].as_array().unwrap();
        let mut p = base_pset(&mut r, ins.len(), 1);
        for (i, q) in ins.iter().enumerate() {
            set_time(&mut p.inputs_mut()[i], q["rt"].as_str().unwrap());
            set_height(&mut p.inputs_mut()[i], q["rh"].as_str().unwrap());
        }
        set_fallback(&mut p, c["fb"].as_str().unwrap());
        check_lock(&p, &c["want"], c, out);
        // extraction uses the same lock time
        if let (Ok(Ok(tx)), Ok(l)) = (guard(|| p.extract_tx()), want_lock(&c["want"])) {
            if tx.lock_time != l {
                out.viol(&format!("C08/extract/locktime/want={}", c["want"][0].as_str().unwrap()), c.clone(), format!("{:?}", tx.lock_time));
            }
        }
    }
}

fn keysource(r: &mut Rng) -> (Fingerprint, DerivationPath) {
    let b = pools::bytes32(r);
    (Fingerprint::from([b[0], b[1], b[2], b[3]]), DerivationPath::from_str("m/44'/0'/1").unwrap())
}

fn apply(p: &mut Pset, st: &Value, r: &mut Rng) {
    let pos = st["pos"].as_u64().unwrap() as usize;
    let f = st["f"].as_str().unwrap();
    match st["op"].as_str().unwrap() {
        "in_field" => {
            let i = &mut p.inputs_mut()[pos - 1];
            let pk = elements::bitcoin::PublicKey::new(pools::pubkey(r));
            let (xonly, _) = pools::pubkey(r).x_only_public_key();
            let leaf = elements::taproot::TapLeafHash::from_byte_array(pools::bytes32(r));
            let sig = elements::secp256k1_zkp::schnorr::Signature::from_slice(&[7u8; 64]).unwrap();
            let ssig = elements::SchnorrSig { sig, hash_ty: elements::SchnorrSighashType::Default };
            match f {
                "sequence" => i.sequence = Some(Sequence(0xffff_fffd)),
                "sequence_final" => i.sequence = Some(Sequence(0xffff_ffff)),
                "partial_sig" => { i.partial_sigs.insert(pk, vec![0x30, 0x06, 1, 2, 3, 4, 5, 6, 1]); }
                "tap_key_sig" => i.tap_key_sig = Some(ssig),
                "tap_script_sig" => { i.tap_script_sigs.insert((xonly, leaf), ssig); }
                "final_script_sig" => i.final_script_sig = Some(Script::from(vec![0x51, 0x52])),
                "final_script_witness" => i.final_script_witness = Some(vec![vec![1, 2, 3], vec![]]),
                "redeem_script" => i.redeem_script = Some(Script::from(vec![0x00, 0x14, 1, 2, 3])),
                "witness_script" => i.witness_script = Some(Script::from(vec![0x51])),
                "bip32_derivation" => { i.bip32_derivation.insert(pk, keysource(r)); }
                "tap_key_origin" => { i.tap_key_origins.insert(xonly, (vec![leaf], keysource(r))); }
                "witness_utxo" => i.witness_utxo = Some(TxOut { asset: confidential::Asset::Explicit(pools::asset_id(r)), value: confidential::Value::Explicit(5), nonce: confidential::Nonce::Null, script_pubkey: Script::from(vec![0x51]), witness: Default::default() }),
                "sighash_type" => i.sighash_type = Some(elements::EcdsaSighashType::All.into()),
                "issuance_value_proof" => i.in_issuance_blind_value_proof = Some(Box::new(pools::rangeproof_small(r))),
                "issuance_value_explicit" => { i.issuance_value_amount = Some(123_456); i.in_issuance_blind_value_proof = Some(Box::new(pools::rangeproof_small(r))); }
                "issuance_keys_explicit" => { i.issuance_inflation_keys = Some(7); i.in_issuance_blind_inflation_keys_proof = Some(Box::new(pools::rangeproof_small(r))); }
                x => panic!("in field {}", x),
            }
        }
        "out_field" => {
            let o = &mut p.outputs_mut()[pos - 1];
            let pk = elements::bitcoin::PublicKey::new(pools::pubkey(r));
            match f {
                "bip32_derivation" => { o.bip32_derivation.insert(pk, keysource(r)); }
                "value_proof" => o.blind_value_proof = Some(Box::new(pools::rangeproof_small(r))),
                "asset_proof" => o.blind_asset_proof = Some(Box::new(pools::surjectionproof(r, 1))),
                "tap_internal_key" => o.tap_internal_key = Some(pools::pubkey(r).x_only_public_key().0),
                "redeem_script" => o.redeem_script = Some(Script::from(vec![0x51])),
                x => panic!("out field {}", x),
            }
        }
        "commit_out_field" => {
            let o = &mut p.outputs_mut()[pos - 1];
            match f {
                "amount_explicit" => { o.amount = Some(4_242); o.blind_value_proof = Some(Box::new(pools::rangeproof_small(r))); }
                "asset_explicit" => { o.asset = Some(pools::asset_id(r)); o.blind_asset_proof = Some(Box::new(pools::surjectionproof(r, 1))); }
                x => panic!("commit out field {}", x),
            }
        }
        "req_time" => set_time(&mut p.inputs_mut()[pos - 1], f),
        "req_height" => set_height(&mut p.inputs_mut()[pos - 1], f),
        "fallback" => set_fallback(p, f),
        "amount" => p.outputs_mut()[pos - 1].amount = Some(777_777),
        x => panic!("op {}", x),
    }
}

pub fn history(args: &[String], out: &mut Out) {
    let cases = read_ndjson(&arg(args, "--cases").expect("--cases"));
    let seed = arg_u64(args, "--seed", 1);
    for (ci, c) in cases.iter().enumerate() {
        out.count("distinct_cases");
        if ci % 700 == 13 {
            out.sample(c.clone());
        }
        let mut r = rng(seed, 0x1000_0000 + ci as u64);
        let mut p = base_pset(&mut r, 2, 2);
        let id0 = match guard(|| p.unique_id()) {
            Ok(Ok(id)) => id,
            other => {
                out.viol("C08/unique-id/initial", c.clone(), format!("{:?}", other.map(|r| r.map_err(|e| e.to_string()))));
                continue;
            }
        };
        for (si, st) in c["steps"].as_array().unwrap().iter().enumerate() {
            out.count("evaluations");
            apply(&mut p, st, &mut r);
            let case = json!({"steps": c["steps"], "at": si});
            check_lock(&p, &st["lock"], &case, out);
            let opf = format!("{}/{}", st["op"].as_str().unwrap(), st["f"].as_str().unwrap());
            let want_same = st["same"].as_bool().unwrap();
            let lock_err = st["lock"][0] == "error";
            match guard(|| p.unique_id()) {
                Err(pn) => out.viol(&format!("C08/unique-id/panic/{}", last_panic_loc()), case.clone(), pn),
                Ok(Err(e)) => {
                    if !lock_err {
                        out.viol(&format!("C08/unique-id/error/{}", opf), case.clone(), e.to_string());
                    }
                }
                Ok(Ok(id)) => {
                    if lock_err {
                        out.viol("C08/unique-id/ok-despite-locktime-conflict", case.clone(), String::new());
                    } else if want_same && id != id0 {
                        // attribute to the first non-identifying field present that matters: the step just taken
                        out.viol(&format!("C08/unique-id/changed-by/{}", opf), case.clone(), "unique id changed by a non-identifying addition".into());
                        break;
                    } else if !want_same && id == id0 {
                        out.viol(&format!("C08/unique-id/unchanged-by/{}", opf), case.clone(), "unique id blind to identifying data".into());
                    }
                }
            }
            // extraction is deterministic and reflects the fields
            if !lock_err {
                match (guard(|| p.extract_tx()), guard(|| p.extract_tx())) {
                    (Ok(Ok(a)), Ok(Ok(b))) => {
                        if a != b {
                            out.viol("C08/extract/nondeterministic", case.clone(), String::new());
                        }
                        for (k, inp) in p.inputs().iter().enumerate() {
                            let t = &a.input[k];
                            if t.sequence != inp.sequence.unwrap_or(Sequence::MAX) {
                                out.viol("C08/extract/sequence", case.clone(), String::new());
                            }
                            if t.script_sig != inp.final_script_sig.clone().unwrap_or_default() {
                                out.viol("C08/extract/script_sig", case.clone(), String::new());
                            }
                            if t.witness.script_witness != inp.final_script_witness.clone().unwrap_or_default() {
                                out.viol("C08/extract/script_witness", case.clone(), String::new());
                            }
                            if inp.issuance_value_comm.is_some() && (t.asset_issuance.amount.commitment() != inp.issuance_value_comm || t.asset_issuance.inflation_keys.commitment() != inp.issuance_inflation_keys_comm) {
                                out.viol("C08/extract/issuance-commitment-not-used", case.clone(), String::new());
                            }
                            if t.previous_output.txid != inp.previous_txid {
                                out.viol("C08/extract/prevout", case.clone(), String::new());
                            }
                        }
                        for (k, o) in p.outputs().iter().enumerate() {
                            if o.amount_comm.is_some() {
                                // commitments win over explicit values stored next to them
                                if a.output[k].value.commitment() != o.amount_comm || a.output[k].asset.commitment() != o.asset_comm { out.viol("C08/extract/output-commitment-not-used", case.clone(), String::new()); }
                            } else if a.output[k].value.explicit() != o.amount || a.output[k].script_pubkey != o.script_pubkey {
                                out.viol("C08/extract/output", case.clone(), String::new());
                            }
                        }
                    }
                    other => out.viol("C08/extract/error", case.clone(), format!("{:?}", other.0.map(|r| r.map(|_| ()).map_err(|e| e.to_string())))),
                }
            }
        }
    }
}

fn lock_json(l: &Result<LockTime, String>) -> Value {
    match l {
        Err(_) => json!(["error", "none"]),
        Ok(lt) => {
            let n = lt.to_consensus_u32();
            let (k, v) = match n {
                0 => ("fallback", "absent"),
                FH => ("fallback", "fh"),
                FT => ("fallback", "ft"),
                HLO => ("height", "hlo"),
                HHI => ("height", "hhi"),
                TLO => ("time", "tlo"),
                THI => ("time", "thi"),
                _ => ("unknown", "unknown"),
            };
            json!([k, v])
        }
    }
}

/// Direction B recorder: long random histories over 3 inputs / 2 outputs.
pub fn record(args: &[String], out: &mut Out) {
    use rand::RngCore;
    use std::io::Write;
    let seed = arg_u64(args, "--seed", 1);
    let sessions = arg_u64(args, "--sessions", 200);
    let maxlen = arg_u64(args, "--maxlen", 25);
    let path = arg(args, "--out").expect("--out");
    let mut f = std::io::BufWriter::new(std::fs::File::create(&path).expect("create trace"));
    let mut r = rng(seed, 0xc08b);
    let in_fields = ["sequence", "sequence_final", "partial_sig", "tap_key_sig", "tap_script_sig", "final_script_sig", "final_script_witness", "redeem_script",
        "witness_script", "bip32_derivation", "tap_key_origin", "witness_utxo", "sighash_type", "issuance_value_proof"];
    let out_fields = ["bip32_derivation", "value_proof", "asset_proof", "tap_internal_key", "redeem_script"];
    let mut events = 0u64;
    for _ in 0..sessions {
        let mut p = base_pset(&mut r, 3, 2);
        let id0 = p.unique_id().ok();
        writeln!(f, "{}", json!({"op":"reset","pos":0,"f":"","same":true,"lock":["fallback","absent"]})).unwrap();
        events += 1;
        let n = 1 + r.next_u64() % maxlen;
        for _ in 0..n {
            let pick = |r: &mut Rng, k: usize| (r.next_u32() as usize) % k;
            let st = match pick(&mut r, 10) {
                0..=3 => json!({"op":"in_field","pos":1+pick(&mut r,3),"f":in_fields[pick(&mut r,in_fields.len())]}),
                4 => match pick(&mut r, 4) {
                    0 => json!({"op":"in_field","pos":1,"f":(["issuance_value_explicit","issuance_keys_explicit"][pick(&mut r,2)])}),
                    1 => json!({"op":"commit_out_field","pos":3,"f":(["amount_explicit","asset_explicit"][pick(&mut r,2)])}),
                    _ => json!({"op":"out_field","pos":1+pick(&mut r,2),"f":out_fields[pick(&mut r,out_fields.len())]}),
                },
                5 | 6 => json!({"op":"req_time","pos":1+pick(&mut r,3),"f":(["tlo","thi"][pick(&mut r,2)])}),
                7 | 8 => json!({"op":"req_height","pos":1+pick(&mut r,3),"f":(["hlo","hhi"][pick(&mut r,2)])}),
                _ => if pick(&mut r, 3) == 0 { json!({"op":"amount","pos":1+pick(&mut r,2),"f":"a2"}) } else { json!({"op":"fallback","pos":0,"f":(["absent","fh","ft"][pick(&mut r,3)])}) },
            };
            apply(&mut p, &st, &mut r);
            let res = guard(|| (p.locktime().map_err(|e| e.to_string()), p.unique_id().ok()));
            match res {
                Ok((lock, id)) => {
                    let same = id.is_some() && id == id0;
                    let mut e = st.clone();
                    e["same"] = json!(same);
                    e["lock"] = lock_json(&lock);
                    writeln!(f, "{}", e).unwrap();
                    events += 1;
                }
                Err(pn) => {
                    out.viol(&format!("C08/panic/{}", last_panic_loc()), st.clone(), pn);
                    break;
                }
            }
        }
        out.count("traces");
    }
    out.add("events", events);
}

/// C08 part (c): from_tx -> extract_tx on every well-formed transaction shape of the Wire family.
pub fn roundtrip(args: &[String], out: &mut Out) {
    let cases = read_ndjson(&arg(args, "--cases").expect("--cases"));
    let seed = arg_u64(args, "--seed", 1);
    let mut classes = std::collections::BTreeSet::new();
    for (ci, c) in cases.iter().enumerate() {
        if !c["wf"].as_bool().unwrap() {
            out.count("skipped_ill_formed");
            continue;
        }
        out.count("evaluations");
        let cls = crate::wire::tx_class(&c["tx"]);
        classes.insert(cls.clone());
        let mut r = rng(seed, 0x0800_0000 + ci as u64);
        let ctx = crate::wire::fill_tx(&c["tx"], &mut r);
        let case = json!({"class": cls, "case_index": ci, "seed": seed});
        let expl_nonce = c["expl_nonce"].as_bool().unwrap();
        let res = guard(|| {
            let mut bad: Vec<(String, String)> = vec![];
            let tx = crate::wire::build_tx(&c["tx"], &ctx);
            let pset = Pset::from_tx(tx.clone());
            match pset.extract_tx() {
                Err(e) => bad.push((format!("C08/roundtrip/extract-error/{}", cls), e.to_string())),
                Ok(back) => {
                    if back != tx || elements::encode::serialize(&back) != elements::encode::serialize(&tx) {
                        // name the first field that differs
                        let mut what = String::from("?");
                        if back.version != tx.version { what = "version".into(); }
                        else if back.lock_time != tx.lock_time { what = "lock_time".into(); }
                        else {
                            for (k, (a, b)) in back.input.iter().zip(tx.input.iter()).enumerate() {
                                if a != b {
                                    what = if a.previous_output != b.previous_output { "input.previous_output" } else if a.is_pegin != b.is_pegin {
                                        if b.previous_output.vout == 0xffff_ffff { "input.is_pegin/null-outpoint" } else { "input.is_pegin" } }
                                        else if a.asset_issuance != b.asset_issuance { "input.asset_issuance" } else if a.witness != b.witness { "input.witness" }
                                        else if a.script_sig != b.script_sig { "input.script_sig" } else { "input.sequence" }.to_string();
                                    let _ = k;
                                    break;
                                }
                            }
                            for (a, b) in back.output.iter().zip(tx.output.iter()) {
                                if a != b {
                                    what = if a.nonce != b.nonce {
                                        match b.nonce { elements::confidential::Nonce::Explicit(_) => "output.nonce/explicit",
                                            _ => if b.asset.is_explicit() && b.value.is_explicit() { "output.nonce/confidential-on-explicit-output" } else { "output.nonce/confidential" } }
                                    } else if a.asset != b.asset { "output.asset" } else if a.value != b.value { "output.value" }
                                      else if a.witness != b.witness { "output.witness" } else { "output.script" }.to_string();
                                    break;
                                }
                            }
                        }
                        let _ = expl_nonce;
                        bad.push((format!("C08/roundtrip/{}", what), format!("class {}", cls)));
                    }
                }
            }
            bad
        });
        match res {
            Ok(bad) => for (k, d) in bad { out.viol(&k, case.clone(), d); },
            Err(p) => out.viol(&format!("C08/panic/{}", last_panic_loc()), case, p),
        }
    }
    out.add("distinct_classes", classes.len() as u64);
    out.sample(json!({"note": "every well-formed Wire shape: from_tx then extract_tx must return the identical transaction (== and bytes)"}));
}
