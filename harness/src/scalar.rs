//! Independent arithmetic modulo the secp256k1 group order (the field the blinding factors live in).
//! Used to evaluate the specification's balance equations over the real field.
#[derive(Clone, Copy, PartialEq, Eq, Debug)]
pub struct Sc(pub [u64; 4]); // little-endian limbs

pub const N: Sc = Sc([0xBFD25E8CD0364141, 0xBAAEDCE6AF48A03B, 0xFFFFFFFFFFFFFFFE, 0xFFFFFFFFFFFFFFFF]);
pub const ZERO: Sc = Sc([0, 0, 0, 0]);

fn geq(a: &Sc, b: &Sc) -> bool {
    for i in (0..4).rev() {
        if a.0[i] != b.0[i] {
            return a.0[i] > b.0[i];
        }
    }
    true
}
fn add_raw(a: &Sc, b: &Sc) -> (Sc, bool) {
    let mut r = [0u64; 4];
    let mut c = 0u128;
    for i in 0..4 {
        let s = a.0[i] as u128 + b.0[i] as u128 + c;
        r[i] = s as u64;
        c = s >> 64;
    }
    (Sc(r), c != 0)
}
fn sub_raw(a: &Sc, b: &Sc) -> Sc {
    let mut r = [0u64; 4];
    let mut borrow = 0i128;
    for i in 0..4 {
        let d = a.0[i] as i128 - b.0[i] as i128 - borrow;
        if d < 0 {
            r[i] = (d + (1i128 << 64)) as u64;
            borrow = 1;
        } else {
            r[i] = d as u64;
            borrow = 0;
        }
    }
    Sc(r)
}
impl Sc {
    pub fn from_be(b: &[u8]) -> Sc {
        assert_eq!(b.len(), 32);
        let mut l = [0u64; 4];
        for i in 0..4 {
            let mut x = [0u8; 8];
            x.copy_from_slice(&b[8 * (3 - i)..8 * (3 - i) + 8]);
            l[i] = u64::from_be_bytes(x);
        }
        let s = Sc(l);
        if geq(&s, &N) { sub_raw(&s, &N) } else { s }
    }
    pub fn to_be(&self) -> [u8; 32] {
        let mut b = [0u8; 32];
        for i in 0..4 {
            b[8 * (3 - i)..8 * (3 - i) + 8].copy_from_slice(&self.0[i].to_be_bytes());
        }
        b
    }
    pub fn from_u64(v: u64) -> Sc {
        Sc([v, 0, 0, 0])
    }
    pub fn add(&self, o: &Sc) -> Sc {
        let (s, carry) = add_raw(self, o);
        if carry || geq(&s, &N) { sub_raw(&s, &N) } else { s }
    }
    pub fn neg(&self) -> Sc {
        if *self == ZERO { ZERO } else { sub_raw(&N, self) }
    }
    pub fn sub(&self, o: &Sc) -> Sc {
        self.add(&o.neg())
    }
    pub fn mul(&self, o: &Sc) -> Sc {
        let mut r = ZERO;
        for i in (0..4).rev() {
            for bit in (0..64).rev() {
                r = r.add(&r);
                if (o.0[i] >> bit) & 1 == 1 {
                    r = r.add(self);
                }
            }
        }
        r
    }
    /// blinding scalar of a commitment: v * abf + vbf
    pub fn r(v: u64, abf: &[u8], vbf: &[u8]) -> Sc {
        Sc::from_u64(v).mul(&Sc::from_be(abf)).add(&Sc::from_be(vbf))
    }
}

pub fn selftest() -> bool {
    let a = Sc::from_be(&[0xabu8; 32]);
    let b = Sc::from_be(&[0x37u8; 32]);
    let one = Sc::from_u64(1);
    a.add(&b).sub(&b) == a && a.mul(&one) == a && a.add(&a.neg()) == ZERO && a.mul(&b) == b.mul(&a)
        && N.sub(&one).add(&one) == ZERO && a.mul(&b.add(&one)) == a.mul(&b).add(&a)
}
