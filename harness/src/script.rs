//! C16: builder sequences, instruction iteration, script numbers, template predicates, from_script.
use crate::pools;
use crate::util::*;
use elements::opcodes;
use elements::script::{read_scriptint, Builder, Instruction};
use elements::{Address, AddressParams, Script};
use rand::RngCore;
use serde_json::{json, Value};
use std::str::FromStr;

fn class_byte(cls: &str, r: &mut Rng) -> u8 {
    match cls {
        "zero" => 0,
        "small" => 1 + (r.next_u32() % 16) as u8,
        "neg1" => 0x81,
        _ => loop { let b = r.next_u32() as u8; if b > 16 && b != 0x81 { return b; } },
    }
}

pub fn sequences(args: &[String], out: &mut Out) {
    let cases = read_ndjson(&arg(args, "--cases").expect("--cases"));
    let seed = arg_u64(args, "--seed", 1);
    for (ci, c) in cases.iter().enumerate() {
        out.count("distinct_cases");
        out.count("evaluations");
        if ci % 400 == 21 { out.sample(json!({"ops": c["ops"], "intended": c["intended"]})); }
        let mut r = rng(seed, 0x1600_0000 + ci as u64);
        let ops = c["ops"].as_array().unwrap();
        let label: Vec<String> = ops.iter().map(|o| match o["k"].as_str().unwrap() {
            "opcode" => format!("op{:02x}", o["b"].as_u64().unwrap()), "int" => format!("int({})", o["v"]), "scriptint" => format!("scriptint({})", o["v"]),
            "slice" => format!("slice({},{})", o["n"], o["cls"].as_str().unwrap()), _ => "verify".to_string() }).collect();
        let cls = label.join(";");
        let case = json!({"ops": c["ops"], "case_index": ci, "seed": seed});
        let res = guard(|| {
            let mut bad: Vec<(String, String)> = vec![];
            let mut b = Builder::new();
            let mut datas: Vec<Vec<u8>> = vec![];
            for o in ops {
                b = match o["k"].as_str().unwrap() {
                    "opcode" => b.push_opcode(opcodes::All::from(o["b"].as_u64().unwrap() as u8)),
                    "int" => b.push_int(o["v"].as_i64().unwrap()),
                    "scriptint" => b.push_scriptint(o["v"].as_i64().unwrap()),
                    "slice" => {
                        let n = o["n"].as_u64().unwrap() as usize;
                        let mut d = pools::rbytes(&mut r, n);
                        if n > 0 { d[0] = class_byte(o["cls"].as_str().unwrap(), &mut r); }
                        datas.push(d.clone());
                        b.push_slice(&d)
                    }
                    _ => b.push_verify(),
                };
            }
            let script = b.into_script();
            // the same sequence with the builder taken apart into bytes and put together again (Builder::from) before the last
            // operation: the remembered last opcode must survive the trip
            if ops.len() >= 2 {
                let mut r2 = rng(seed, 0x1600_0000 + ci as u64);
                let mut b2 = Builder::new();
                for (k, o) in ops.iter().enumerate() {
                    if k + 1 == ops.len() { b2 = Builder::from(b2.into_script().into_bytes()); }
                    b2 = match o["k"].as_str().unwrap() {
                        "opcode" => b2.push_opcode(opcodes::All::from(o["b"].as_u64().unwrap() as u8)),
                        "int" => b2.push_int(o["v"].as_i64().unwrap()),
                        "scriptint" => b2.push_scriptint(o["v"].as_i64().unwrap()),
                        "slice" => {
                            let n = o["n"].as_u64().unwrap() as usize;
                            let mut d = pools::rbytes(&mut r2, n);
                            if n > 0 { d[0] = class_byte(o["cls"].as_str().unwrap(), &mut r2); }
                            b2.push_slice(&d)
                        }
                        _ => b2.push_verify(),
                    };
                }
                if b2.into_script() != script { bad.push((format!("C16/builder/from-bytes-hop/{}", cls), "rebuilding the builder from its bytes before the last operation changes the result".into())); }
            }
            // expected bytes from the specification's items; runs are filled from the data pushed, in order
            let intended = c["intended"].as_array().unwrap();
            let numbytes = c["numbytes"].as_array().unwrap();
            let mut run_data: Vec<Vec<u8>> = vec![];
            let mut di = 0;
            for (k, ins) in intended.iter().enumerate() {
                if ins[0] == "push" && ins[1].as_u64().unwrap() > 0 {
                    let nb: Vec<u8> = numbytes[k].as_array().unwrap().iter().map(|x| x.as_u64().unwrap() as u8).collect();
                    if !nb.is_empty() { run_data.push(nb); } else { run_data.push(datas.get(di).cloned().unwrap_or_default()); }
                }
                if ins[0] == "push" && numbytes[k].as_array().unwrap().is_empty() && c["nums"][k] == 0 && ops.iter().filter(|o| o["k"] == "slice").count() > di && ins[1].as_u64().unwrap() as usize == datas.get(di).map_or(usize::MAX, |d| d.len()) { di += 1; }
            }
            let mut want = vec![];
            let mut ri = 0;
            for it in c["items"].as_array().unwrap() {
                if it[0] == "b" { want.push(it[1].as_u64().unwrap() as u8); } else { want.extend_from_slice(run_data.get(ri).map(|v| &v[..]).unwrap_or(&[])); ri += 1; }
            }
            if script.as_bytes() != &want[..] { bad.push((format!("C16/builder/bytes/{}", cls), format!("impl {} spec {}", hex(&script.as_bytes()[..script.len().min(12)]), hex(&want[..want.len().min(12)])))); }
            // iteration yields exactly what was added
            let got: Vec<Result<Instruction, elements::script::Error>> = script.instructions().collect();
            if got.len() != intended.len() { bad.push((format!("C16/instructions/count/{}", cls), format!("{} vs {}", got.len(), intended.len()))); }
            let mut ri = 0;
            for (k, ins) in intended.iter().enumerate() {
                match (got.get(k), ins[0].as_str().unwrap()) {
                    (Some(Ok(Instruction::Op(op))), "op") => { if op.into_u8() as u64 != ins[1].as_u64().unwrap() { bad.push((format!("C16/instructions/opcode/{}", cls), String::new())); } }
                    (Some(Ok(Instruction::PushBytes(d))), "push") => {
                        let n = ins[1].as_u64().unwrap() as usize;
                        let exp: &[u8] = if n == 0 { &[] } else { let e = &run_data[ri]; ri += 1; e };
                        if d.len() != n || *d != exp { bad.push((format!("C16/instructions/push/{}", cls), format!("len {} vs {}", d.len(), n))); }
                        let v = c["nums"][k].as_i64().unwrap();
                        if !numbytes[k].as_array().unwrap().is_empty() && read_scriptint(d).ok() != Some(v) { bad.push((format!("C16/scriptint/read-back/{}", v), format!("{:?}", read_scriptint(d)))); }
                    }
                    (other, kind) => bad.push((format!("C16/instructions/kind/{}", cls), format!("{:?} vs {}", other.map(|x| x.is_ok()), kind))),
                }
            }
            let min: Vec<Result<Instruction, elements::script::Error>> = script.instructions_minimal().collect();
            let min_ok = min.iter().all(|x| x.is_ok());
            if c["minimal_ok"].as_bool().unwrap() {
                if !min_ok || min.len() != intended.len() { bad.push((format!("C16/instructions_minimal/builder-output-not-minimal/{}", cls), String::new())); }
            } else if min_ok { bad.push((format!("C16/instructions_minimal/explicit-small-push-accepted/{}", cls), String::new())); }
            bad
        });
        match res { Ok(bad) => for (k, d) in bad { out.viol(&k, case.clone(), d); }, Err(p) => out.viol(&format!("C16/panic/{}", last_panic_loc()), case, p) }
    }
}

/// every opcode byte through the builder and the iterator (the opcode tables have 256 entries)
fn opcode_sweep(out: &mut Out) {
    for b in 0u16..=255 {
        let b = b as u8;
        out.count("evaluations");
        let case = json!({"opcode_byte": b});
        let res = guard(|| {
            let op = elements::opcodes::All::from(b);
            let s = Builder::new().push_opcode(elements::opcodes::all::OP_DUP).push_opcode(op).into_script();
            let ins: Vec<String> = s.instructions().map(|i| format!("{:?}", i.map(|x| match x { Instruction::Op(o) => format!("op{}", o.into_u8()), Instruction::PushBytes(p) => format!("push{}", p.len()) }))).collect();
            let _ = format!("{:?} {} {:?}", op, s.asm(), op.classify(elements::opcodes::ClassifyContext::Legacy));
            (op.into_u8(), s.to_bytes(), ins)
        });
        match res {
            Err(p) => out.viol(&format!("C16/opcode/panic/{:#04x}", b), case, p),
            Ok((back, bytes, ins)) => {
                if back != b || bytes != vec![0x76, b] { out.viol(&format!("C16/opcode/byte-roundtrip/{:#04x}", b), case.clone(), format!("{:?}", bytes)); }
                // an opcode that is not a push prefix is iterated as itself
                if b >= 0x4f && ins != vec!["Ok(\"op118\")".to_string(), format!("Ok(\"op{}\")", b)] { out.viol(&format!("C16/opcode/iteration/{:#04x}", b), case, format!("{:?}", ins)); }
            }
        }
    }
}

pub fn numbers(args: &[String], out: &mut Out) {
    opcode_sweep(out);
    let cases = read_ndjson(&arg(args, "--cases").expect("--cases"));
    for c in &cases {
        out.count("distinct_cases");
        out.count("evaluations");
        let v = c["v"].as_i64().unwrap();
        let want: Vec<u8> = c["bytes"].as_array().unwrap().iter().map(|x| x.as_u64().unwrap() as u8).collect();
        // build_scriptint is private: observe it through push_scriptint (skip the push prefix)
        let pushed = Builder::new().push_scriptint(v).into_script().to_bytes();
        let got = pushed[1.min(pushed.len())..].to_vec();
        if got != want { out.viol(&format!("C16/scriptint/encoding/{}", v), c.clone(), format!("impl {} spec {}", hex(&got), hex(&want))); }
        if read_scriptint(&want).ok() != Some(v) { out.viol(&format!("C16/scriptint/read-back/{}", v), c.clone(), String::new()); }
    }
    out.sample(json!({"numbers": cases.len()}));
}

pub fn templates(args: &[String], out: &mut Out) {
    let cases = read_ndjson(&arg(args, "--cases").expect("--cases"));
    let seed = arg_u64(args, "--seed", 1);
    let mut r = rng(seed, 0x16a);
    let blinder = pools::pubkey(&mut r);
    let nets: [&'static AddressParams; 3] = [&AddressParams::LIQUID, &AddressParams::ELEMENTS, &AddressParams::LIQUID_TESTNET];
    for (ci, c) in cases.iter().enumerate() {
        out.count("distinct_cases");
        out.count("evaluations");
        let bytes: Vec<u8> = c["bytes"].as_array().unwrap().iter().map(|x| x.as_u64().unwrap() as u8).collect();
        let s = Script::from(bytes.clone());
        if ci % 1500 == 40 { out.sample(json!({"script": hex(&bytes), "addr": c["addr"]})); }
        let shape = format!("len{}/{:02x?}", bytes.len(), &bytes[..bytes.len().min(2)]);
        let case = json!({"script": hex(&bytes)});
        let res = guard(|| {
            let mut bad: Vec<(String, String)> = vec![];
            let preds: [(&str, bool); 10] = [("p2pkh", s.is_p2pkh()), ("p2sh", s.is_p2sh()), ("p2pk", s.is_p2pk()), ("witprog", s.is_witness_program()), ("p2wpkh", s.is_v0_p2wpkh()),
                ("p2wsh", s.is_v0_p2wsh()), ("p2tr", s.is_v1_p2tr()), ("v1plus", s.is_v1plus_p2witprog()), ("opreturn", s.is_op_return()), ("unspendable", s.is_provably_unspendable())];
            for (name, got) in preds {
                if got != c[name].as_bool().unwrap() {
                    let key = if name == "v1plus" && bytes.len() < 4 { "C16/template/is_v1plus_p2witprog/short-program".to_string() } else { format!("C16/template/is_{}/{}", name, if got { "false-positive" } else { "false-negative" }) };
                    bad.push((key, shape.clone()));
                }
            }
            let want_addr = c["addr"].as_str().unwrap();
            // the text form regroups the program into 5-bit symbols: programs of all-one and all-zero bits reach every padding position
            let mut variants = vec![s.clone()];
            if want_addr != "none" && s.is_witness_program() {
                for fill in [0xffu8, 0x00, 0x01] { let mut b = bytes.clone(); for x in b[2..].iter_mut() { *x = fill; } variants.push(Script::from(b)); }
            }
            for (s, net) in variants.iter().flat_map(|v| nets.iter().map(move |n| (v, *n))) {
                for bl in [None, Some(blinder)] {
                    match Address::from_script(s, bl, net) {
                        None => { if want_addr != "none" { bad.push((format!("C16/from_script/missing/{}", want_addr), shape.clone())); } }
                        Some(a) => {
                            if want_addr == "none" {
                                bad.push((if bytes.len() < 4 { "C16/from_script/v1plus-short-program".to_string() } else { "C16/from_script/unexpected-address".to_string() }, shape.clone()));
                            }
                            if a.script_pubkey() != *s { bad.push(("C16/from_script/script_pubkey-differs".into(), shape.clone())); }
                            match Address::from_str(&a.to_string()) {
                                Ok(a2) if a2 == a => {}
                                other => bad.push((if want_addr == "none" && bytes.len() < 4 { "C16/from_script/v1plus-short-program/text-does-not-parse".to_string() } else { "C16/from_script/text-does-not-parse-back".to_string() }, format!("{} -> {:?}", a, other.map(|x| x.to_string()).map_err(|e| e.to_string())))),
                            }
                        }
                    }
                }
            }
            bad
        });
        match res { Ok(bad) => for (k, d) in bad { out.viol(&k, case.clone(), d); }, Err(p) => out.viol(&format!("C16/panic/{}", last_panic_loc()), case, p) }
    }
}
