//! C20: serde (JSON, CBOR) and Display/FromStr round trips; emitted field names vs SerdeShape.
use crate::pools;
use crate::psetbuild;
use crate::util::*;
use crate::wire::{build_tx, fill_tx, tx_class};
use elements::hashes::Hash as _;
use serde::de::DeserializeOwned;
use serde::Serialize;
use serde_json::{json, Value};
use std::fmt::{Debug, Display};
use std::str::FromStr;

fn rt<T: Serialize + DeserializeOwned + PartialEq + Debug>(name: &str, cls: &str, v: &T, out: &mut Out) {
    out.count("evaluations");
    let res = guard(|| {
        let mut bad: Vec<(String, String)> = vec![];
        match serde_json::to_string(v) {
            Err(e) => bad.push((format!("C20/json/serialize/{}", name), e.to_string())),
            Ok(s) => match serde_json::from_str::<T>(&s) {
                Ok(b) if b == *v => {}
                Ok(_) => bad.push((format!("C20/json/roundtrip-differs/{}", name), cls.to_string())),
                Err(e) => bad.push((format!("C20/json/deserialize/{}", name), format!("{} [{}]", e, cls))),
            },
        }
        match serde_cbor::to_vec(v) {
            Err(e) => bad.push((format!("C20/cbor/serialize/{}", name), e.to_string())),
            Ok(s) => match serde_cbor::from_slice::<T>(&s) {
                Ok(b) if b == *v => {}
                Ok(_) => bad.push((format!("C20/cbor/roundtrip-differs/{}", name), cls.to_string())),
                Err(e) => bad.push((format!("C20/cbor/deserialize/{}", name), format!("{} [{}]", e, cls))),
            },
        }
        bad
    });
    match res { Ok(bad) => for (k, d) in bad { out.viol(&k, json!({"type": name, "class": cls}), d); }, Err(p) => out.viol(&format!("C20/panic/{}/{}", name, last_panic_loc()), json!({"class": cls}), p) }
}

fn keys_check<T: Serialize>(shapes: &[Value], ty: &str, variant: &str, v: &T, out: &mut Out) {
    let Some(sh) = shapes.iter().find(|s| s["ty"] == ty && s["variant"] == variant) else { return };
    let want: Vec<&str> = sh["keys"].as_array().unwrap().iter().map(|x| x.as_str().unwrap()).collect();
    // serde_json::Value collapses duplicate names: look at the text to see what is really emitted
    let text = serde_json::to_string(v).unwrap_or_default();
    let val: Value = serde_json::from_str(&text).unwrap_or(Value::Null);
    let got: Vec<String> = top_level_keys(&text);
    let _ = val;
    out.count("evaluations");
    if got != want {
        out.viol(&format!("C20/keys/{}{}{}", ty, if variant.is_empty() { "" } else { "/" }, variant), json!({"impl": got, "spec": want}), "emitted field names differ from the specification".into());
    }
    if !sh["dupfree"].as_bool().unwrap() && ty == "PsetGlobal" {
        // the specification itself says this shape cannot round-trip; reported by the round-trip check
    }
}

/// names of the top-level object's entries, in order, duplicates kept
fn top_level_keys(text: &str) -> Vec<String> {
    let b = text.as_bytes();
    let mut keys = vec![];
    let (mut depth, mut i) = (0i32, 0usize);
    let mut expect_key = false;
    while i < b.len() {
        match b[i] {
            b'{' | b'[' => { depth += 1; if depth == 1 && b[i] == b'{' { expect_key = true; } i += 1; }
            b'}' | b']' => { depth -= 1; i += 1; }
            b',' => { if depth == 1 { expect_key = true; } i += 1; }
            b'"' => {
                let start = i + 1;
                i += 1;
                while i < b.len() && b[i] != b'"' { if b[i] == b'\\' { i += 1; } i += 1; }
                if depth == 1 && expect_key { keys.push(text[start..i].to_string()); expect_key = false; }
                i += 1;
            }
            _ => i += 1,
        }
    }
    keys
}

fn strtab<T: Display + FromStr + PartialEq + Debug>(name: &str, v: &T, want_text: Option<&str>, out: &mut Out) {
    out.count("evaluations");
    let s = v.to_string();
    if let Some(w) = want_text { if s != w { out.viol(&format!("C20/display/{}", name), json!({"impl": s, "spec": w}), String::new()); } }
    match T::from_str(&s) { Ok(b) if b == *v => {}, _ => out.viol(&format!("C20/fromstr-display/{}", name), json!({"text": s}), "printed form does not parse back to an equal value".into()) }
}

pub fn replay(args: &[String], out: &mut Out) {
    let shapes = read_ndjson(&arg(args, "--shapes").expect("--shapes"));
    let strings = read_ndjson(&arg(args, "--strings").expect("--strings"));
    let bases = read_ndjson(&arg(args, "--bases").expect("--bases"));
    let headers = arg(args, "--headers").map(|p| read_ndjson(&p)).unwrap_or_default();
    let seed = arg_u64(args, "--seed", 1);
    let stride = arg_u64(args, "--stride", 5) as usize;
    let mut r = rng(seed, 0x20);
    let mut classes = std::collections::BTreeSet::new();
    // transactions and their pieces over the structural variety of the Wire family
    for (ci, c) in bases.iter().enumerate() {
        if ci % stride != 0 || c["toks"].as_array().unwrap().len() > 300 { continue; }
        let ctx = fill_tx(&c["tx"], &mut r);
        let tx = build_tx(&c["tx"], &ctx);
        let cls = tx_class(&c["tx"]);
        classes.insert(cls.clone());
        rt("Transaction", &cls, &tx, out);
        if ci % (stride * 7) == 0 { keys_check(&shapes, "Transaction", "", &tx, out); }
        for i in tx.input.iter().take(2) {
            rt("TxIn", &cls, i, out);
            rt("TxInWitness", &cls, &i.witness, out);
            rt("AssetIssuance", &cls, &i.asset_issuance, out);
            rt("OutPoint", &cls, &i.previous_output, out);
            rt("Script", &cls, &i.script_sig, out);
            rt("Sequence", &cls, &i.sequence, out);
            strtab("OutPoint", &i.previous_output, None, out);
            if ci % (stride * 7) == 0 { keys_check(&shapes, "TxIn", "", i, out); keys_check(&shapes, "TxInWitness", "", &i.witness, out); keys_check(&shapes, "AssetIssuance", "", &i.asset_issuance, out); }
        }
        for o in tx.output.iter().take(2) {
            rt("TxOut", &cls, o, out);
            rt("TxOutWitness", &cls, &o.witness, out);
            rt("confidential::Asset", &cls, &o.asset, out);
            rt("confidential::Value", &cls, &o.value, out);
            rt("confidential::Nonce", &cls, &o.nonce, out);
            if ci % (stride * 7) == 0 { keys_check(&shapes, "TxOut", "", o, out); keys_check(&shapes, "TxOutWitness", "", &o.witness, out); }
        }
        rt("Txid", &cls, &tx.txid(), out);
        rt("Wtxid", &cls, &tx.wtxid(), out);
        rt("LockTime", &cls, &tx.lock_time, out);
        strtab("Txid", &tx.txid(), None, out);
        strtab("LockTime", &tx.lock_time, None, out);
    }
    // headers, blocks, params
    for (ci, c) in headers.iter().enumerate() {
        let mut ctx = crate::tok::Ctx::new();
        let h = crate::wire::header_from_case(c, &mut r, &mut ctx);
        let cls = format!("header{}", ci % 9);
        rt("BlockHeader", &cls, &h, out);
        rt("BlockExtData", &cls, &h.ext, out);
        rt("BlockHash", &cls, &h.block_hash(), out);
        strtab("BlockHash", &h.block_hash(), None, out);
        match &h.ext {
            elements::BlockExtData::Proof { .. } => { keys_check(&shapes, "ExtData", "Proof", &h.ext, out); }
            elements::BlockExtData::Dynafed { current, proposed, .. } => {
                keys_check(&shapes, "ExtData", "Dynafed", &h.ext, out);
                for p in [current, proposed] {
                    rt("dynafed::Params", &cls, p, out);
                    let v = if p.is_null() { "Null" } else if p.is_compact() { "Compact" } else { "Full" };
                    keys_check(&shapes, "Params", v, p, out);
                    if let Some(root) = p.elided_root() { rt("ElidedRoot", &cls, root, out); }
                    rt("ParamsRoot", &cls, &p.calculate_root(), out);
                }
            }
        }
        if ci % 10 == 0 {
            keys_check(&shapes, "BlockHeader", "", &h, out);
            let b = elements::Block { header: h.clone(), txdata: vec![psetbuild::small_tx(&mut r)] };
            rt("Block", &cls, &b, out);
            keys_check(&shapes, "Block", "", &b, out);
        }
    }
    // addresses, blinding factors, secrets, ids
    for (_, a) in crate::checksum::representative(&mut r) { rt("Address", "representative", &a, out); strtab("Address", &a, None, out); }
    for _ in 0..20 {
        let (abf, vbf) = (pools::abf(&mut r), pools::vbf(&mut r));
        rt("AssetBlindingFactor", "", &abf, out);
        rt("ValueBlindingFactor", "", &vbf, out);
        strtab("AssetBlindingFactor", &abf, None, out);
        strtab("ValueBlindingFactor", &vbf, None, out);
        let sec = elements::TxOutSecrets::new(pools::asset_id(&mut r), abf, r_u64(&mut r), vbf);
        rt("TxOutSecrets", "", &sec, out);
        keys_check(&shapes, "TxOutSecrets", "", &sec, out);
        let id = pools::asset_id(&mut r);
        rt("AssetId", "", &id, out);
        strtab("AssetId", &id, None, out);
        let ch = elements::ContractHash::from_byte_array(pools::bytes32(&mut r));
        rt("ContractHash", "", &ch, out);
        strtab("ContractHash", &ch, None, out);
        strtab("Sequence", &elements::Sequence(r_u64(&mut r) as u32), None, out);
    }
    // sighash string tables
    for s in &strings {
        let (table, value, text) = (s["table"].as_str().unwrap(), s["value"].as_str().unwrap(), s["text"].as_str().unwrap());
        if table == "Ecdsa" {
            let v = match value { "All" => elements::EcdsaSighashType::All, "None" => elements::EcdsaSighashType::None, "Single" => elements::EcdsaSighashType::Single,
                "AllPlusAnyoneCanPay" => elements::EcdsaSighashType::AllPlusAnyoneCanPay, "NonePlusAnyoneCanPay" => elements::EcdsaSighashType::NonePlusAnyoneCanPay, _ => elements::EcdsaSighashType::SinglePlusAnyoneCanPay };
            strtab(&format!("EcdsaSighashType/{}", value), &v, Some(text), out);
            let pv: elements::pset::PsbtSighashType = v.into();
            strtab(&format!("PsbtSighashType/ecdsa-{}", value), &pv, Some(text), out);
            rt("PsbtSighashType", value, &pv, out);
        } else {
            let v = match value { "Default" => elements::SchnorrSighashType::Default, "All" => elements::SchnorrSighashType::All, "None" => elements::SchnorrSighashType::None, "Single" => elements::SchnorrSighashType::Single,
                "AllPlusAnyoneCanPay" => elements::SchnorrSighashType::AllPlusAnyoneCanPay, "NonePlusAnyoneCanPay" => elements::SchnorrSighashType::NonePlusAnyoneCanPay, "SinglePlusAnyoneCanPay" => elements::SchnorrSighashType::SinglePlusAnyoneCanPay, _ => elements::SchnorrSighashType::Reserved };
            strtab(&format!("SchnorrSighashType/{}", value), &v, Some(text), out);
            rt("SchnorrSighashType", value, &v, out);
        }
    }
    for raw in [0u32, 4, 0x40, 0xff, 0x100, 0x8000_0001] {
        let pv = elements::pset::PsbtSighashType::from_u32(raw);
        strtab(&format!("PsbtSighashType/raw-{:#x}", raw), &pv, None, out);
        rt("PsbtSighashType", &format!("{:#x}", raw), &pv, out);
    }
    // PSETs: minimal, fully populated, and per-field
    let mut psets: Vec<(String, elements::pset::PartiallySignedTransaction)> = vec![];
    let mut p = elements::pset::PartiallySignedTransaction::new_v2();
    p.add_input(psetbuild::base_input(&mut r, 0));
    p.add_output(psetbuild::base_output(&mut r, "explicit"));
    psets.push(("minimal".into(), p.clone()));
    psets.push(("full".into(), crate::psetcodec::full_pset(&mut r)));
    for f in psetbuild::INPUT_FIELDS { let mut q = p.clone(); psetbuild::set_input_field(&mut q.inputs_mut()[0], f, &mut r); psets.push((format!("input.{}", f), q)); }
    for f in psetbuild::OUTPUT_FIELDS { let mut q = p.clone(); psetbuild::set_output_field(&mut q.outputs_mut()[0], f, &mut r); psets.push((format!("output.{}", f), q)); }
    for f in psetbuild::GLOBAL_FIELDS { let mut q = p.clone(); psetbuild::set_global_field(&mut q, f, &mut r); psets.push((format!("global.{}", f), q)); }
    for (cls, q) in &psets {
        // a PSET whose fallback lock time is set is reported under its own type name (see known findings)
        rt(if q.global.tx_data.fallback_locktime.is_some() { "PartiallySignedTransaction/with-fallback_locktime" } else { "PartiallySignedTransaction" }, cls, q, out);
        strtab("PartiallySignedTransaction(base64)", q, None, out);
        rt("pset::Input", cls, &q.inputs()[0], out);
        rt("pset::Output", cls, &q.outputs()[0], out);
    }
    keys_check(&shapes, "Pset", "", &psets[0].1, out);
    keys_check(&shapes, "PsetGlobal", "", &psets[1].1.global, out);
    out.add("distinct_classes", classes.len() as u64 + psets.len() as u64 + headers.len() as u64);
    out.sample(json!({"psets": psets.len(), "tx_classes": classes.len(), "headers": headers.len()}));
}

fn content_bytes(class: &str, r: &mut Rng, variant: usize) -> Vec<u8> {
    use rand::Rng as _;
    let n = [2usize, 8, 34, 66][variant % 4];
    match class {
        "random" => pools::rbytes(r, n),
        "ascii-hex-even" => (0..n).map(|_| b"0123456789abcdefABCDEF"[r.gen_range(0..22)]).collect(),
        "ascii-hex-odd" => (0..n + 1).map(|_| b"0123456789abcdef"[r.gen_range(0..16)]).collect(),
        "ascii-text" => (0..n).map(|_| r.gen_range(0x20u8..0x7f)).collect(),
        "utf8" => "\u{e9}\u{4e2d}\u{1f600}z".repeat(1 + variant % 3).into_bytes(),
        "zeros" => vec![0u8; n],
        "empty" => vec![],
        "single-ff" => vec![0xff],
        x => panic!("content class {}", x),
    }
}

/// Byte-string fields x content classes (SerdeShape.ContentCases).
pub fn content(args: &[String], out: &mut Out) {
    use elements::dynafed::{FullParams, Params};
    use elements::{BlockExtData, BlockHeader, Script};
    let cases = read_ndjson(&arg(args, "--cases").expect("--cases"));
    let seed = arg_u64(args, "--seed", 1);
    let mut r = rng(seed, 0x2020);
    for c in &cases {
        out.count("distinct_cases");
        let (ty, field, class) = (c["ty"].as_str().unwrap(), c["field"].as_str().unwrap(), c["class"].as_str().unwrap());
        let cls = format!("content/{}.{}/{}", ty, field, class);
        for variant in 0..4 {
            let b = content_bytes(class, &mut r, variant);
            let b2 = content_bytes(class, &mut r, variant + 1);
            match ty {
                "TxIn" | "TxOut" | "TxInWitness" => {
                    let mut tx = psetbuild::small_tx(&mut r);
                    match field {
                        "script_sig" => tx.input[0].script_sig = Script::from(b.clone()),
                        "script_pubkey" => tx.output[0].script_pubkey = Script::from(b.clone()),
                        "script_witness" => tx.input[0].witness.script_witness = vec![b.clone(), b2.clone(), vec![]],
                        "pegin_witness" => tx.input[0].witness.pegin_witness = vec![b.clone(), vec![], b2.clone()],
                        x => panic!("field {}", x),
                    }
                    rt("Transaction", &cls, &tx, out);
                    rt("TxIn", &cls, &tx.input[0], out);
                    rt("TxOut", &cls, &tx.output[0], out);
                    rt("TxInWitness", &cls, &tx.input[0].witness, out);
                    rt("Script", &cls, &Script::from(b.clone()), out);
                }
                "Params.Full" | "Params.Compact" | "ExtData.Proof" | "ExtData.Dynafed" => {
                    let mut full = FullParams::new(Script::from(vec![0x51]), 100, elements::bitcoin::ScriptBuf::from(vec![0x00, 0x14, 1, 2]), vec![0x52], vec![vec![2; 33]]);
                    let mut compact = Params::Compact { signblockscript: Script::from(vec![0x51]), signblock_witness_limit: 7, elided_root: elements::dynafed::ElidedRoot::from_byte_array(pools::bytes32(&mut r)) };
                    let mut ext = BlockExtData::Proof { challenge: Script::from(vec![0x51]), solution: Script::new() };
                    let mut wit: Vec<Vec<u8>> = vec![];
                    match (ty, field) {
                        ("Params.Full", "signblockscript") => full = FullParams::new(Script::from(b.clone()), 100, elements::bitcoin::ScriptBuf::from(vec![0x00]), vec![0x52], vec![]),
                        ("Params.Full", "fedpeg_program") => full = FullParams::new(Script::from(vec![0x51]), 100, elements::bitcoin::ScriptBuf::from(b.clone()), vec![0x52], vec![]),
                        ("Params.Full", "fedpegscript") => full = FullParams::new(Script::from(vec![0x51]), 100, elements::bitcoin::ScriptBuf::from(vec![0x00]), b.clone(), vec![]),
                        ("Params.Full", "extension_space") => full = FullParams::new(Script::from(vec![0x51]), 100, elements::bitcoin::ScriptBuf::from(vec![0x00]), vec![0x52], vec![b.clone(), vec![], b2.clone()]),
                        ("Params.Compact", "signblockscript") => if let Params::Compact { signblockscript, .. } = &mut compact { *signblockscript = Script::from(b.clone()); },
                        ("ExtData.Proof", "challenge") => ext = BlockExtData::Proof { challenge: Script::from(b.clone()), solution: Script::new() },
                        ("ExtData.Proof", "solution") => ext = BlockExtData::Proof { challenge: Script::from(vec![0x51]), solution: Script::from(b.clone()) },
                        ("ExtData.Dynafed", "signblock_witness") => wit = vec![b.clone(), vec![], b2.clone()],
                        x => panic!("field {:?}", x),
                    }
                    let pfull = Params::Full(full);
                    rt("dynafed::Params", &cls, &pfull, out);
                    rt("dynafed::Params", &cls, &compact, out);
                    rt("BlockExtData", &cls, &ext, out);
                    let dyn_ext = BlockExtData::Dynafed { current: pfull.clone(), proposed: compact.clone(), signblock_witness: wit };
                    rt("BlockExtData", &cls, &dyn_ext, out);
                    for e in [ext, dyn_ext] {
                        let h = BlockHeader { version: 0x2000_0000, prev_blockhash: elements::BlockHash::from_byte_array(pools::bytes32(&mut r)), merkle_root: elements::TxMerkleNode::from_byte_array(pools::bytes32(&mut r)), time: 7, height: 9, ext: e };
                        rt("BlockHeader", &cls, &h, out);
                    }
                }
                _ => {
                    let mut p = elements::pset::PartiallySignedTransaction::new_v2();
                    p.add_input(psetbuild::base_input(&mut r, 0));
                    p.add_output(psetbuild::base_output(&mut r, "explicit"));
                    let raw_key = elements::pset::raw::Key { type_value: 0x7e, key: b2.clone() };
                    let prop_key = elements::pset::raw::ProprietaryKey { prefix: b2.clone(), subtype: 3u8, key: b.clone() };
                    match (ty, field) {
                        ("pset::Input", "redeem_script") => p.inputs_mut()[0].redeem_script = Some(Script::from(b.clone())),
                        ("pset::Input", "final_script_witness") => p.inputs_mut()[0].final_script_witness = Some(vec![b.clone(), vec![], b2.clone()]),
                        ("pset::Input", "unknown") => { p.inputs_mut()[0].unknown.insert(raw_key, b.clone()); }
                        ("pset::Input", "proprietary") => { p.inputs_mut()[0].proprietary.insert(prop_key, b.clone()); }
                        ("pset::Output", "script_pubkey") => p.outputs_mut()[0].script_pubkey = Script::from(b.clone()),
                        ("pset::Global", "unknown") => { p.global.unknown.insert(raw_key, b.clone()); }
                        ("pset::Global", "proprietary") => { p.global.proprietary.insert(prop_key, b.clone()); }
                        x => panic!("field {:?}", x),
                    }
                    rt("PartiallySignedTransaction", &cls, &p, out);
                    rt("pset::Input", &cls, &p.inputs()[0], out);
                    rt("pset::Output", &cls, &p.outputs()[0], out);
                    strtab("PartiallySignedTransaction(base64)", &p, None, out);
                }
            }
        }
    }
    out.sample(json!({"content_cases": cases.len(), "variants_per_case": 4}));
}

fn r_u64(r: &mut Rng) -> u64 { use rand::RngCore; r.next_u64() >> 11 }
