//! Independent SHA-256 (compression function, full hash, double hash, tagged hash).
const K: [u32; 64] = [
    0x428a2f98, 0x71374491, 0xb5c0fbcf, 0xe9b5dba5, 0x3956c25b, 0x59f111f1, 0x923f82a4, 0xab1c5ed5, 0xd807aa98, 0x12835b01,
    0x243185be, 0x550c7dc3, 0x72be5d74, 0x80deb1fe, 0x9bdc06a7, 0xc19bf174, 0xe49b69c1, 0xefbe4786, 0x0fc19dc6, 0x240ca1cc,
    0x2de92c6f, 0x4a7484aa, 0x5cb0a9dc, 0x76f988da, 0x983e5152, 0xa831c66d, 0xb00327c8, 0xbf597fc7, 0xc6e00bf3, 0xd5a79147,
    0x06ca6351, 0x14292967, 0x27b70a85, 0x2e1b2138, 0x4d2c6dfc, 0x53380d13, 0x650a7354, 0x766a0abb, 0x81c2c92e, 0x92722c85,
    0xa2bfe8a1, 0xa81a664b, 0xc24b8b70, 0xc76c51a3, 0xd192e819, 0xd6990624, 0xf40e3585, 0x106aa070, 0x19a4c116, 0x1e376c08,
    0x2748774c, 0x34b0bcb5, 0x391c0cb3, 0x4ed8aa4a, 0x5b9cca4f, 0x682e6ff3, 0x748f82ee, 0x78a5636f, 0x84c87814, 0x8cc70208,
    0x90befffa, 0xa4506ceb, 0xbef9a3f7, 0xc67178f2,
];
pub const IV: [u32; 8] = [0x6a09e667, 0xbb67ae85, 0x3c6ef372, 0xa54ff53a, 0x510e527f, 0x9b05688c, 0x1f83d9ab, 0x5be0cd19];

pub fn compress(state: &mut [u32; 8], block: &[u8]) {
    assert_eq!(block.len(), 64);
    let mut w = [0u32; 64];
    for i in 0..16 {
        w[i] = u32::from_be_bytes([block[4 * i], block[4 * i + 1], block[4 * i + 2], block[4 * i + 3]]);
    }
    for i in 16..64 {
        let s0 = w[i - 15].rotate_right(7) ^ w[i - 15].rotate_right(18) ^ (w[i - 15] >> 3);
        let s1 = w[i - 2].rotate_right(17) ^ w[i - 2].rotate_right(19) ^ (w[i - 2] >> 10);
        w[i] = w[i - 16].wrapping_add(s0).wrapping_add(w[i - 7]).wrapping_add(s1);
    }
    let mut v = *state;
    for i in 0..64 {
        let s1 = v[4].rotate_right(6) ^ v[4].rotate_right(11) ^ v[4].rotate_right(25);
        let ch = (v[4] & v[5]) ^ (!v[4] & v[6]);
        let t1 = v[7].wrapping_add(s1).wrapping_add(ch).wrapping_add(K[i]).wrapping_add(w[i]);
        let s0 = v[0].rotate_right(2) ^ v[0].rotate_right(13) ^ v[0].rotate_right(22);
        let maj = (v[0] & v[1]) ^ (v[0] & v[2]) ^ (v[1] & v[2]);
        let t2 = s0.wrapping_add(maj);
        v[7] = v[6];
        v[6] = v[5];
        v[5] = v[4];
        v[4] = v[3].wrapping_add(t1);
        v[3] = v[2];
        v[2] = v[1];
        v[1] = v[0];
        v[0] = t1.wrapping_add(t2);
    }
    for i in 0..8 {
        state[i] = state[i].wrapping_add(v[i]);
    }
}

fn state_bytes(s: &[u32; 8]) -> [u8; 32] {
    let mut out = [0u8; 32];
    for i in 0..8 {
        out[4 * i..4 * i + 4].copy_from_slice(&s[i].to_be_bytes());
    }
    out
}

/// One compression of left||right from the initial state, no padding: the "midstate" node hash.
pub fn mid(left: &[u8; 32], right: &[u8; 32]) -> [u8; 32] {
    let mut st = IV;
    let mut block = [0u8; 64];
    block[..32].copy_from_slice(left);
    block[32..].copy_from_slice(right);
    compress(&mut st, &block);
    state_bytes(&st)
}

pub fn sha256_from(mut st: [u32; 8], prefix_len: u64, data: &[u8]) -> [u8; 32] {
    let mut msg = data.to_vec();
    let bitlen = (prefix_len + data.len() as u64) * 8;
    msg.push(0x80);
    while (msg.len() % 64) != 56 {
        msg.push(0);
    }
    msg.extend_from_slice(&bitlen.to_be_bytes());
    for chunk in msg.chunks(64) {
        compress(&mut st, chunk);
    }
    state_bytes(&st)
}

pub fn sha256(data: &[u8]) -> [u8; 32] {
    sha256_from(IV, 0, data)
}

pub fn sha256d(data: &[u8]) -> [u8; 32] {
    sha256(&sha256(data))
}

/// BIP340-style tagged hash: SHA256(SHA256(tag)||SHA256(tag)||msg).
pub fn tagged(tag: &str, msg: &[u8]) -> [u8; 32] {
    let t = sha256(tag.as_bytes());
    let mut v = Vec::with_capacity(64 + msg.len());
    v.extend_from_slice(&t);
    v.extend_from_slice(&t);
    v.extend_from_slice(msg);
    sha256(&v)
}

pub fn selftest() -> bool {
    let a = sha256(b"abc");
    let want = [
        0xba, 0x78, 0x16, 0xbf, 0x8f, 0x01, 0xcf, 0xea, 0x41, 0x41, 0x40, 0xde, 0x5d, 0xae, 0x22, 0x23, 0xb0, 0x03, 0x61, 0xa3, 0x96,
        0x17, 0x7a, 0x9c, 0xb4, 0x10, 0xff, 0x61, 0xf2, 0x00, 0x15, 0xad,
    ];
    let long = vec![0x61u8; 1000];
    use elements::hashes::sha256 as bh;
    a == want && sha256(&long) == bh::Hash::hash(&long).to_byte_array() && sha256(&[]) == bh::Hash::hash(&[]).to_byte_array()
}
