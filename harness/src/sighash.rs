//! C03: signature-hash messages and digests against the SigMsg specification.
use crate::pools;
use crate::sha256c::{sha256d, tagged};
use crate::tok::{eval_seq, Ctx};
use crate::util::*;
use crate::wire::{build_tx, fill_tx, modify_tx, tx_class};
use elements::confidential::{Asset, Value as CValue};
use elements::hashes::Hash as _;
use elements::sighash::{Annex, Prevouts, ScriptPath, SighashCache};
use elements::taproot::{LeafVersion, TapLeafHash};
use elements::{BlockHash, EcdsaSighashType, SchnorrSighashType, Script, Transaction, TxOut};
use rand::RngCore;
use serde_json::{json, Value};

pub fn ecdsa_type(s: &str) -> EcdsaSighashType {
    match s {
        "ALL" => EcdsaSighashType::All,
        "NONE" => EcdsaSighashType::None,
        "SINGLE" => EcdsaSighashType::Single,
        "ALL|ACP" => EcdsaSighashType::AllPlusAnyoneCanPay,
        "NONE|ACP" => EcdsaSighashType::NonePlusAnyoneCanPay,
        "SINGLE|ACP" => EcdsaSighashType::SinglePlusAnyoneCanPay,
        x => panic!("ecdsa type {}", x),
    }
}
pub fn schnorr_type(s: &str) -> SchnorrSighashType {
    match s {
        "DEFAULT" => SchnorrSighashType::Default,
        "ALL" => SchnorrSighashType::All,
        "NONE" => SchnorrSighashType::None,
        "SINGLE" => SchnorrSighashType::Single,
        "ALL|ACP" => SchnorrSighashType::AllPlusAnyoneCanPay,
        "NONE|ACP" => SchnorrSighashType::NonePlusAnyoneCanPay,
        "SINGLE|ACP" => SchnorrSighashType::SinglePlusAnyoneCanPay,
        x => panic!("schnorr type {}", x),
    }
}

/// Everything a query needs besides the transaction.
pub struct Env {
    pub prevs: Vec<TxOut>,
    pub genesis: [u8; 32],
    pub code: Vec<u8>,
    pub value: u64,
    pub annex: Vec<u8>,
    pub leaf: Vec<u8>,
}

fn conf_from(c: &Value, fam: &str, ctx: &Ctx) -> (Asset, CValue) {
    // helper returning both kinds; only the one of `fam` is meaningful
    let k = c["k"].as_str().unwrap();
    let f = c["f"].as_str().unwrap();
    let mut b33 = [0u8; 33];
    if k.starts_with('c') {
        b33[0] = u8::from_str_radix(&k[1..], 16).unwrap();
        b33[1..].copy_from_slice(&ctx.fields[f]);
    }
    match (fam, k) {
        ("asset", "expl") => { let mut a = [0u8; 32]; a.copy_from_slice(&ctx.fields[f]); (Asset::Explicit(elements::AssetId::from_byte_array(a)), CValue::Null) }
        ("asset", _) => (Asset::Confidential(elements::secp256k1_zkp::Generator::from_slice(&b33).unwrap()), CValue::Null),
        ("value", "expl") => { let mut a = [0u8; 8]; a.copy_from_slice(&ctx.fields[f]); (Asset::Null, CValue::Explicit(u64::from_be_bytes(a))) }
        (_, _) => (Asset::Null, CValue::Confidential(elements::secp256k1_zkp::PedersenCommitment::from_slice(&b33).unwrap())),
    }
}

fn fill_conf_simple(c: &Value, fam: &str, r: &mut Rng, ctx: &mut Ctx) {
    let f = c["f"].as_str().unwrap();
    match (c["k"].as_str().unwrap(), fam) {
        ("null", _) => {}
        ("expl", "value") => ctx.set(f, &(1 + (r.next_u64() >> 16)).to_be_bytes()),
        ("expl", _) => ctx.set(f, &pools::bytes32(r)),
        (_, "value") => ctx.set(f, &pools::commitment(r).serialize()[1..]),
        (_, _) => ctx.set(f, &pools::generator(r).serialize()[1..]),
    }
}

pub fn fill_env(c: &Value, r: &mut Rng) -> (Ctx, Env) {
    let mut ctx = fill_tx(&c["tx"], r);
    let mut prevs = vec![];
    for p in c["prevs"].as_array().unwrap() {
        fill_conf_simple(&p["asset"], "asset", r, &mut ctx);
        fill_conf_simple(&p["value"], "value", r, &mut ctx);
        let spk = pools::rbytes(r, p["spk"]["len"].as_u64().unwrap() as usize);
        ctx.set(p["spk"]["f"].as_str().unwrap(), &spk);
        prevs.push(TxOut {
            asset: conf_from(&p["asset"], "asset", &ctx).0,
            value: conf_from(&p["value"], "value", &ctx).1,
            nonce: elements::confidential::Nonce::Null,
            script_pubkey: Script::from(spk),
            witness: Default::default(),
        });
    }
    let genesis = pools::bytes32(r);
    let code = pools::rbytes(r, 25);
    let value = 1 + (r.next_u64() >> 16);
    let mut annex = pools::rbytes(r, 9);
    annex[0] = 0x50;
    let leaf = pools::rbytes(r, 34);
    ctx.set("genesis", &genesis);
    ctx.set("code", &code);
    ctx.set("spentvalue", &value.to_be_bytes());
    ctx.set("annex", &annex);
    ctx.set("leaf", &leaf);
    (ctx, Env { prevs, genesis, code, value, annex, leaf })
}

#[derive(Debug, Clone, PartialEq)]
pub enum Answer {
    Ok { msg: Vec<u8>, digest: [u8; 32] },
    Err(String),
    Panic(String),
}

/// Ask the real library one query on `cache` (fresh or not).
pub fn ask<T: std::ops::Deref<Target = Transaction>>(cache: &mut SighashCache<T>, n_in: usize, q: &Value, env: &Env) -> Answer {
    let i = q["i"].as_u64().unwrap() as usize - 1;
    let ht = q["ht"].as_str().unwrap();
    let res = guard(|| match q["kind"].as_str().unwrap() {
        "legacy" => {
            let mut msg = vec![];
            cache.encode_legacy_signing_data_to(&mut msg, i, &Script::from(env.code.clone()), ecdsa_type(ht)).map_err(|e| e.to_string())?;
            let d = cache.legacy_sighash(i, &Script::from(env.code.clone()), ecdsa_type(ht));
            Ok((msg, d.to_byte_array()))
        }
        "segwit" => {
            let mut msg = vec![];
            cache.encode_segwitv0_signing_data_to(&mut msg, i, &Script::from(env.code.clone()), CValue::Explicit(env.value), ecdsa_type(ht)).map_err(|e| e.to_string())?;
            let d = cache.segwitv0_sighash(i, &Script::from(env.code.clone()), CValue::Explicit(env.value), ecdsa_type(ht));
            Ok((msg, d.to_byte_array()))
        }
        "taproot" => {
            let pv = q["pv"].as_str().unwrap();
            let short: Vec<TxOut> = env.prevs[..env.prevs.len().saturating_sub(1)].to_vec();
            let one_src = env.prevs.get(i).unwrap_or(&env.prevs[0]).clone();
            let other_idx = if n_in > 1 { (i + 1) % n_in } else { i + 1 };
            let prevouts: Prevouts<TxOut> = match pv {
                "all" => Prevouts::All(&env.prevs),
                "allshort" => Prevouts::All(&short),
                "one" => Prevouts::One(i, one_src),
                "oneother" => Prevouts::One(other_idx, env.prevs[other_idx % env.prevs.len()].clone()),
                x => panic!("pv {}", x),
            };
            let annex = if q["annex"].as_bool().unwrap() { Some(Annex::new(&env.annex).unwrap()) } else { None };
            let script = Script::from(env.leaf.clone());
            let leaf = if q["leaf"].as_bool().unwrap() { Some((TapLeafHash::from_script(&script, LeafVersion::default()), 0xffff_ffffu32)) } else { None };
            let genesis = BlockHash::from_byte_array(env.genesis);
            let mut msg = vec![];
            cache.taproot_encode_signing_data_to(&mut msg, i, &prevouts, annex.clone(), leaf, schnorr_type(ht), genesis).map_err(|e| format!("{:?}", e))?;
            let d = cache.taproot_sighash(i, &prevouts, annex.clone(), leaf, schnorr_type(ht), genesis).map_err(|e| format!("{:?}", e))?;
            // the convenience entry points must agree with the general one
            if annex.is_none() && leaf.is_none() {
                let k = cache.taproot_key_spend_signature_hash(i, &prevouts, schnorr_type(ht), genesis).map_err(|e| format!("{:?}", e))?;
                if k != d { return Err("key-spend entry point disagrees".to_string()); }
            }
            if annex.is_none() && leaf.is_some() {
                let k = cache.taproot_script_spend_signature_hash(i, &prevouts, ScriptPath::with_defaults(&script), schnorr_type(ht), genesis).map_err(|e| format!("{:?}", e))?;
                if k != d { return Err("script-spend entry point disagrees".to_string()); }
                // a script path with another leaf version commits to that version's leaf hash (own tagged hash), not to the default one
                for ver in [0xc0u8, 0xc6] {
                    let mut m = vec![ver];
                    m.extend(crate::tok::varint(script.len() as u64, None));
                    m.extend_from_slice(script.as_bytes());
                    let lh = TapLeafHash::from_byte_array(crate::sha256c::tagged("TapLeaf/elements", &m));
                    let via_hash = cache.taproot_sighash(i, &prevouts, None, Some((lh, 0xffff_ffffu32)), schnorr_type(ht), genesis).map_err(|e| format!("{:?}", e))?;
                    let via_path = cache.taproot_script_spend_signature_hash(i, &prevouts, ScriptPath::new(&script, 0xffff_ffff, LeafVersion::from_u8(ver).map_err(|e| format!("{:?}", e))?), schnorr_type(ht), genesis).map_err(|e| format!("{:?}", e))?;
                    if via_hash != via_path { return Err(format!("script path with leaf version {:#x} does not commit to that version's leaf hash", ver)); }
                }
            }
            Ok((msg, d.to_byte_array()))
        }
        x => panic!("kind {}", x),
    });
    match res {
        Ok(Ok((msg, digest))) => Answer::Ok { msg, digest },
        Ok(Err(e)) => Answer::Err(e),
        Err(p) => Answer::Panic(format!("{} at {}", p, last_panic_loc())),
    }
}

pub fn qclass(q: &Value) -> String {
    format!("{}/{}{}", q["kind"].as_str().unwrap(), q["ht"].as_str().unwrap(),
        if q["kind"] == "taproot" { format!("/pv={}/annex={}/leaf={}", q["pv"].as_str().unwrap(), q["annex"], q["leaf"]) } else { String::new() })
}

/// What the specification prescribes, evaluated: (message bytes, digest) for res = ok.
pub fn expected(c: &Value, ctx: &Ctx) -> Option<(Vec<u8>, [u8; 32])> {
    match c["res"].as_str().unwrap() {
        "ok" => {
            let msg = eval_seq(&c["msg"], ctx);
            let d = if c["q"]["kind"] == "taproot" { tagged("TapSighash/elements", &msg) } else { sha256d(&msg) };
            Some((msg, d))
        }
        "one" => {
            let mut one = [0u8; 32];
            one[0] = 1;
            Some((vec![], one))
        }
        _ => None,
    }
}

pub fn replay(args: &[String], out: &mut Out) {
    let cases = read_ndjson(&arg(args, "--cases").expect("--cases"));
    let seed = arg_u64(args, "--seed", 1);
    let k = arg_u64(args, "--k", 1);
    let mut classes = std::collections::BTreeSet::new();
    for (ci, c) in cases.iter().enumerate() {
        let q = &c["q"];
        let res = c["res"].as_str().unwrap();
        let cls = format!("{}/idx{}-of-{}in-{}out", qclass(q), q["i"], c["tx"]["ins"].as_array().unwrap().len(), c["tx"]["outs"].as_array().unwrap().len());
        classes.insert(format!("{}|{}", cls, tx_class(&c["tx"])));
        if ci % 900 == 17 { out.sample(json!({"q": q, "res": res, "tx_class": tx_class(&c["tx"]), "msg_tokens": c["msg"].as_array().unwrap().len()})); }
        if res == "excluded" { out.count("excluded_documented_panic"); continue; }
        for j in 0..k {
            out.count("evaluations");
            let mut r = rng(seed, (ci as u64) << 4 | j);
            let (ctx, env) = fill_env(c, &mut r);
            let tx = build_tx(&c["tx"], &ctx);
            let mut cache = SighashCache::new(&tx);
            let got = ask(&mut cache, tx.input.len(), q, &env);
            let case = json!({"q": q, "tx_class": tx_class(&c["tx"]), "case_index": ci, "seed": seed, "j": j});
            let want = guard(|| expected(c, &ctx));
            let want = match want { Ok(w) => w, Err(p) => { out.viol("C03/harness/expected-eval", case, p); continue; } };
            match (res, &got) {
                (_, Answer::Panic(p)) => out.viol(&format!("C03/panic/{}", cls), case, p.clone()),
                ("err", Answer::Err(e)) => {
                    let errs: Vec<&str> = c["errs"].as_array().unwrap().iter().map(|x| x.as_str().unwrap()).collect();
                    if !errs.iter().any(|x| e.contains(x)) { out.count("error_class_outside_spec_set"); }
                }
                ("err", Answer::Ok { .. }) => out.viol(&format!("C03/error-expected/{}", cls), case, format!("spec: {}", c["errs"])),
                ("unspecified", _) => out.count("unspecified_only_totality"),
                ("ok", Answer::Err(e)) => out.viol(&format!("C03/refused/{}", qclass(q)), case, format!("library error: {}", e)),
                ("ok", Answer::Ok { msg, digest }) | ("one", Answer::Ok { msg, digest }) => {
                    let (wmsg, wd) = want.unwrap();
                    if res == "ok" && *msg != wmsg {
                        let at = msg.iter().zip(wmsg.iter()).position(|(a, b)| a != b).unwrap_or(msg.len().min(wmsg.len()));
                        out.viol(&format!("C03/message/{}", cls), case.clone(), format!("signing data differs at byte {} (impl {} bytes, spec {} bytes)", at, msg.len(), wmsg.len()));
                    }
                    if *digest != wd {
                        let key = if res == "one" { format!("C03/digest/single-out-of-range-constant/{}", q["kind"].as_str().unwrap()) } else { format!("C03/digest/{}", cls) };
                        out.viol(&key, case, format!("impl {} spec {}", hex(digest), hex(&wd)));
                    }
                }
                ("one", Answer::Err(e)) => out.viol(&format!("C03/refused/{}", qclass(q)), case, e.clone()),
                (x, y) => out.viol("C03/harness/unexpected", case, format!("{} {:?}", x, y)),
            }
        }
    }
    out.add("distinct_classes", classes.len() as u64);
}

/// Field sensitivity: digest changes exactly when the specification's message changes.
pub fn sensitivity(args: &[String], out: &mut Out) {
    let cases = read_ndjson(&arg(args, "--cases").expect("--cases"));
    let seed = arg_u64(args, "--seed", 1);
    for (ci, c) in cases.iter().enumerate() {
        out.count("distinct_cases");
        let q = &c["q"];
        let mut r = rng(seed, 0x5e_0000 + ci as u64);
        let (ctx, env) = fill_env(c, &mut r);
        let tx = build_tx(&c["tx"], &ctx);
        let base = match ask(&mut SighashCache::new(&tx), tx.input.len(), q, &env) { Answer::Ok { digest, .. } => digest, other => { out.viol(&format!("C03/refused/{}", qclass(q)), json!({"q": q}), format!("{:?}", other)); continue; } };
        if ci % 30 == 4 { out.sample(json!({"q": q, "touches": c["touches"].as_array().unwrap().iter().take(6).collect::<Vec<_>>()})); }
        for t in c["touches"].as_array().unwrap() {
            out.count("evaluations");
            let d = t["d"].as_array().unwrap();
            let (kind, n, field) = (d[0].as_str().unwrap(), d[1].as_u64().unwrap() as usize, d[2].as_str().unwrap());
            let mut tx2 = tx.clone();
            let mut env2 = Env { prevs: env.prevs.clone(), genesis: env.genesis, code: env.code.clone(), value: env.value, annex: env.annex.clone(), leaf: env.leaf.clone() };
            match kind {
                "tx" => modify_tx(&mut tx2, field, &mut r),
                "in" => modify_tx(&mut tx2, &format!("i{}.{}", n, field), &mut r),
                "out" => modify_tx(&mut tx2, &format!("o{}.{}", n, field), &mut r),
                "prev" => {
                    let p = &mut env2.prevs[n - 1];
                    match field {
                        "asset" => p.asset = match p.asset { Asset::Explicit(_) => Asset::Explicit(pools::asset_id(&mut r)), _ => pools::conf_asset(&mut r) },
                        "value" => p.value = match p.value { CValue::Explicit(x) => CValue::Explicit(x ^ 1), _ => pools::conf_value(&mut r) },
                        _ => { let mut b = p.script_pubkey.to_bytes(); b.push(0x51); p.script_pubkey = Script::from(b); }
                    }
                }
                x => panic!("touch kind {}", x),
            }
            let after = ask(&mut SighashCache::new(&tx2), tx2.input.len(), q, &env2);
            let changed = match &after { Answer::Ok { digest, .. } => *digest != base, _ => true };
            let want = t["changes"].as_bool().unwrap();
            if changed != want {
                let key = format!("C03/sensitivity/{}/{}.{}/{}", qclass(q), kind, field, if want { "not-committed" } else { "committed-but-should-not" });
                out.viol(&key, json!({"q": q, "touch": t, "tx_class": tx_class(&c["tx"]), "case_index": ci, "seed": seed}), String::new());
            }
        }
        // query-level constants: committed iff named in the message
        let names: Vec<&str> = c["names"].as_array().unwrap().iter().map(|x| x.as_str().unwrap()).collect();
        for cst in ["genesis", "code", "spentvalue", "annex", "leaf"] {
            let applicable = match cst { "genesis" | "annex" | "leaf" => q["kind"] == "taproot", _ => q["kind"] != "taproot" };
            if !applicable || (cst == "annex" && q["annex"] == false) || (cst == "leaf" && q["leaf"] == false) { continue; }
            out.count("evaluations");
            let mut env2 = Env { prevs: env.prevs.clone(), genesis: env.genesis, code: env.code.clone(), value: env.value, annex: env.annex.clone(), leaf: env.leaf.clone() };
            match cst { "genesis" => env2.genesis[9] ^= 1, "code" => env2.code[3] ^= 1, "spentvalue" => env2.value ^= 1, "annex" => env2.annex[4] ^= 1, _ => env2.leaf[5] ^= 1 }
            let after = ask(&mut SighashCache::new(&tx), tx.input.len(), q, &env2);
            let changed = match &after { Answer::Ok { digest, .. } => *digest != base, _ => true };
            let want = names.contains(&cst) || (cst == "spentvalue" && q["kind"] == "segwit") ;
            if q["kind"] == "legacy" && cst == "spentvalue" { continue; }
            if changed != want {
                out.viol(&format!("C03/sensitivity/{}/const.{}/{}", qclass(q), cst, if want { "not-committed" } else { "committed-but-should-not" }), json!({"q": q}), String::new());
            }
        }
    }
}

// ---------- C13: one cache object, arbitrary query sequences

fn step_query(s: &Value) -> Value {
    json!({"kind": s["op"], "i": s["i"], "ht": s["ht"], "pv": s["pv"], "annex": false, "leaf": false})
}

fn pick_tx(txcases: &[Value], nin: usize) -> &Value {
    txcases.iter().find(|c| c["tx"]["ins"].as_array().unwrap().len() == nin && c["tx"]["outs"].as_array().unwrap().len() >= nin
        && c["tx"]["ins"].as_array().unwrap().iter().any(|i| i["iss"]["has"] == true)).expect("a transaction shape with enough inputs and outputs")
}

pub fn cache_replay(args: &[String], out: &mut Out) {
    let cases = read_ndjson(&arg(args, "--cases").expect("--cases"));
    let txcases = read_ndjson(&arg(args, "--txcases").expect("--txcases"));
    let seed = arg_u64(args, "--seed", 1);
    let nin = arg_u64(args, "--nin", 2) as usize;
    let base = pick_tx(&txcases, nin);
    let mut r = rng(seed, 0xc13);
    let (ctx, env) = fill_env(base, &mut r);
    let tx0 = build_tx(&base["tx"], &ctx);
    out.sample(json!({"tx_class": tx_class(&base["tx"]), "first_sequence": cases.first()}));
    for (ci, c) in cases.iter().enumerate() {
        out.count("distinct_cases");
        let mut tx = tx0.clone();
        let mut shadow = tx0.clone();
        let mut cache = SighashCache::new(&mut tx);
        let mut prev = "start".to_string();
        for (si, st) in c["steps"].as_array().unwrap().iter().enumerate() {
            out.count("evaluations");
            let s = &st["s"];
            let case = json!({"sequence": c["steps"].as_array().unwrap().iter().map(|x| x["s"].clone()).collect::<Vec<_>>(), "at": si, "case_index": ci});
            let i = s["i"].as_u64().unwrap() as usize - 1;
            if s["op"] == "witness_mut" {
                let item = vec![si as u8 + 1; 3];
                match guard(|| cache.witness_mut(i).map(|w| w.push(item.clone()))) {
                    Ok(Some(())) => shadow.input[i].witness.script_witness.push(item),
                    other => out.viol("C13/witness_mut/unavailable", case.clone(), format!("{:?}", other)),
                }
                prev = "witness_mut".into();
            } else {
                let q = step_query(s);
                let cls = qclass(&q);
                let got = ask(&mut cache, nin, &q, &env);
                let fresh = ask(&mut SighashCache::new(&shadow), nin, &q, &env);
                if let Answer::Panic(p) = &got {
                    out.viol(&format!("C13/panic/{}", cls), case.clone(), p.clone());
                } else if got != fresh {
                    out.viol(&format!("C13/differs-from-fresh/{}/after/{}", cls, prev), case.clone(), "answer of the reused cache differs from a fresh cache".into());
                }
                let want_err = st["err"].as_bool().unwrap();
                match (&got, want_err) {
                    (Answer::Ok { .. }, true) => out.viol(&format!("C13/error-expected/{}", cls), case.clone(), String::new()),
                    (Answer::Err(e), false) => out.viol(&format!("C13/refused/{}", cls), case.clone(), e.clone()),
                    _ => {}
                }
                // ANYONECANPAY: the single spent output gives the same digest as all of them
                if q["kind"] == "taproot" && q["pv"] == "one" && !want_err {
                    let mut q_all = q.clone();
                    q_all["pv"] = json!("all");
                    if ask(&mut SighashCache::new(&shadow), nin, &q_all, &env) != got {
                        out.viol(&format!("C13/one-differs-from-all/{}", cls), case.clone(), String::new());
                    }
                }
                prev = cls;
            }
            let fill: Vec<bool> = st["fill"].as_array().unwrap().iter().map(|x| x.as_bool().unwrap()).collect();
            let real = cache.verif_cache_state();
            if real[..] != fill[..] {
                out.viol(&format!("C13/cache-state/after/{}", prev), case.clone(), format!("hook reports {:?}, specification {:?} (common, segwit, taproot)", real, fill));
            }
        }
    }
}

/// Direction B: long random query sequences recorded with the hook's cache state.
pub fn cache_record(args: &[String], out: &mut Out) {
    use std::io::Write;
    let txcases = read_ndjson(&arg(args, "--txcases").expect("--txcases"));
    let seed = arg_u64(args, "--seed", 1);
    let sessions = arg_u64(args, "--sessions", 200);
    let maxlen = arg_u64(args, "--maxlen", 50);
    let nin = arg_u64(args, "--nin", 2) as usize;
    let path = arg(args, "--out").expect("--out");
    let mut f = std::io::BufWriter::new(std::fs::File::create(&path).expect("create trace"));
    let base = pick_tx(&txcases, nin);
    let mut r = rng(seed, 0xc13b);
    let (ctx, env) = fill_env(base, &mut r);
    let tx0 = build_tx(&base["tx"], &ctx);
    let hte = ["ALL", "NONE", "SINGLE", "ALL|ACP", "NONE|ACP", "SINGLE|ACP"];
    let hts = ["DEFAULT", "ALL", "NONE", "SINGLE", "ALL|ACP", "NONE|ACP", "SINGLE|ACP"];
    let pvs = ["all", "all", "one", "one", "allshort", "oneother"];
    let mut events = 0u64;
    for _ in 0..sessions {
        let mut tx = tx0.clone();
        let mut shadow = tx0.clone();
        let mut cache = SighashCache::new(&mut tx);
        writeln!(f, "{}", json!({"op":"reset","i":1,"ht":"ALL","pv":"all","ok":true,"fresh_eq":true,"fill":[false,false,false]})).unwrap();
        events += 1;
        let n = 1 + r.next_u64() % maxlen;
        for si in 0..n {
            let pick = |r: &mut Rng, k: usize| (r.next_u32() as usize) % k;
            let i = 1 + pick(&mut r, nin);
            let s = match pick(&mut r, 8) {
                0 => json!({"op":"witness_mut","i":i,"ht":"ALL","pv":"all"}),
                1 => json!({"op":"legacy","i":i,"ht":hte[pick(&mut r,6)],"pv":"all"}),
                2 | 3 => json!({"op":"segwit","i":i,"ht":hte[pick(&mut r,6)],"pv":"all"}),
                _ => json!({"op":"taproot","i":i,"ht":hts[pick(&mut r,7)],"pv":pvs[pick(&mut r,6)]}),
            };
            let mut e = s.clone();
            if s["op"] == "witness_mut" {
                let item = vec![si as u8; 2];
                cache.witness_mut(i - 1).unwrap().push(item.clone());
                shadow.input[i - 1].witness.script_witness.push(item);
                e["ok"] = json!(true);
                e["fresh_eq"] = json!(true);
            } else {
                let q = step_query(&s);
                let got = ask(&mut cache, nin, &q, &env);
                let fresh = ask(&mut SighashCache::new(&shadow), nin, &q, &env);
                if let Answer::Panic(p) = &got { out.viol(&format!("C13/panic/{}", qclass(&q)), s.clone(), p.clone()); }
                e["ok"] = json!(matches!(got, Answer::Ok { .. }));
                e["fresh_eq"] = json!(got == fresh);
            }
            e["fill"] = json!(cache.verif_cache_state());
            writeln!(f, "{}", e).unwrap();
            events += 1;
        }
        out.count("traces");
    }
    out.add("events", events);
}
