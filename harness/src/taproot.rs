//! C15: taproot builder sequences, reference trees with own tagged hashes, control blocks, Huffman.
use crate::pools;
use crate::sha256c::tagged;
use crate::util::*;
use elements::schnorr::{TapTweak, TweakedPublicKey};
use elements::secp256k1_zkp::{Keypair, Parity, Scalar, XOnlyPublicKey};
use elements::taproot::{ControlBlock, LeafVersion, TapNodeHash, TaprootBuilder, TaprootSpendInfo};
use elements::{Address, AddressParams, Script};
use rand::RngCore;
use serde_json::{json, Value};

fn script_of(id: u64, salt: u64) -> Script {
    // distinct, deterministic scripts: a push of the id and salt followed by OP_DROP OP_TRUE
    let mut v = vec![0x09];
    v.push(id as u8);
    v.extend_from_slice(&salt.to_le_bytes());
    v.extend_from_slice(&[0x75, 0x51]);
    // length classes around the CompactSize boundary of the leaf-hash preimage: 12, 75, 252, 253, 600 bytes
    let want = [12usize, 75, 252, 253, 600][(id % 5) as usize];
    while v.len() < want { v.push(0x61); }
    Script::from(v)
}
fn hidden_of(id: u64, salt: u64) -> [u8; 32] {
    crate::sha256c::sha256(format!("hidden/{}/{}", id, salt).as_bytes())
}
fn leaf_hash(script: &Script, ver: u8) -> [u8; 32] {
    let mut m = vec![ver];
    m.extend(crate::tok::varint(script.len() as u64, None));
    m.extend_from_slice(script.as_bytes());
    tagged("TapLeaf/elements", &m)
}
fn branch_hash(a: &[u8; 32], b: &[u8; 32]) -> [u8; 32] {
    let (x, y) = if a <= b { (a, b) } else { (b, a) };
    let mut m = x.to_vec();
    m.extend_from_slice(y);
    tagged("TapBranch/elements", &m)
}
/// evaluate an abstract hash term of the specification with real hashes
fn eval_term(t: &Value, salt: u64) -> [u8; 32] {
    let a = t.as_array().unwrap();
    match a[0].as_str().unwrap() {
        "leaf" => leaf_hash(&script_of(a[1].as_u64().unwrap(), salt), 0xc4),
        "hidden" => hidden_of(a[1].as_u64().unwrap(), salt),
        "B" => {
            let kids = a[1].as_array().unwrap();
            let x = eval_term(&kids[0], salt);
            let y = if kids.len() > 1 { eval_term(&kids[1], salt) } else { x };
            branch_hash(&x, &y)
        }
        x => panic!("term {}", x),
    }
}
fn err_name(e: &elements::taproot::TaprootBuilderError) -> String {
    let s = format!("{:?}", e);
    s.split('(').next().unwrap().to_string()
}
fn output_key(internal: &XOnlyPublicKey, root: Option<[u8; 32]>) -> (XOnlyPublicKey, Parity) {
    let mut m = internal.serialize().to_vec();
    if let Some(r) = root { m.extend_from_slice(&r); }
    let t = tagged("TapTweak/elements", &m);
    internal.add_tweak(pools::secp(), &Scalar::from_be_bytes(t).expect("tweak in range")).expect("tweak")
}

fn check_leaf(info: &TaprootSpendInfo, script: &Script, want_path: &[[u8; 32]], okey: &XOnlyPublicKey, cls: &str, bad: &mut Vec<(String, String)>, r: &mut Rng) {
    let secp = pools::secp();
    let ver = LeafVersion::default();
    let Some(cb) = info.control_block(&(script.clone(), ver)) else { bad.push((format!("C15/control-block/missing/{}", cls), String::new())); return; };
    let got: Vec<[u8; 32]> = cb.merkle_branch.as_inner().iter().map(|h| h.to_byte_array()).collect();
    if got[..] != want_path[..] { bad.push((format!("C15/control-block/path/{}", cls), format!("impl {} nodes, spec {} nodes", got.len(), want_path.len()))); }
    if cb.size() != 33 + 32 * want_path.len() || cb.serialize().len() != cb.size() { bad.push((format!("C15/control-block/size/{}", cls), String::new())); }
    match ControlBlock::from_slice(&cb.serialize()) { Ok(c2) if c2 == cb => {}, _ => bad.push((format!("C15/control-block/serialization/{}", cls), String::new())) }
    if !cb.verify_taproot_commitment(secp, &TweakedPublicKey::new(*okey), script) { bad.push((format!("C15/control-block/does-not-verify/{}", cls), String::new())); }
    // negatives
    let other_script = script_of(250, r.next_u64());
    if cb.verify_taproot_commitment(secp, &TweakedPublicKey::new(*okey), &other_script) { bad.push((format!("C15/negative/other-script-verifies/{}", cls), String::new())); }
    let ser = cb.serialize();
    let mut neg = |name: &str, bytes: Vec<u8>, key: &XOnlyPublicKey, bad: &mut Vec<(String, String)>| {
        if let Ok(c2) = ControlBlock::from_slice(&bytes) {
            if c2.verify_taproot_commitment(secp, &TweakedPublicKey::new(*key), script) { bad.push((format!("C15/negative/{}-verifies/{}", name, cls), String::new())); }
        }
    };
    let mut b = ser.clone(); b[0] ^= 1; neg("parity-flipped", b, okey, bad);
    let mut b = ser.clone(); b[0] = (b[0] & 1) | 0xc0; neg("other-leaf-version", b, okey, bad);
    if ser.len() > 33 {
        let mut b = ser.clone(); b[40] ^= 4; neg("sibling-flipped", b, okey, bad);
        let b = ser[..ser.len() - 32].to_vec(); neg("sibling-removed", b, okey, bad);
    }
    if want_path.len() < 128 { let mut b = ser.clone(); b.extend_from_slice(&pools::bytes32(r)); neg("sibling-added", b, okey, bad); }
    let mut b = ser.clone(); b[5] ^= 1; neg("internal-key-changed", b, okey, bad);
    let other_key = pools::pubkey(r).x_only_public_key().0;
    neg("other-output-key", ser.clone(), &other_key, bad);
}

pub fn replay(args: &[String], out: &mut Out) {
    let cases = read_ndjson(&arg(args, "--cases").expect("--cases"));
    let seed = arg_u64(args, "--seed", 1);
    let secp = pools::secp();
    for (ci, c) in cases.iter().enumerate() {
        out.count("distinct_cases");
        out.count("evaluations");
        if ci % 900 == 77 { out.sample(json!({"ops": c["ops"], "fin": c["fin"], "root": c["root"]})); }
        let mut r = rng(seed, 0x1500_0000 + ci as u64);
        let salt = r.next_u64();
        let ops = c["ops"].as_array().unwrap();
        let shape: Vec<String> = ops.iter().map(|o| format!("{}{}", if o["kind"] == "leaf" { "L" } else { "H" }, o["depth"])).collect();
        let cls = shape.join(",");
        let case = json!({"ops": c["ops"], "case_index": ci, "seed": seed});
        let res = guard(|| {
            let mut bad: Vec<(String, String)> = vec![];
            let mut b = TaprootBuilder::new();
            for (k, o) in ops.iter().enumerate() {
                let (id, depth) = (o["id"].as_u64().unwrap(), o["depth"].as_u64().unwrap() as usize);
                let want = c["steps"][k]["err"].as_str().unwrap();
                let step = if o["kind"] == "leaf" { b.add_leaf(depth, script_of(id, salt)) } else { b.add_hidden(depth, TapNodeHash::from_byte_array(hidden_of(id, salt))) };
                match step {
                    Ok(nb) => {
                        if !want.is_empty() { bad.push((format!("C15/builder/accepted-invalid/{}", want), format!("sequence {} step {}", cls, k + 1))); return bad; }
                        b = nb;
                        let occ: Vec<bool> = serde_json::to_value(&b).unwrap()["branch"].as_array().unwrap().iter().map(|x| !x.is_null()).collect();
                        let wocc: Vec<bool> = c["steps"][k]["occ"].as_array().unwrap().iter().map(|x| x.as_bool().unwrap()).collect();
                        if occ != wocc { bad.push(("C15/builder/stack-state".into(), format!("sequence {} step {}: impl {:?} spec {:?}", cls, k + 1, occ, wocc))); }
                    }
                    Err(e) => {
                        if want != err_name(&e) { bad.push((format!("C15/builder/refused/{}/expected-{}", err_name(&e), if want.is_empty() { "ok" } else { want }), format!("sequence {} step {}", cls, k + 1))); }
                        return bad;
                    }
                }
            }
            let internal = pools::pubkey(&mut r).x_only_public_key().0;
            let fin = c["fin"].as_str().unwrap();
            match b.clone().finalize(secp, internal) {
                Err(e) => { if fin != err_name(&e) { bad.push((format!("C15/finalize/refused/{}/expected-{}", err_name(&e), if fin.is_empty() { "ok" } else { fin }), cls.clone())); } }
                Ok(info) => {
                    if !fin.is_empty() { bad.push((format!("C15/finalize/accepted/{}", fin), cls.clone())); return bad; }
                    let root = eval_term(&c["root"], salt);
                    if info.merkle_root().map(|h| h.to_byte_array()) != Some(root) { bad.push(("C15/merkle-root".into(), cls.clone())); }
                    let (okey, parity) = output_key(&internal, Some(root));
                    if info.output_key().into_inner() != okey || info.output_key_parity() != parity { bad.push(("C15/output-key".into(), cls.clone())); }
                    for l in c["leaves"].as_array().unwrap() {
                        let script = script_of(l["id"].as_u64().unwrap(), salt);
                        let path: Vec<[u8; 32]> = l["path"].as_array().unwrap().iter().map(|t| eval_term(t, salt)).collect();
                        check_leaf(&info, &script, &path, &okey, &format!("depth{}", path.len()), &mut bad, &mut r);
                    }
                    // hidden nodes are not spendable leaves
                    let n_leaves = c["leaves"].as_array().unwrap().len();
                    if info.as_script_map().len() != n_leaves { bad.push(("C15/script-map/size".into(), cls.clone())); }
                    // address / script agree with the output key
                    let spk = Script::new_v1_p2tr(secp, internal, info.merkle_root());
                    let mut want_spk = vec![0x51, 0x20];
                    want_spk.extend_from_slice(&okey.serialize());
                    if spk.as_bytes() != &want_spk[..] { bad.push(("C15/p2tr-script".into(), cls.clone())); }
                    if Address::p2tr(secp, internal, info.merkle_root(), None, &AddressParams::ELEMENTS).script_pubkey() != spk { bad.push(("C15/p2tr-address".into(), cls.clone())); }
                }
            }
            bad
        });
        match res {
            Ok(bad) => for (k, d) in bad { out.viol(&k, case.clone(), d); },
            Err(p) => out.viol(&format!("C15/panic/{}", last_panic_loc()), case, p),
        }
    }
    // key-pair tweak, key-path-only spend, duplicate scripts at different depths
    let mut r = rng(seed, 0x15ff);
    let res = guard(|| {
        let mut bad: Vec<(String, String)> = vec![];
        for _ in 0..20 {
            let sk = pools::secret_key(&mut r);
            let kp = Keypair::from_secret_key(secp, &sk);
            let (internal, _) = kp.x_only_public_key();
            let root = if r.next_u32() % 2 == 0 { None } else { Some(pools::bytes32(&mut r)) };
            let (okey, _) = output_key(&internal, root);
            let tweaked = kp.tap_tweak(secp, root.map(TapNodeHash::from_byte_array));
            if tweaked.to_inner().x_only_public_key().0 != okey { bad.push(("C15/keypair-tweak".into(), format!("root {:?}", root.is_some()))); }
            let ks = TaprootSpendInfo::new_key_spend(secp, internal, root.map(TapNodeHash::from_byte_array));
            if ks.output_key().into_inner() != okey { bad.push(("C15/key-spend-output-key".into(), String::new())); }
        }
        // the same script at depths 1 and 2: its control block must verify and be one of its two paths
        let s = script_of(7, 1);
        let t = script_of(8, 1);
        let b = TaprootBuilder::new().add_leaf(1, s.clone()).unwrap().add_leaf(2, s.clone()).unwrap().add_leaf(2, t.clone()).unwrap();
        let internal = pools::pubkey(&mut r).x_only_public_key().0;
        let info = b.finalize(secp, internal).unwrap();
        let (ls, lt) = (leaf_hash(&s, 0xc4), leaf_hash(&t, 0xc4));
        let root = branch_hash(&ls, &branch_hash(&ls, &lt));
        let (okey, _) = output_key(&internal, Some(root));
        if info.merkle_root().map(|h| h.to_byte_array()) != Some(root) || info.output_key().into_inner() != okey { bad.push(("C15/duplicate-script/root".into(), String::new())); }
        match info.control_block(&(s.clone(), LeafVersion::default())) {
            Some(cb) => {
                let p: Vec<[u8; 32]> = cb.merkle_branch.as_inner().iter().map(|h| h.to_byte_array()).collect();
                let ok = p == vec![branch_hash(&ls, &lt)] || p == vec![lt, ls];
                if !ok || !cb.verify_taproot_commitment(secp, &TweakedPublicKey::new(okey), &s) { bad.push(("C15/duplicate-script/control-block".into(), String::new())); }
            }
            None => bad.push(("C15/duplicate-script/missing".into(), String::new())),
        }
        bad
    });
    match res { Ok(bad) => for (k, d) in bad { out.viol(&k, json!({"part": "keypair/duplicates"}), d); }, Err(p) => out.viol(&format!("C15/panic/{}", last_panic_loc()), json!({}), p) }
    out.add("evaluations", 21);
}

pub fn deep(args: &[String], out: &mut Out) {
    let cases = read_ndjson(&arg(args, "--cases").expect("--cases"));
    let secp = pools::secp();
    for c in &cases {
        out.count("distinct_cases");
        out.count("evaluations");
        let n = c["n"].as_u64().unwrap() as usize;
        let res = guard(|| {
            let mut bad: Vec<(String, String)> = vec![];
            let mut b = TaprootBuilder::new();
            let ops: Vec<(bool, usize, u64)> = c["ops"].as_array().unwrap().iter().map(|o| (o["kind"] == "leaf", o["depth"].as_u64().unwrap() as usize, o["id"].as_u64().unwrap())).collect();
            let bottom_leaf = c["bottom"] == "leaf";
            let want_at = c["at"].as_u64().unwrap() as usize;
            for (i, (leaf, d, id)) in ops.iter().enumerate() {
                let step = if *leaf { b.add_leaf(*d, script_of(*id, 5)) } else { b.add_hidden(*d, TapNodeHash::from_byte_array(hidden_of(*id, 5))) };
                match step {
                    Ok(nb) => { if want_at == i + 1 { bad.push((format!("C15/depth-limit/accepted-depth-{}/bottom-{}", n, c["bottom"].as_str().unwrap()), String::new())); return bad; } b = nb; }
                    Err(e) => { if want_at != i + 1 || c["err"].as_str().unwrap() != err_name(&e) { bad.push((format!("C15/depth-limit/refused-depth-{}/bottom-{}", n, c["bottom"].as_str().unwrap()), format!("{:?} at op {}", e, i + 1))); } return bad; }
                }
            }
            let internal = pools::pubkey(&mut rng(9, 9)).x_only_public_key().0;
            match b.finalize(secp, internal) {
                Ok(info) => {
                    // the deepest leaf: one of the two bottom nodes, or the leaf next to the two hidden bottom nodes
                    let (s, n) = if bottom_leaf { (script_of(1, 5), n) } else { (script_of(3, 5), n - 1) };
                    match info.control_block(&(s.clone(), LeafVersion::default())) {
                        Some(cb) => { if cb.merkle_branch.as_inner().len() != n || !cb.verify_taproot_commitment(secp, &info.output_key(), &s) || cb.size() != 33 + 32 * n { bad.push((format!("C15/depth-limit/control-block-depth-{}", n), String::new())); } }
                        None => bad.push((format!("C15/depth-limit/no-control-block-{}", n), String::new())),
                    }
                }
                Err(e) => bad.push((format!("C15/depth-limit/finalize-{}", n), format!("{:?}", e))),
            }
            bad
        });
        match res { Ok(bad) => for (k, d) in bad { out.viol(&k, c.clone(), d); }, Err(p) => out.viol(&format!("C15/panic/{}", last_panic_loc()), c.clone(), p) }
    }
}

pub fn huffman(args: &[String], out: &mut Out) {
    let cases = read_ndjson(&arg(args, "--cases").expect("--cases"));
    let seed = arg_u64(args, "--seed", 1);
    let secp = pools::secp();
    for (ci, c) in cases.iter().enumerate() {
        out.count("distinct_cases");
        out.count("evaluations");
        if ci % 400 == 9 { out.sample(c.clone()); }
        let ws: Vec<u32> = c["ws"].as_array().unwrap().iter().map(|x| (x[0].as_u64().unwrap() * 65536 + x[1].as_u64().unwrap()) as u32).collect();
        let want_cost: u64 = c["cost"][0].as_u64().unwrap() * 65536 + c["cost"][1].as_u64().unwrap();
        let res = guard(|| {
            let mut bad: Vec<(String, String)> = vec![];
            let mut r = rng(seed, 0x15a0_0000 + ci as u64);
            let internal = pools::pubkey(&mut r).x_only_public_key().0;
            let scripts: Vec<Script> = (0..ws.len()).map(|i| script_of(i as u64 + 1, 77)).collect();
            match TaprootSpendInfo::with_huffman_tree(secp, internal, ws.iter().copied().zip(scripts.iter().cloned())) {
                Err(e) => bad.push(("C15/huffman/error".into(), format!("{:?}", e))),
                Ok(info) => {
                    let mut depths = vec![];
                    for s in &scripts {
                        match info.control_block(&(s.clone(), LeafVersion::default())) {
                            Some(cb) => { if !cb.verify_taproot_commitment(secp, &info.output_key(), s) { bad.push(("C15/huffman/control-block".into(), String::new())); } depths.push(cb.merkle_branch.as_inner().len()); }
                            None => { bad.push(("C15/huffman/missing-leaf".into(), String::new())); return bad; }
                        }
                    }
                    for i in 0..ws.len() { for j in 0..ws.len() { if ws[i] > ws[j] && depths[i] > depths[j] { bad.push(("C15/huffman/heavier-leaf-deeper".into(), format!("weights {:?} depths {:?}", ws, depths))); } } }
                    let cost: u64 = ws.iter().zip(depths.iter()).map(|(w, d)| *w as u64 * *d as u64).sum();
                    if cost != want_cost { bad.push(("C15/huffman/not-optimal".into(), format!("weights {:?} depths {:?} cost {} optimal {}", ws, depths, cost, want_cost))); }
                    let maxd = *depths.iter().max().unwrap();
                    let kraft: u64 = depths.iter().map(|d| 1u64 << (maxd - d)).sum();
                    if ws.len() > 1 && kraft != 1u64 << maxd { bad.push(("C15/huffman/not-a-full-tree".into(), format!("{:?}", depths))); }
                }
            }
            bad
        });
        match res { Ok(bad) => for (k, d) in bad { out.viol(&k, c.clone(), d); }, Err(p) => out.viol(&format!("C15/panic/{}", last_panic_loc()), c.clone(), p) }
    }
}
