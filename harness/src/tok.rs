//! Token / hash-expression evaluator: the specification's abstract byte strings -> bytes.
//! The TLA+ side decides *which* tokens, in which order, under which hash; this file only
//! knows how to turn one token into bytes (independent mini-serializer + own SHA-256).
use crate::sha256c;
use serde_json::Value;
use std::collections::HashMap;

#[derive(Default, Clone)]
pub struct Ctx {
    pub fields: HashMap<String, Vec<u8>>,
}

impl Ctx {
    pub fn new() -> Ctx {
        Ctx::default()
    }
    pub fn set(&mut self, name: &str, bytes: &[u8]) {
        self.fields.insert(name.to_string(), bytes.to_vec());
    }
}

fn num(v: &Value) -> u64 {
    if let Some(n) = v.as_u64() {
        n
    } else if let Some(s) = v.as_str() {
        u64::from_str_radix(s, 16).expect("hex number")
    } else {
        panic!("bad number token {}", v)
    }
}

pub fn varint(n: u64, width: Option<u64>) -> Vec<u8> {
    let w = width.unwrap_or(if n < 0xfd {
        1
    } else if n <= 0xffff {
        3
    } else if n <= 0xffff_ffff {
        5
    } else {
        9
    });
    match w {
        1 => vec![n as u8],
        3 => {
            let mut v = vec![0xfd];
            v.extend_from_slice(&(n as u16).to_le_bytes());
            v
        }
        5 => {
            let mut v = vec![0xfe];
            v.extend_from_slice(&(n as u32).to_le_bytes());
            v
        }
        9 => {
            let mut v = vec![0xff];
            v.extend_from_slice(&n.to_le_bytes());
            v
        }
        _ => panic!("bad varint width"),
    }
}

fn h32(v: Vec<u8>) -> [u8; 32] {
    let mut a = [0u8; 32];
    assert_eq!(v.len(), 32, "hash operand must be 32 bytes");
    a.copy_from_slice(&v);
    a
}

/// Concatenation of a token sequence.
pub fn eval_seq(toks: &Value, ctx: &Ctx) -> Vec<u8> {
    let mut v = vec![];
    for t in toks.as_array().expect("token sequence") {
        v.extend(eval(t, ctx));
    }
    v
}

pub fn eval(t: &Value, ctx: &Ctx) -> Vec<u8> {
    let a = t.as_array().unwrap_or_else(|| panic!("token must be an array: {}", t));
    let tag = a[0].as_str().unwrap_or_else(|| panic!("token tag: {}", t));
    match tag {
        "u8" => vec![num(&a[1]) as u8],
        "u16" => (num(&a[1]) as u16).to_le_bytes().to_vec(),
        "u32" => (num(&a[1]) as u32).to_le_bytes().to_vec(),
        "u64" => num(&a[1]).to_le_bytes().to_vec(),
        "u64be" => num(&a[1]).to_be_bytes().to_vec(),
        "u32be" => (num(&a[1]) as u32).to_be_bytes().to_vec(),
        "vi" => varint(num(&a[1]), None),
        "viw" => varint(num(&a[1]), Some(num(&a[2]))),
        // CompactSize 2^32 + n in its nine-byte form
        "vihi" => { let mut v = vec![0xffu8]; v.extend_from_slice(&((1u64 << 32) + num(&a[1])).to_le_bytes()); v }
        "f" => {
            let name = a[1].as_str().unwrap();
            // attribute (4th element) selects a deliberately invalid variant of the field
            let key = match a.get(3).and_then(|x| x.as_str()) {
                Some(attr @ ("bx" | "bs" | "bp" | "bq")) => format!("{}#{}", name, attr),
                _ => name.to_string(),
            };
            ctx.fields.get(&key).unwrap_or_else(|| panic!("unbound field {}", key)).clone()
        }
        // length-prefixed field: varint(len) || bytes
        "vf" => {
            let b = ctx.fields.get(a[1].as_str().unwrap()).unwrap_or_else(|| panic!("unbound field {}", a[1])).clone();
            let mut v = varint(b.len() as u64, None);
            v.extend(b);
            v
        }
        "hex" => crate::util::unhex(a[1].as_str().unwrap()),
        "cat" => {
            let mut v = vec![];
            for x in a[1].as_array().expect("cat list") {
                v.extend(eval(x, ctx));
            }
            v
        }
        "vbytes" => {
            let b = eval(&a[1], ctx);
            let mut v = varint(b.len() as u64, None);
            v.extend(b);
            v
        }
        "sha256" => sha256c::sha256(&eval(&a[1], ctx)).to_vec(),
        "sha256d" => sha256c::sha256d(&eval(&a[1], ctx)).to_vec(),
        "tagged" => sha256c::tagged(a[1].as_str().unwrap(), &eval(&a[2], ctx)).to_vec(),
        "mid" | "M" => sha256c::mid(&h32(eval(&a[1], ctx)), &h32(eval(&a[2], ctx))).to_vec(),
        "z32" | "Z" => vec![0u8; 32],
        "c32" => {
            let mut v = vec![0u8; 32];
            v[0] = num(&a[1]) as u8;
            v
        }
        "zeros" => vec![0u8; num(&a[1]) as usize],
        "L" => ctx.fields.get(&format!("L{}", num(&a[1]))).expect("leaf").clone(),
        x => panic!("unknown token tag {}", x),
    }
}
