//! C10: totality.  Every fallible public entry point is called on adversarial arguments under
//! catch_unwind with the counting allocator; each call is one event of the Total specification.
use crate::alloc;
use crate::pools;
use crate::psetbuild;
use crate::util::*;
use elements::confidential::{Asset, AssetBlindingFactor, Nonce, Value as CValue, ValueBlindingFactor};
use elements::encode::{deserialize, deserialize_partial, Decodable};
use elements::pset::PartiallySignedTransaction as Pset;
use elements::sighash::{Prevouts, SighashCache};
use elements::{Address, AddressParams, Block, BlockHeader, OutPoint, Script, Transaction, TxIn, TxInWitness, TxOut, TxOutWitness};
use rand::RngCore;
use serde_json::{json, Value};
use std::io::Write;
use std::str::FromStr;

pub struct Rec<'a> {
    f: std::io::BufWriter<std::fs::File>,
    out: &'a mut Out,
    sample_every: u64,
    n: u64,
    debug_last: Option<std::fs::File>,
}

const BASE: usize = 64 * 1024 * 1024;
const PER_BYTE: usize = 256;

impl<'a> Rec<'a> {
    /// run one call; `outcome` maps the closure's result to "ok" / "err" / "some" / "none" / "value"
    fn call<T>(&mut self, fam: &str, api: &str, len: usize, input_desc: &dyn Fn() -> Value, f: impl FnOnce() -> T, outcome: impl FnOnce(&T) -> &'static str) -> Option<T> {
        if let Some(fh) = self.debug_last.as_mut() {
            use std::io::{Seek, SeekFrom};
            let line = format!("{} {}", api, input_desc());
            fh.seek(SeekFrom::Start(0)).ok();
            fh.write_all(line.as_bytes()).ok();
            fh.set_len(line.len() as u64).ok();
        }
        let base = alloc::mark();
        let r = guard(f);
        let peak = alloc::peak_since(base);
        self.n += 1;
        self.out.count("evaluations");
        let (o, panic) = match &r { Ok(v) => (outcome(v), false), Err(_) => ("panic", true) };
        let over = peak > BASE + PER_BYTE * (len + 1);
        if panic {
            let loc = last_panic_loc();
            let short = loc.rsplit('/').take(2).collect::<Vec<_>>().into_iter().rev().collect::<Vec<_>>().join("/");
            self.out.viol(&format!("C10/panic/{}/{}", api, short), json!({"api": api, "input": input_desc()}), r.as_ref().err().cloned().unwrap_or_default());
        }
        if over {
            self.out.viol(&format!("C10/allocation/{}", api), json!({"api": api, "input": input_desc(), "len": len, "peak": peak}), format!("peak {} bytes for an input of {} bytes", peak, len));
        }
        if panic || over || self.n % self.sample_every == 0 {
            writeln!(self.f, "{}", json!({"fam": fam, "api": api, "out": o, "panic": panic, "len": len, "peak": peak})).unwrap();
            self.out.count("events");
        }
        r.ok()
    }
}

fn hexs(b: &[u8]) -> Value { json!(hex(&b[..b.len().min(400)])) }

fn res<T, E>(r: &Result<T, E>) -> &'static str { if r.is_ok() { "ok" } else { "err" } }
fn opt<T>(r: &Option<T>) -> &'static str { if r.is_some() { "some" } else { "none" } }

fn probe_tx(rec: &mut Rec, tx: &Transaction, src: &[u8]) {
    let d = || hexs(src);
    let n = src.len();
    rec.call("accessor", "Transaction::txid", n, &d, || tx.txid(), |_| "value");
    rec.call("accessor", "Transaction::wtxid", n, &d, || tx.wtxid(), |_| "value");
    rec.call("accessor", "Transaction::size/weight/vsize", n, &d, || (tx.size(), tx.weight(), tx.vsize()), |_| "value");
    rec.call("accessor", "Transaction::discount_weight", n, &d, || (tx.discount_weight(), tx.discount_vsize()), |_| "value");
    rec.call("accessor", "Transaction::all_fees", n, &d, || tx.all_fees().len(), |_| "value");
    rec.call("accessor", "Transaction::is_coinbase/has_witness", n, &d, || (tx.is_coinbase(), tx.has_witness()), |_| "value");
    for i in tx.input.iter().take(3) {
        rec.call("accessor", "TxIn::pegin_data", n, &d, || i.pegin_data().is_some(), |_| "value");
        rec.call("accessor", "TxIn::issuance_ids", n, &d, || i.issuance_ids(), |_| "value");
        rec.call("accessor", "TxIn::pegin_prevout", n, &d, || i.pegin_prevout(), opt);
    }
    for o in tx.output.iter().take(3) {
        rec.call("accessor", "TxOut::pegout_data", n, &d, || o.pegout_data().is_some(), |_| "value");
        rec.call("accessor", "TxOut::minimum_value", n, &d, || o.minimum_value(), |_| "value");
        rec.call("accessor", "TxOut::is_null_data/is_fee", n, &d, || (o.is_null_data(), o.is_fee(), o.is_pegout()), |_| "value");
        probe_script(rec, &o.script_pubkey);
    }
    // fallible operations on a decoded transaction
    let secp = pools::secp();
    let utxos: Vec<TxOut> = tx.input.iter().map(|_| TxOut::default()).collect();
    rec.call("verify", "Transaction::verify_tx_amt_proofs", n, &d, || tx.verify_tx_amt_proofs(secp, &utxos), res);
    let prevs: Vec<TxOut> = tx.input.iter().map(|_| TxOut::new_fee(1, elements::AssetId::from_byte_array([1; 32]))).collect();
    for (idx, ht) in [(0usize, elements::SchnorrSighashType::Default), (1, elements::SchnorrSighashType::SinglePlusAnyoneCanPay), (tx.input.len() + 3, elements::SchnorrSighashType::AllPlusAnyoneCanPay), (tx.output.len() + 1, elements::SchnorrSighashType::Single)] {
        rec.call("sighash", "SighashCache::taproot_sighash", n, &d, || SighashCache::new(tx).taproot_sighash(idx, &Prevouts::All(&prevs), None, None, ht, elements::BlockHash::from_byte_array([0; 32])), res);
        rec.call("sighash", "SighashCache::taproot_sighash/One", n, &d, || SighashCache::new(tx).taproot_sighash(idx, &Prevouts::One(idx, prevs.first().cloned().unwrap_or_default()), None, None, ht, elements::BlockHash::from_byte_array([0; 32])), res);
    }
    let pset = rec.call("pset", "Pset::from_tx", n, &d, || Pset::from_tx(tx.clone()), |_| "value");
    if let Some(p) = pset { probe_pset(rec, &p, src); }
}

fn probe_script(rec: &mut Rec, s: &Script) {
    let b = s.to_bytes();
    let d = || hexs(&b);
    let n = b.len();
    rec.call("script", "Script::instructions", n, &d, || s.instructions().count(), |_| "value");
    rec.call("script", "Script::instructions_minimal", n, &d, || s.instructions_minimal().count(), |_| "value");
    rec.call("script", "Script::asm", n, &d, || s.asm().len(), |_| "value");
    rec.call("script", "Script::fmt", n, &d, || format!("{} {:?} {:x}", s, s, s).len(), |_| "value");
    rec.call("script", "Script::is_*", n, &d, || (s.is_p2pkh(), s.is_p2sh(), s.is_p2pk(), s.is_witness_program(), s.is_v0_p2wpkh(), s.is_v0_p2wsh(), s.is_v1_p2tr(), s.is_v1plus_p2witprog(), s.is_op_return(), s.is_provably_unspendable()), |_| "value");
    rec.call("address", "Address::from_script", n, &d, || Address::from_script(s, None, &AddressParams::LIQUID).map(|a| (a.to_string(), a.script_pubkey())), opt);
}

fn probe_pset(rec: &mut Rec, p: &Pset, src: &[u8]) {
    let d = || hexs(src);
    let n = src.len();
    rec.call("pset", "Pset::extract_tx", n, &d, || p.extract_tx(), res);
    rec.call("pset", "Pset::locktime", n, &d, || p.locktime(), res);
    rec.call("pset", "Pset::unique_id", n, &d, || p.unique_id(), res);
    rec.call("pset", "Pset::sanity_check", n, &d, || p.sanity_check(), res);
    rec.call("pset", "Pset::to_string", n, &d, || p.to_string().len(), |_| "value");
    rec.call("merge", "Pset::merge(self)", n, &d, || p.clone().merge(p.clone()), res);
    let secp = pools::secp();
    let secrets: std::collections::HashMap<usize, elements::TxOutSecrets> = std::collections::HashMap::new();
    rec.call("blind", "Pset::blind_last/no-secrets", n, &d, || p.clone().blind_last(&mut rng(1, 1), secp, &secrets), res);
    rec.call("blind", "Pset::blind_non_last/no-secrets", n, &d, || p.clone().blind_non_last(&mut rng(1, 2), secp, &secrets), res);
    let all: std::collections::HashMap<usize, elements::TxOutSecrets> = (0..p.inputs().len() + 2).map(|i| (i, elements::TxOutSecrets::new(elements::AssetId::from_byte_array([7; 32]), AssetBlindingFactor::zero(), 5, ValueBlindingFactor::zero()))).collect();
    rec.call("blind", "Pset::blind_last/arbitrary-secrets", n, &d, || p.clone().blind_last(&mut rng(1, 3), secp, &all), res);
    rec.call("blind", "Pset::surjection_inputs", n, &d, || p.surjection_inputs(&all), res);
    for i in p.inputs().iter().take(2) { rec.call("accessor", "pset::Input::issuance_ids", n, &d, || i.issuance_ids(), |_| "value"); }
}

fn decode_all(rec: &mut Rec, b: &[u8]) {
    let d = || hexs(b);
    let n = b.len();
    macro_rules! dec { ($t:ty, $name:expr) => { rec.call("decode", concat!("deserialize::<", $name, ">"), n, &d, || deserialize::<$t>(b), res) }; }
    if let Some(Ok(tx)) = dec!(Transaction, "Transaction") { probe_tx(rec, &tx, b); }
    if let Some(Ok(blk)) = dec!(Block, "Block") {
        rec.call("accessor", "Block::size/weight/block_hash", n, &d, || (blk.size(), blk.weight(), blk.block_hash()), |_| "value");
        for tx in blk.txdata.iter().take(2) { probe_tx(rec, tx, b); }
    }
    if let Some(Ok(h)) = dec!(BlockHeader, "BlockHeader") {
        rec.call("accessor", "BlockHeader::block_hash/dynafed_root", n, &d, || (h.block_hash(), h.calculate_dynafed_params_root(), { let mut c = h.clone(); c.clear_witness(); c }), |_| "value");
    }
    if let Some(Ok(o)) = dec!(TxOut, "TxOut") {
        rec.call("accessor", "TxOut::pegout_data", n, &d, || o.pegout_data().is_some(), |_| "value");
        rec.call("accessor", "TxOut::minimum_value", n, &d, || o.minimum_value(), |_| "value");
    }
    if let Some(Ok(i)) = dec!(TxIn, "TxIn") { rec.call("accessor", "TxIn::pegin_data", n, &d, || i.pegin_data().is_some(), |_| "value"); }
    if let Some(Ok(w)) = dec!(TxOutWitness, "TxOutWitness") {
        let o = TxOut { witness: w, value: pools::conf_value(&mut rng(3, 3)), asset: pools::conf_asset(&mut rng(3, 4)), ..TxOut::default() };
        rec.call("accessor", "TxOut::minimum_value/decoded-witness", n, &d, || o.minimum_value(), |_| "value");
    }
    dec!(TxInWitness, "TxInWitness");
    dec!(elements::dynafed::Params, "dynafed::Params");
    dec!(elements::dynafed::FullParams, "dynafed::FullParams");
    dec!(Asset, "confidential::Asset");
    dec!(CValue, "confidential::Value");
    dec!(Nonce, "confidential::Nonce");
    dec!(elements::AssetIssuance, "AssetIssuance");
    dec!(OutPoint, "OutPoint");
    if let Some(Ok(s)) = dec!(Script, "Script") { probe_script(rec, &s); }
    dec!(elements::LockTime, "LockTime");
    dec!(Vec<Vec<u8>>, "Vec<Vec<u8>>");
    dec!(Vec<TxOut>, "Vec<TxOut>");
    if let Some(Ok(p)) = dec!(Pset, "PartiallySignedTransaction") { probe_pset(rec, &p, b); }
    rec.call("decode", "deserialize_partial::<Transaction>", n, &d, || deserialize_partial::<Transaction>(b), res);
    // slice parsers
    rec.call("parse_slice", "ControlBlock::from_slice", n, &d, || elements::taproot::ControlBlock::from_slice(b), res);
    rec.call("parse_slice", "TaprootMerkleBranch::from_slice", n, &d, || elements::taproot::TaprootMerkleBranch::from_slice(b), res);
    rec.call("parse_slice", "SchnorrSig::from_slice", n, &d, || elements::SchnorrSig::from_slice(b), res);
    rec.call("parse_slice", "Value::from_commitment", n, &d, || CValue::from_commitment(b), res);
    rec.call("parse_slice", "Asset::from_commitment", n, &d, || Asset::from_commitment(b), res);
    rec.call("parse_slice", "Nonce::from_commitment", n, &d, || Nonce::from_commitment(b), res);
    rec.call("parse_slice", "AssetBlindingFactor::from_slice", n, &d, || AssetBlindingFactor::from_slice(b), res);
    rec.call("parse_slice", "ValueBlindingFactor::from_slice", n, &d, || ValueBlindingFactor::from_slice(b), res);
    rec.call("parse_slice", "PeginData::from_pegin_witness", n, &d, || { let w: Vec<Vec<u8>> = b.chunks(9).map(|c| c.to_vec()).collect(); elements::PeginData::from_pegin_witness(&w, elements::bitcoin::OutPoint::null()).is_ok() }, |_| "value");
    probe_script(rec, &Script::from(b.to_vec()));
}

fn parse_strings(rec: &mut Rec, s: &str) {
    let d = || json!(s.chars().take(300).collect::<String>());
    let n = s.len();
    rec.call("parse_str", "Address::from_str", n, &d, || Address::from_str(s), res);
    for p in [&AddressParams::LIQUID, &AddressParams::ELEMENTS, &AddressParams::LIQUID_TESTNET] { rec.call("parse_str", "Address::parse_with_params", n, &d, || Address::parse_with_params(s, p), res); }
    use elements::blech32::decode::{CheckedHrpstring, SegwitHrpstring, UncheckedHrpstring};
    use elements::blech32::{Blech32, Blech32m};
    rec.call("parse_str", "blech32::UncheckedHrpstring::new", n, &d, || UncheckedHrpstring::new(s).map(|u| (u.has_valid_checksum::<Blech32>(), u.has_valid_checksum::<Blech32m>())), res);
    rec.call("parse_str", "blech32::CheckedHrpstring::new::<Blech32>", n, &d, || CheckedHrpstring::new::<Blech32>(s).map(|c| c.byte_iter().count()), res);
    rec.call("parse_str", "blech32::CheckedHrpstring::new::<Blech32m>", n, &d, || CheckedHrpstring::new::<Blech32m>(s).map(|c| c.byte_iter().count()), res);
    rec.call("parse_str", "blech32::SegwitHrpstring::new", n, &d, || SegwitHrpstring::new(s).map(|c| c.byte_iter().count()), res);
    rec.call("parse_str", "blech32::SegwitHrpstring::new_bech32", n, &d, || SegwitHrpstring::new_bech32(s).map(|c| c.byte_iter().count()), res);
    rec.call("parse_str", "Script::from_hex", n, &d, || Script::from_hex(s), res);
    rec.call("parse_str", "AssetId::from_str", n, &d, || elements::AssetId::from_str(s), res);
    rec.call("parse_str", "Txid::from_str", n, &d, || elements::Txid::from_str(s), res);
    rec.call("parse_str", "OutPoint::from_str", n, &d, || OutPoint::from_str(s), res);
    rec.call("parse_str", "AssetBlindingFactor::from_str", n, &d, || AssetBlindingFactor::from_str(s), res);
    rec.call("parse_str", "ValueBlindingFactor::from_str", n, &d, || ValueBlindingFactor::from_str(s), res);
    rec.call("parse_str", "EcdsaSighashType::from_str", n, &d, || elements::EcdsaSighashType::from_str(s), res);
    rec.call("parse_str", "SchnorrSighashType::from_str", n, &d, || elements::SchnorrSighashType::from_str(s), res);
    rec.call("parse_str", "PsbtSighashType::from_str", n, &d, || elements::pset::PsbtSighashType::from_str(s), res);
    rec.call("parse_str", "Pset::from_str", n, &d, || Pset::from_str(s), res);
    rec.call("parse_str", "ContractHash::from_json_contract", n, &d, || elements::ContractHash::from_json_contract(s), res);
    rec.call("parse_str", "locktime::Height/Time::from_str", n, &d, || (elements::locktime::Height::from_str(s).is_ok(), elements::locktime::Time::from_str(s).is_ok()), |_| "value");
}

fn mutate(b: &[u8], r: &mut Rng, other: &[u8]) -> Vec<u8> {
    let mut v = b.to_vec();
    if v.is_empty() { return vec![r.next_u32() as u8]; }
    for _ in 0..1 + r.next_u32() % 3 {
        if v.is_empty() { break; }
        match r.next_u32() % 10 {
            0 | 1 => { let i = (r.next_u32() as usize) % v.len(); v[i] ^= 1 << (r.next_u32() % 8); }
            2 => { let i = (r.next_u32() as usize) % v.len(); v[i] = r.next_u32() as u8; }
            3 => { let k = (r.next_u32() as usize) % v.len(); v.truncate(k); }
            4 => { v.push(r.next_u32() as u8); }
            5 => { let i = (r.next_u32() as usize) % v.len(); v[i] = [0u8, 1, 0x7f, 0x80, 0xfc, 0xfd, 0xfe, 0xff][(r.next_u32() % 8) as usize]; }
            6 => { let i = (r.next_u32() as usize) % v.len(); v.remove(i); }
            7 => { let i = (r.next_u32() as usize) % (v.len() + 1); v.insert(i, r.next_u32() as u8); }
            8 => { if !other.is_empty() { let i = (r.next_u32() as usize) % v.len(); let j = (r.next_u32() as usize) % other.len(); v.truncate(i); v.extend_from_slice(&other[j..]); } }
            _ => { // huge length field: 0xfe / 0xff prefixed counts
                let i = (r.next_u32() as usize) % v.len();
                let big = [0xffu8, 0xff, 0xff, 0xff, 0xff, 0xff, 0xff, 0x7f, 0xff];
                let k = 5 + (r.next_u32() % 4) as usize;
                for (o, x) in big[..k.min(9)].iter().enumerate() { if i + o < v.len() { v[i + o] = *x; } }
                v[i] = if k > 5 { 0xff } else { 0xfe };
            }
        }
    }
    v
}

fn mutate_str(s: &str, r: &mut Rng) -> String {
    let mut c: Vec<char> = s.chars().collect();
    if c.is_empty() { return "1".into(); }
    for _ in 0..1 + r.next_u32() % 3 {
        if c.is_empty() { break; }
        let i = (r.next_u32() as usize) % c.len();
        match r.next_u32() % 7 {
            0 => c[i] = ['1', 'q', 'Q', 'l', '0', 'b', 'é', ':', ' ', '|', '~'][(r.next_u32() % 11) as usize],
            1 => { c.remove(i); }
            2 => c.insert(i, ['1', 'q', 'z', 'x', 'F'][(r.next_u32() % 5) as usize]),
            3 => c.truncate(i),
            4 => c[i] = c[i].to_ascii_uppercase(),
            5 => { let k = (r.next_u32() as usize) % c.len(); c.swap(i, k); }
            _ => { let t: Vec<char> = c[..i].to_vec(); c = t; c.push('1'); }
        }
    }
    c.into_iter().collect()
}

pub fn record(args: &[String], out: &mut Out) {
    let seed = arg_u64(args, "--seed", 1);
    let per_item = arg_u64(args, "--per-item", 10);
    let random_items = arg_u64(args, "--random", 300);
    let path = arg(args, "--out").expect("--out");
    let sample_every = arg_u64(args, "--sample-every", 1);
    let bases = arg(args, "--bases").map(|p| read_ndjson(&p)).unwrap_or_default();
    let f = std::io::BufWriter::new(std::fs::File::create(&path).expect("create trace"));
    let debug_last = if std::env::var("VH_DEBUG_LAST").is_ok() { std::fs::File::create(format!("{}.last", path)).ok() } else { None };
    let mut r = rng(seed, 0x10);
    // corpus: repository vectors + generated encodings + PSETs
    let mut corpus: Vec<Vec<u8>> = crate::corpus::repo_hex_vectors().into_iter().filter(|v| v.len() < 100_000).collect();
    let n_repo = corpus.len();
    for (ci, c) in bases.iter().enumerate() {
        if ci % 37 != 0 || c["toks"].as_array().unwrap().len() > 300 { continue; }
        let ctx = crate::wire::fill_tx(&c["tx"], &mut r);
        corpus.push(elements::encode::serialize(&crate::wire::build_tx(&c["tx"], &ctx)));
    }
    for _ in 0..3 { corpus.push(elements::encode::serialize(&crate::psetcodec::full_pset(&mut r))); }
    let mut strings: Vec<String> = crate::checksum::representative(&mut r).into_iter().map(|(_, a)| a.to_string()).collect();
    for _ in 0..4 {
        let h = pools::bytes32(&mut r);
        strings.push(Address::p2pkh(&psetbuild::btc_pk(&mut r), None, &AddressParams::ELEMENTS).to_string());
        strings.push(Address::p2sh(&Script::from(h.to_vec()), Some(pools::pubkey(&mut r)), &AddressParams::LIQUID).to_string());
        strings.push(hex(&h));
        strings.push(format!("{}:{}", hex(&h), r.next_u32()));
        strings.push(format!("[elements]{}:{}", hex(&h), r.next_u32() % 10));
    }
    // checksum-valid base58 strings over short and odd payloads (the address parsers index into the payload)
    for n in [0usize, 1, 2, 3, 20, 21, 22, 33, 34, 53, 54, 55, 56] {
        for first in [57u8, 39, 12, 235, 75, 4, 36, 19, 23, 0] {
            let mut p = pools::rbytes(&mut r, n);
            if n > 0 { p[0] = first; }
            strings.push(crate::enc::base58check(&p, true));
            if n == 0 { break; }
        }
    }
    // checksum-valid segwit-style strings over empty and tiny payloads (the decoders strip the checksum, then index into what is left)
    if let (Some(tb), Some(tl)) = (arg(args, "--tab-bech32"), arg(args, "--tab-blech32")) {
        let bech = crate::enc::Code::from_table(&read_ndjson(&tb)[0]);
        let blech = crate::enc::Code::from_table(&read_ndjson(&tl)[0]);
        for hrp in ["ex", "ert", "tex", "lq", "el", "tlq", "bc"] {
            for (code, _name) in [(&bech, "bech"), (&blech, "blech")] {
                for m in [false, true] {
                    for data in [vec![], vec![0u8], vec![1u8], vec![16u8], vec![0u8, 3, 7], vec![1u8, 31, 31, 31, 31]] {
                        let ck = code.checksum(hrp, &data, m);
                        let mut t = format!("{}1", hrp);
                        for d in data.iter().chain(ck.iter()) { t.push(crate::enc::CHARSET[*d as usize] as char); }
                        strings.push(t);
                    }
                }
            }
        }
    }
    strings.extend(["SIGHASH_ALL", "SIGHASH_SINGLE|SIGHASH_ANYONECANPAY", "0x83", "el1", "lq1", "ert1q", "1", "", "{\"a\":1}", "500000000", "cHNldP8="].iter().map(|s| s.to_string()));
    strings.push(crate::psetcodec::full_pset(&mut r).to_string());
    let mut rec = Rec { f, out, sample_every, n: 0, debug_last };
    rec.out.add("corpus_repo_vectors", n_repo as u64);
    rec.out.add("corpus_items", corpus.len() as u64);
    for idx in 0..corpus.len() {
        for m in 0..=per_item {
            let other = corpus[(r.next_u32() as usize) % corpus.len()].clone();
            let b = if m == 0 { corpus[idx].clone() } else { mutate(&corpus[idx], &mut r, &other) };
            decode_all(&mut rec, &b);
        }
        rec.out.count("traces");
    }
    // systematic length blow-ups: every byte position of every (not too long) corpus item is overwritten by each
    // huge CompactSize encoding and offered to the decoders that accept the unmodified item; for PSETs the same is
    // done per key-value pair through the own framing writer, so that the declared lengths stay consistent
    let blow_max = arg_u64(args, "--blowup-max-len", 1500) as usize;
    let keep = rec.sample_every;
    rec.sample_every = keep.max(1) * 97;
    const HUGE: [&[u8]; 5] = [&[0xfd, 0xff, 0xff], &[0xfe, 0xff, 0xff, 0xff, 0xff], &[0xfe, 0x11, 0x27, 0x00, 0x00],
                              &[0xff, 0xff, 0xff, 0xff, 0xff, 0xff, 0xff, 0xff, 0x3f], &[0xff, 0xff, 0xff, 0xff, 0xff, 0xff, 0xff, 0xff, 0xff]];
    for idx in 0..corpus.len() {
        let item = corpus[idx].clone();
        if item.len() > blow_max { continue; }
        macro_rules! blow { ($t:ty, $name:expr) => {
            if deserialize::<$t>(&item).is_ok() {
                rec.out.count("blowup_items");
                for i in 0..item.len() {
                    for h in HUGE.iter() {
                        let mut b = item[..i].to_vec();
                        b.extend_from_slice(h);
                        b.extend_from_slice(&item[i + 1..]);
                        let d = || json!({"blowup_of_corpus_item": idx, "at": i, "with": hex(h), "bytes": hexs(&b)});
                        rec.call("decode", concat!("deserialize::<", $name, ">"), b.len(), &d, || deserialize::<$t>(&b), res);
                    }
                }
            }
        }; }
        blow!(Transaction, "Transaction");
        blow!(Block, "Block");
        blow!(BlockHeader, "BlockHeader");
        blow!(Pset, "PartiallySignedTransaction");
        if let Some(maps) = crate::psetcodec::kv_parse(&item) {
            for mi in 0..maps.len() {
                for pi in 0..maps[mi].len() {
                    for h in HUGE.iter() {
                        for what in 0..2 {
                            let mut m2 = maps.clone();
                            if what == 0 { m2[mi][pi].1 = h.to_vec(); } else { let ty = m2[mi][pi].0[0]; m2[mi][pi].0 = std::iter::once(ty).chain(h.iter().copied()).collect(); }
                            let b = crate::psetcodec::kv_write(&m2);
                            let d = || json!({"pset_pair_blowup": [mi, pi, what], "with": hex(h), "bytes": hexs(&b)});
                            rec.call("decode", "deserialize::<PartiallySignedTransaction>", b.len(), &d, || deserialize::<Pset>(&b), res);
                        }
                    }
                }
            }
        }
    }
    rec.sample_every = keep;
    for _ in 0..random_items {
        let n = (r.next_u32() % 200) as usize;
        let b = pools::rbytes(&mut r, n);
        decode_all(&mut rec, &b);
    }
    for idx in 0..strings.len() {
        for m in 0..=per_item * 4 {
            let s = if m == 0 { strings[idx].clone() } else { mutate_str(&strings[idx], &mut r) };
            parse_strings(&mut rec, &s);
        }
        rec.out.count("traces");
    }
    degenerate_ops(&mut rec, &mut r);
    let n = rec.n;
    rec.f.flush().ok();
    out.add("calls", n);
    out.sample(json!({"corpus_items": corpus.len(), "strings": strings.len(), "calls": n}));
}

/// structurally valid but semantically arbitrary arguments to the fallible in-memory operations
fn degenerate_ops(rec: &mut Rec, r: &mut Rng) {
    let secp = pools::secp();
    let d = || json!("degenerate in-memory arguments");
    // Transaction::blind with every marked-set class incl. none, wrong-length secrets, non-standard scripts
    for marked in 0..4usize {
        for n_secrets in 0..3usize {
            for std_script in [true, false] {
                let mut tx = psetbuild::small_tx(r);
                tx.output.clear();
                let asset = pools::asset_id(r);
                for k in 0..3 {
                    let mut o = TxOut::new_fee(10 + k, asset);
                    o.script_pubkey = if std_script { let mut v = vec![0x00, 0x14]; v.extend(pools::rbytes(r, 20)); Script::from(v) } else { Script::from(vec![0x51, 0x52]) };
                    if (k as usize) < marked { o.nonce = Nonce::Confidential(pools::pubkey(r)); }
                    tx.output.push(o);
                }
                tx.output.push(TxOut::new_fee(1, asset));
                let secrets: Vec<elements::TxOutSecrets> = (0..n_secrets).map(|_| elements::TxOutSecrets::new(asset, pools::abf(r), 31, pools::vbf(r))).collect();
                let api = if marked == 0 { "Transaction::blind/no-output-marked" } else { "Transaction::blind" };
                rec.call("blind", api, 0, &d, || tx.clone().blind(&mut rng(2, 2), secp, &secrets, false), res);
                rec.call("blind", "Transaction::blind/blind_issuances", 0, &d, || tx.clone().blind(&mut rng(2, 3), secp, &secrets, true), res);
            }
        }
    }
    // a PSET that arrives with an all-zero (or maximal) blinding scalar in its global map
    for fill in [0x00u8, 0xff] {
        let mut p = crate::psetcodec::full_pset(r);
        let bytes = elements::encode::serialize(&p);
        if let Some(mut maps) = crate::psetcodec::kv_parse(&bytes) {
            // key: 0xfc | "pset" | subtype 0 | 32-byte scalar ; empty value
            let mut key = vec![0xfcu8, 4, b'p', b's', b'e', b't', 0];
            key.extend(std::iter::repeat(fill).take(32));
            maps[0].insert(0, (key, vec![]));
            let b2 = crate::psetcodec::kv_write(&maps);
            let d2 = || json!({"pset_with_scalar_fill": fill, "bytes": hexs(&b2)});
            if let Some(Ok(q)) = rec.call("decode", "deserialize::<PartiallySignedTransaction>", b2.len(), &d2, || deserialize::<Pset>(&b2), res) { p = q; }
        }
        let secrets: std::collections::HashMap<usize, elements::TxOutSecrets> = (0..p.inputs().len()).map(|i| (i, elements::TxOutSecrets::new(pools::asset_id(r), pools::abf(r), 7, pools::vbf(r)))).collect();
        for o in p.outputs_mut() { o.amount_comm = None; o.asset_comm = None; o.value_rangeproof = None; o.asset_surjection_proof = None; o.ecdh_pubkey = None; o.amount = Some(5); o.asset = Some(secrets[&0].asset); o.blinder_index = Some(0); }
        let dd = || json!({"blind_last_with_scalar_fill": fill});
        rec.call("blind", "Pset::blind_last/odd-scalars", 0, &dd, || p.clone().blind_last(&mut rng(2, 9), secp, &secrets), res);
        rec.call("blind", "Pset::blind_non_last/odd-scalars", 0, &dd, || p.clone().blind_non_last(&mut rng(2, 10), secp, &secrets), res);
    }
    // zero / huge values
    for v in [0u64, 1, u64::MAX] {
        let asset = pools::asset_id(r);
        let addr = Address::p2wpkh(&psetbuild::btc_pk(r), Some(pools::pubkey(r)), &AddressParams::ELEMENTS);
        let sec = [elements::TxOutSecrets::new(asset, pools::abf(r), v, pools::vbf(r))];
        rec.call("blind", "TxOut::new_not_last_confidential", 0, &d, || TxOut::new_not_last_confidential(&mut rng(2, 4), secp, v, &addr, asset, &sec), res);
        let unbl = Address::p2wpkh(&psetbuild::btc_pk(r), None, &AddressParams::ELEMENTS);
        rec.call("blind", "TxOut::new_not_last_confidential/unblinded-address", 0, &d, || TxOut::new_not_last_confidential(&mut rng(2, 5), secp, v, &unbl, asset, &sec), res);
        let empty: [elements::TxOutSecrets; 0] = [];
        rec.call("blind", "TxOut::new_not_last_confidential/no-inputs", 0, &d, || TxOut::new_not_last_confidential(&mut rng(2, 6), secp, v, &addr, asset, &empty), res);
    }
    // unblind of outputs that are not (fully) confidential
    for o in [TxOut::default(), TxOut::new_fee(5, pools::asset_id(r)), TxOut { asset: pools::conf_asset(r), value: pools::conf_value(r), nonce: pools::conf_nonce(r), ..TxOut::default() }] {
        rec.call("blind", "TxOut::unblind", 0, &d, || o.unblind(secp, pools::secret_key(&mut rng(2, 7))), res);
    }
    // PSETs with inconsistent bookkeeping
    let mut p = Pset::new_v2();
    p.add_input(psetbuild::base_input(r, 0));
    p.add_output(psetbuild::base_output(r, "marked"));
    let all: std::collections::HashMap<usize, elements::TxOutSecrets> = [(0usize, elements::TxOutSecrets::new(pools::asset_id(r), pools::abf(r), 3, pools::vbf(r)))].into_iter().collect();
    rec.call("blind", "Pset::blind_last/missing-witness-utxo", 0, &d, || p.clone().blind_last(&mut rng(2, 8), secp, &all), res);
    let mut q = p.clone();
    q.outputs_mut()[0].blinder_index = Some(7);
    rec.call("blind", "Pset::blind_last/blinder-index-out-of-range", 0, &d, || q.clone().blind_last(&mut rng(2, 9), secp, &all), res);
    let mut q = p.clone();
    q.outputs_mut()[0].amount = None;
    q.inputs_mut()[0].witness_utxo = Some(psetbuild::explicit_txout(r));
    rec.call("blind", "Pset::blind_last/no-amount", 0, &d, || q.clone().blind_last(&mut rng(2, 10), secp, &all), res);
    rec.call("pset", "Pset::remove_input/out-of-range", 0, &d, || p.clone().remove_input(9), opt);
    rec.call("pset", "Pset::remove_output/out-of-range", 0, &d, || p.clone().remove_output(9), opt);
    // taproot builder / spend info degenerate requests
    rec.call("taproot", "TaprootSpendInfo::with_huffman_tree/empty", 0, &d, || elements::taproot::TaprootSpendInfo::with_huffman_tree(secp, psetbuild::xonly(&mut rng(2, 11)), Vec::<(u32, Script)>::new()), res);
    rec.call("taproot", "TaprootSpendInfo::with_huffman_tree/zero-weights", 0, &d, || elements::taproot::TaprootSpendInfo::with_huffman_tree(secp, psetbuild::xonly(&mut rng(2, 12)), vec![(0u32, Script::new()), (0, Script::from(vec![0x51])), (u32::MAX, Script::from(vec![0x52])), (u32::MAX, Script::from(vec![0x53]))]), res);
    rec.call("taproot", "TaprootBuilder::add_leaf/depth-200", 0, &d, || elements::taproot::TaprootBuilder::new().add_leaf(200, Script::new()), res);
    rec.call("taproot", "TaprootBuilder::finalize/empty", 0, &d, || elements::taproot::TaprootBuilder::new().finalize(secp, psetbuild::xonly(&mut rng(2, 13))), res);
}
