//! Shared helpers: NDJSON reporting, seeded rng, hex, panic capture.
use rand::SeedableRng;
use rand_chacha::ChaCha20Rng;
use serde_json::{json, Value};
use std::collections::BTreeMap;
use std::io::Write;
use std::panic::{catch_unwind, AssertUnwindSafe};

pub type Rng = ChaCha20Rng;

pub fn rng(seed: u64, stream: u64) -> Rng {
    let mut r = ChaCha20Rng::seed_from_u64(seed);
    r.set_stream(stream);
    r
}

pub fn hex(b: &[u8]) -> String {
    let mut s = String::with_capacity(b.len() * 2);
    for x in b {
        s.push_str(&format!("{:02x}", x));
    }
    s
}

pub fn unhex(s: &str) -> Vec<u8> {
    let s = s.trim();
    (0..s.len() / 2).map(|i| u8::from_str_radix(&s[2 * i..2 * i + 2], 16).expect("hex")).collect()
}

/// Collector of results; everything goes to stdout as NDJSON, one record per line.
pub struct Out {
    stats: BTreeMap<String, u64>,
    samples: Vec<Value>,
    max_samples: usize,
    viol_per_key: BTreeMap<String, u64>,
    max_viol_per_key: u64,
}

impl Out {
    pub fn new() -> Out {
        Out { stats: BTreeMap::new(), samples: vec![], max_samples: 5, viol_per_key: BTreeMap::new(), max_viol_per_key: 3 }
    }
    pub fn count(&mut self, k: &str) {
        *self.stats.entry(k.to_string()).or_insert(0) += 1;
    }
    pub fn add(&mut self, k: &str, n: u64) {
        *self.stats.entry(k.to_string()).or_insert(0) += n;
    }
    pub fn get(&self, k: &str) -> u64 {
        self.stats.get(k).copied().unwrap_or(0)
    }
    pub fn sample(&mut self, v: Value) {
        if self.samples.len() < self.max_samples {
            self.samples.push(v);
        }
    }
    /// Report a violation; `key` identifies the abstract failing class.
    pub fn viol(&mut self, key: &str, case: Value, detail: String) {
        let c = self.viol_per_key.entry(key.to_string()).or_insert(0);
        *c += 1;
        if *c <= self.max_viol_per_key {
            let line = json!({"t":"viol","key":key,"case":case,"detail":detail});
            println!("{}", line);
        }
    }
    pub fn finish(self) {
        for (k, v) in &self.viol_per_key {
            println!("{}", json!({"t":"violcount","key":k,"n":v}));
        }
        for (k, v) in &self.stats {
            println!("{}", json!({"t":"stat","k":k,"v":v}));
        }
        for s in &self.samples {
            println!("{}", json!({"t":"sample","v":s}));
        }
        println!("{}", json!({"t":"end"}));
        std::io::stdout().flush().ok();
    }
}

/// Run `f`, turning a panic into Err(message). Panics of code under test are data.
pub fn guard<T>(f: impl FnOnce() -> T) -> Result<T, String> {
    match catch_unwind(AssertUnwindSafe(f)) {
        Ok(v) => Ok(v),
        Err(e) => {
            let msg = if let Some(s) = e.downcast_ref::<&str>() {
                s.to_string()
            } else if let Some(s) = e.downcast_ref::<String>() {
                s.clone()
            } else {
                "panic".to_string()
            };
            Err(msg)
        }
    }
}

thread_local! {
    pub static LAST_PANIC_LOC: std::cell::RefCell<Option<String>> = const { std::cell::RefCell::new(None) };
}

/// Silence the default panic hook but remember the location of the last panic.
pub fn quiet_panics() {
    std::panic::set_hook(Box::new(|info| {
        let loc = info.location().map(|l| format!("{}:{}", l.file(), l.line()));
        if std::env::var("VH_PANIC_VERBOSE").is_ok() { eprintln!("panic: {}", info); }
        LAST_PANIC_LOC.with(|c| *c.borrow_mut() = loc);
    }));
}

pub fn last_panic_loc() -> String {
    LAST_PANIC_LOC.with(|c| c.borrow().clone()).unwrap_or_default()
}

pub fn read_ndjson(path: &str) -> Vec<Value> {
    let s = std::fs::read_to_string(path).unwrap_or_else(|e| {
        eprintln!("cannot read {}: {}", path, e);
        std::process::exit(2)
    });
    s.lines().filter(|l| !l.trim().is_empty()).map(|l| serde_json::from_str(l).expect("json line")).collect()
}

/// Simple argument access: `--name value`.
pub fn arg(args: &[String], name: &str) -> Option<String> {
    args.iter().position(|a| a == name).and_then(|i| args.get(i + 1).cloned())
}
pub fn arg_u64(args: &[String], name: &str, default: u64) -> u64 {
    arg(args, name).map(|s| s.parse().expect("number")).unwrap_or(default)
}
