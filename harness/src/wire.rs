//! C01 / C02 / C12: replay of Gen_Wire cases.  `fill` binds contents to every named leaf of a
//! shape, `build_tx` constructs the real value from the shape with struct literals, the token
//! strings of the specification are concretised by tok.rs.
use crate::pools;
use crate::sha256c::sha256d;
use crate::tok::{eval_seq, Ctx};
use crate::util::*;
use elements::confidential::{Asset, Nonce, Value as CValue};
use elements::encode::{deserialize, deserialize_partial, serialize, Encodable};
use elements::hashes::Hash as _;
use elements::secp256k1_zkp::{Generator, PedersenCommitment, PublicKey, RangeProof, SurjectionProof, Tweak};
use elements::{AssetId, AssetIssuance, LockTime, OutPoint, Script, Sequence, Transaction, TxIn, TxInWitness, TxOut, TxOutWitness, Txid};
use rand::RngCore;
use serde_json::{json, Value};

fn s<'a>(v: &'a Value, k: &str) -> &'a str {
    v[k].as_str().unwrap_or_else(|| panic!("string field {} in {}", k, v))
}
fn n(v: &Value, k: &str) -> usize {
    v[k].as_u64().unwrap_or_else(|| panic!("number field {} in {}", k, v)) as usize
}
fn hexu32(h: &str) -> u32 {
    u32::from_str_radix(h, 16).unwrap()
}

// ---------- fill: contents for every named leaf

pub fn make_rangeproof_bytes(r: &mut Rng, len: usize) -> Vec<u8> {
    let base = pools::rangeproof_small(r).serialize();
    assert!(len >= base.len(), "rangeproof length class {} below the real proof length {}", len, base.len());
    let mut v = base;
    while v.len() < len {
        v.push(r.next_u32() as u8);
    }
    v
}

pub fn make_surjection_bytes(r: &mut Rng, len: usize) -> Vec<u8> {
    // 2 bytes n_inputs, bitmap of ceil(n_inputs / 8) bytes, 32 * (1 + used)
    for m in 1..=32usize {
        if len < 2 + m + 32 { break; }
        let rem = len - 2 - m;
        if rem % 32 != 0 { continue; }
        let used = rem / 32 - 1;
        let n = m * 8;
        if used == 0 || used > n { continue; }
        let mut v = vec![(n % 256) as u8, (n / 256) as u8];
        let mut bitmap = vec![0u8; m];
        for k in 0..used { bitmap[k / 8] |= 1 << (k % 8); }
        v.extend(bitmap);
        v.extend(pools::rbytes(r, 32 * (1 + used)));
        return v;
    }
    panic!("surjection proof length class {}", len);
}

fn fill_bytes(b: &Value, r: &mut Rng, ctx: &mut Ctx) {
    let len = n(b, "len");
    if len == 0 {
        return;
    }
    let name = s(b, "f");
    match s(b, "a") {
        "r" => ctx.set(name, &pools::rbytes(r, len)),
        "rp" => {
            ctx.set(name, &make_rangeproof_bytes(r, len));
            // invalid header: a proof that rangeproof_info refuses
            let mut bad = vec![0xffu8; len];
            bad[0] = 0xff;
            ctx.set(&format!("{}#bp", name), &bad);
        }
        "sp" => {
            ctx.set(name, &make_surjection_bytes(r, len));
            ctx.set(&format!("{}#bq", name), &vec![0u8; len]);
        }
        a => panic!("byte attr {}", a),
    }
}

fn bad_x(family: &str, r: &mut Rng) -> Vec<u8> {
    loop {
        let x = pools::bytes32(r);
        let mut b = vec![0u8; 33];
        b[1..].copy_from_slice(&x);
        let bad = match family {
            "value" => { b[0] = 8; PedersenCommitment::from_slice(&b).is_err() }
            "asset" => { b[0] = 10; Generator::from_slice(&b).is_err() }
            _ => { b[0] = 2; PublicKey::from_slice(&b).is_err() }
        };
        if bad {
            return x.to_vec();
        }
    }
}

fn fill_conf(c: &Value, family: &str, r: &mut Rng, ctx: &mut Ctx) {
    let name = s(c, "f");
    match s(c, "k") {
        "null" => {}
        "expl" => {
            if family == "value" {
                ctx.set(name, &(1 + (r.next_u64() >> 16)).to_be_bytes());
            } else {
                ctx.set(name, &pools::bytes32(r));
            }
        }
        k => {
            let want = u8::from_str_radix(&k[1..], 16).unwrap();
            loop {
                let ser: Vec<u8> = match family {
                    "value" => pools::commitment(r).serialize().to_vec(),
                    "asset" => pools::generator(r).serialize().to_vec(),
                    _ => pools::pubkey(r).serialize().to_vec(),
                };
                // both parities of a valid x are valid encodings, so the prefix of the sample is irrelevant
                let _ = want;
                ctx.set(name, &ser[1..]);
                break;
            }
            ctx.set(&format!("{}#bx", name), &bad_x(family, r));
        }
    }
}

pub fn fill_tx(tx: &Value, r: &mut Rng) -> Ctx {
    let mut ctx = Ctx::new();
    for i in tx["ins"].as_array().unwrap() {
        ctx.set(s(i, "txid"), &pools::bytes32(r));
        fill_bytes(&i["ss"], r, &mut ctx);
        let iss = &i["iss"];
        if iss["has"].as_bool().unwrap() {
            let nf = s(iss, "nf");
            match s(iss, "na") {
                "z" => ctx.set(nf, &[0u8; 32]),
                _ => ctx.set(nf, pools::tweak(r).as_ref()),
            }
            ctx.set(&format!("{}#bs", nf), &[0xffu8; 32]);
            ctx.set(s(iss, "ef"), &pools::bytes32(r));
            fill_conf(&iss["amount"], "value", r, &mut ctx);
            fill_conf(&iss["keys"], "value", r, &mut ctx);
        }
        let w = &i["wit"];
        fill_bytes(&w["arp"], r, &mut ctx);
        fill_bytes(&w["krp"], r, &mut ctx);
        for it in w["sw"].as_array().unwrap().iter().chain(w["pw"].as_array().unwrap()) {
            fill_bytes(it, r, &mut ctx);
        }
    }
    for o in tx["outs"].as_array().unwrap() {
        fill_conf(&o["asset"], "asset", r, &mut ctx);
        fill_conf(&o["value"], "value", r, &mut ctx);
        fill_conf(&o["nonce"], "nonce", r, &mut ctx);
        fill_bytes(&o["spk"], r, &mut ctx);
        fill_bytes(&o["wit"]["sp"], r, &mut ctx);
        fill_bytes(&o["wit"]["rp"], r, &mut ctx);
    }
    ctx
}

// ---------- build: shape + contents -> real value

fn bytes_of(b: &Value, ctx: &Ctx) -> Vec<u8> {
    if n(b, "len") == 0 { vec![] } else { ctx.fields[s(b, "f")].clone() }
}
fn arr32(v: &[u8]) -> [u8; 32] {
    let mut a = [0u8; 32];
    a.copy_from_slice(v);
    a
}
fn point33(k: &str, x: &[u8]) -> [u8; 33] {
    let mut b = [0u8; 33];
    b[0] = u8::from_str_radix(&k[1..], 16).unwrap();
    b[1..].copy_from_slice(x);
    b
}
fn build_value(c: &Value, ctx: &Ctx) -> CValue {
    match s(c, "k") {
        "null" => CValue::Null,
        "expl" => {
            let mut a = [0u8; 8];
            a.copy_from_slice(&ctx.fields[s(c, "f")]);
            CValue::Explicit(u64::from_be_bytes(a))
        }
        k => CValue::Confidential(PedersenCommitment::from_slice(&point33(k, &ctx.fields[s(c, "f")])).expect("commitment")),
    }
}
fn build_asset(c: &Value, ctx: &Ctx) -> Asset {
    match s(c, "k") {
        "null" => Asset::Null,
        "expl" => Asset::Explicit(AssetId::from_byte_array(arr32(&ctx.fields[s(c, "f")]))),
        k => Asset::Confidential(Generator::from_slice(&point33(k, &ctx.fields[s(c, "f")])).expect("generator")),
    }
}
fn build_nonce(c: &Value, ctx: &Ctx) -> Nonce {
    match s(c, "k") {
        "null" => Nonce::Null,
        "expl" => Nonce::Explicit(arr32(&ctx.fields[s(c, "f")])),
        k => Nonce::Confidential(PublicKey::from_slice(&point33(k, &ctx.fields[s(c, "f")])).expect("pubkey")),
    }
}
fn build_rp(b: &Value, ctx: &Ctx) -> Option<Box<RangeProof>> {
    if n(b, "len") == 0 { None } else { Some(Box::new(RangeProof::from_slice(&ctx.fields[s(b, "f")]).expect("rangeproof"))) }
}
fn build_sp(b: &Value, ctx: &Ctx) -> Option<Box<SurjectionProof>> {
    if n(b, "len") == 0 { None } else { Some(Box::new(SurjectionProof::from_slice(&ctx.fields[s(b, "f")]).expect("surjection proof"))) }
}
fn build_stack(v: &Value, ctx: &Ctx) -> Vec<Vec<u8>> {
    v.as_array().unwrap().iter().map(|b| bytes_of(b, ctx)).collect()
}
fn vout_plain(cls: &str) -> u32 {
    match cls {
        "zero" => 0,
        "small" => 7,
        "max30" => 0x3fff_ffff,
        "null" => 0xffff_ffff,
        x => panic!("vout class {}", x),
    }
}

pub fn build_txin(i: &Value, ctx: &Ctx) -> TxIn {
    let iss = &i["iss"];
    TxIn {
        previous_output: OutPoint::new(Txid::from_byte_array(arr32(&ctx.fields[s(i, "txid")])), vout_plain(s(i, "vout"))),
        is_pegin: i["pegin"].as_bool().unwrap(),
        script_sig: Script::from(bytes_of(&i["ss"], ctx)),
        sequence: Sequence(hexu32(s(i, "seq"))),
        asset_issuance: if iss["has"].as_bool().unwrap() {
            AssetIssuance {
                asset_blinding_nonce: Tweak::from_slice(&ctx.fields[s(iss, "nf")]).expect("tweak"),
                asset_entropy: arr32(&ctx.fields[s(iss, "ef")]),
                amount: build_value(&iss["amount"], ctx),
                inflation_keys: build_value(&iss["keys"], ctx),
            }
        } else {
            AssetIssuance::null()
        },
        witness: build_inwit(&i["wit"], ctx),
    }
}

pub fn build_inwit(w: &Value, ctx: &Ctx) -> TxInWitness {
    TxInWitness {
        amount_rangeproof: build_rp(&w["arp"], ctx),
        inflation_keys_rangeproof: build_rp(&w["krp"], ctx),
        script_witness: build_stack(&w["sw"], ctx),
        pegin_witness: build_stack(&w["pw"], ctx),
    }
}
pub fn build_outwit(w: &Value, ctx: &Ctx) -> TxOutWitness {
    TxOutWitness { surjection_proof: build_sp(&w["sp"], ctx), rangeproof: build_rp(&w["rp"], ctx) }
}

pub fn build_txout(o: &Value, ctx: &Ctx) -> TxOut {
    TxOut {
        asset: build_asset(&o["asset"], ctx),
        value: build_value(&o["value"], ctx),
        nonce: build_nonce(&o["nonce"], ctx),
        script_pubkey: Script::from(bytes_of(&o["spk"], ctx)),
        witness: build_outwit(&o["wit"], ctx),
    }
}

pub fn build_tx(tx: &Value, ctx: &Ctx) -> Transaction {
    Transaction {
        version: hexu32(s(tx, "version")),
        // through the constructor of its kind (heights below 500 000 000, times from there on)
        lock_time: { let n = hexu32(s(tx, "lock")); if n < 500_000_000 { LockTime::from_height(n).expect("height") } else { LockTime::from_time(n).expect("time") } },
        input: tx["ins"].as_array().unwrap().iter().map(|i| build_txin(i, ctx)).collect(),
        output: tx["outs"].as_array().unwrap().iter().map(|o| build_txout(o, ctx)).collect(),
    }
}

/// Abstract class of a transaction shape, for violation keys and distinct counting.
pub fn tx_class(tx: &Value) -> String {
    let ins: Vec<String> = tx["ins"].as_array().unwrap().iter().take(2).map(|i| {
        let iss = &i["iss"];
        let w = &i["wit"];
        format!("{}{}{}[{}{}{}{}]", s(i, "vout"), if i["pegin"].as_bool().unwrap() { "+peg" } else { "" },
            if iss["has"].as_bool().unwrap() { format!("+iss({},{},{})", s(iss, "na"), s(&iss["amount"], "k"), s(&iss["keys"], "k")) } else { String::new() },
            if n(&w["arp"], "len") > 0 { "a" } else { "" }, if n(&w["krp"], "len") > 0 { "k" } else { "" },
            if !w["sw"].as_array().unwrap().is_empty() { "s" } else { "" }, if !w["pw"].as_array().unwrap().is_empty() { "p" } else { "" })
    }).collect();
    let outs: Vec<String> = tx["outs"].as_array().unwrap().iter().take(2).map(|o| {
        format!("{}/{}/{}[{}{}]", s(&o["asset"], "k"), s(&o["value"], "k"), s(&o["nonce"], "k"),
            if n(&o["wit"]["sp"], "len") > 0 { "s" } else { "" }, if n(&o["wit"]["rp"], "len") > 0 { "r" } else { "" })
    }).collect();
    format!("nin={};nout={};in={};out={}", tx["ins"].as_array().unwrap().len(), tx["outs"].as_array().unwrap().len(), ins.join(","), outs.join(","))
}

struct CountWriter(usize);
impl std::io::Write for CountWriter {
    fn write(&mut self, b: &[u8]) -> std::io::Result<usize> { self.0 += b.len(); Ok(b.len()) }
    fn flush(&mut self) -> std::io::Result<()> { Ok(()) }
}

/// Replay of base cases: C01 (both directions), C02 (ids), C12 (sizes).
pub fn base(args: &[String], out: &mut Out) {
    let cases = read_ndjson(&arg(args, "--cases").expect("--cases"));
    let seed = arg_u64(args, "--seed", 1);
    let props = arg(args, "--props").unwrap_or_else(|| "C01,C02,C12".into());
    let (p1, p2, p12) = (props.contains("C01"), props.contains("C02"), props.contains("C12"));
    let mut classes = std::collections::BTreeSet::new();
    for (ci, c) in cases.iter().enumerate() {
        out.count("evaluations");
        let txs = &c["tx"];
        let cls = tx_class(txs);
        classes.insert(cls.clone());
        if ci % 997 == 5 {
            out.sample(json!({"class": cls, "n_tokens": c["toks"].as_array().unwrap().len(), "size": c["size"], "weight": c["weight"]}));
        }
        let mut r = rng(seed, ci as u64);
        let ctx = fill_tx(txs, &mut r);
        let case = json!({"class": cls, "seed": seed, "case_index": ci});
        let res = guard(|| {
            let mut bad: Vec<(String, String)> = vec![];
            let tx = build_tx(txs, &ctx);
            let want = eval_seq(&c["toks"], &ctx);
            let got = serialize(&tx);
            if p1 {
                if got != want {
                    let at = got.iter().zip(want.iter()).position(|(a, b)| a != b).unwrap_or(got.len().min(want.len()));
                    bad.push((format!("C01/encode/bytes-differ/{}", cls), format!("first difference at byte {} (impl {} bytes, spec {} bytes)", at, got.len(), want.len())));
                }
                let mut cw = CountWriter(0);
                let ret = tx.consensus_encode(&mut cw).unwrap();
                if ret != cw.0 || ret != got.len() {
                    bad.push((format!("C01/encode/reported-length/{}", cls), format!("returned {} wrote {}", ret, cw.0)));
                }
                match deserialize::<Transaction>(&want) {
                    Ok(back) => {
                        if back != tx {
                            bad.push((format!("C01/decode/value-differs/{}", cls), String::new()));
                        }
                        if serialize(&back) != want {
                            bad.push((format!("C01/decode/reencode-differs/{}", cls), String::new()));
                        }
                    }
                    Err(e) => bad.push((format!("C01/decode/canonical-rejected/{}", cls), e.to_string())),
                }
                match deserialize_partial::<Transaction>(&want) {
                    Ok((_, used)) if used == want.len() => {}
                    other => bad.push((format!("C01/decode/partial-consumed/{}", cls), format!("{:?}", other.map(|x| x.1).map_err(|e| e.to_string())))),
                }
            }
            if p2 {
                let pre = eval_seq(&c["txidpre"], &ctx);
                if tx.txid().to_byte_array() != sha256d(&pre) {
                    bad.push((format!("C02/txid/{}", cls), "txid is not the double-SHA256 of the witness-stripped serialization".into()));
                }
                if tx.wtxid().to_byte_array() != sha256d(&want) {
                    bad.push((format!("C02/wtxid/{}", cls), "wtxid is not the double-SHA256 of the full serialization".into()));
                }
                let hw = c["haswit"].as_bool().unwrap();
                if (tx.txid().to_byte_array() == tx.wtxid().to_byte_array()) == hw {
                    bad.push((format!("C02/wtxid-eq-txid/{}", cls), format!("has witness = {}", hw)));
                }
            }
            if p12 {
                let num = |k: &str| c[k].as_u64().unwrap() as usize;
                let checks = [
                    ("size", tx.size(), num("size")),
                    ("weight", tx.weight(), num("weight")),
                    ("vsize", tx.vsize(), num("vsize")),
                    ("discount_weight", tx.discount_weight(), num("dweight")),
                    ("discount_vsize", tx.discount_vsize(), num("dvsize")),
                ];
                for (name, g, w) in checks {
                    if g != w {
                        bad.push((format!("C12/{}/{}", name, cls), format!("impl {} spec {}", g, w)));
                    }
                }
                // and against the measured lengths of the real serializations
                let full = got.len();
                let mut stripped = tx.clone();
                for i in &mut stripped.input { i.witness = TxInWitness::default(); }
                for o in &mut stripped.output { o.witness = TxOutWitness::default(); }
                let sl = serialize(&stripped).len();
                if tx.size() != full || tx.weight() != 3 * sl + full {
                    bad.push((format!("C12/measured/{}", cls), format!("size {} vs {} ; weight {} vs {}", tx.size(), full, tx.weight(), 3 * sl + full)));
                }
                for o in &tx.output {
                    let rl = o.witness.rangeproof.as_ref().map_or(0, |p| p.serialize().len());
                    let sl = o.witness.surjection_proof.as_ref().map_or(0, |p| p.serialize().len());
                    if o.witness.rangeproof_len() != rl || o.witness.surjectionproof_len() != sl {
                        bad.push((format!("C12/proof-len/{}", cls), String::new()));
                    }
                }
            }
            bad
        });
        match res {
            Ok(bad) => for (k, d) in bad { out.viol(&k, case.clone(), d); },
            Err(p) => out.viol(&format!("C01/panic/{}", last_panic_loc()), case, p),
        }
    }
    out.add("distinct_classes", classes.len() as u64);
}

/// Replay of wire strings (mutants, non-canonical forms): accept/reject, consumed, canonicity, decoded value.
pub fn wire(args: &[String], out: &mut Out) {
    let cases = read_ndjson(&arg(args, "--cases").expect("--cases"));
    let bases = read_ndjson(&arg(args, "--bases").expect("--bases"));
    let seed = arg_u64(args, "--seed", 1);
    // a context that binds every field name occurring in any base shape (names are positional)
    let mut accepted = 0u64;
    for (ci, c) in cases.iter().enumerate() {
        out.count("evaluations");
        let toks = &c["toks"];
        // bind contents: every named field of the string, by attribute
        let mut r = rng(seed, 0x3000_0000 + ci as u64);
        let ctx = fill_from_tokens(toks, &bases, &mut r);
        let want_ok = c["ok"].as_bool().unwrap();
        let want_pok = c["pok"].as_bool().unwrap();
        let case = json!({"case_index": ci, "seed": seed, "toks": if toks.as_array().unwrap().len() < 60 { toks.clone() } else { json!("long") }});
        if ci % 1500 == 11 {
            out.sample(json!({"toks": toks, "ok": want_ok, "pok": want_pok, "consumed": c["consumed"]}));
        }
        let res = guard(|| {
            let mut bad: Vec<(String, String)> = vec![];
            let bytes = eval_seq(toks, &ctx);
            let cls = wire_class(toks);
            let d = deserialize::<Transaction>(&bytes);
            let dp = deserialize_partial::<Transaction>(&bytes);
            if d.is_ok() != want_ok {
                bad.push((format!("C01/wire/{}/{}", if want_ok { "valid-rejected" } else { "invalid-accepted" }, cls), format!("{:?}", d.as_ref().map(|_| ()).map_err(|e| e.to_string()))));
            }
            if dp.is_ok() != want_pok {
                bad.push((format!("C01/wire-partial/{}/{}", if want_pok { "valid-rejected" } else { "invalid-accepted" }, cls), String::new()));
            }
            if let Ok((v, used)) = &dp {
                if want_pok {
                    if *used != c["consumed"].as_u64().unwrap() as usize {
                        bad.push((format!("C01/wire-partial/consumed/{}", cls), format!("impl {} spec {}", used, c["consumed"])));
                    }
                    if serialize(v)[..] != bytes[..*used] {
                        bad.push((format!("C01/wire/reencode-differs/{}", cls), String::new()));
                    }
                    let want_v = build_tx(&c["val"], &ctx);
                    if *v != want_v {
                        bad.push((format!("C01/wire/decoded-value/{}", cls), "decoded value differs from the value the specification's decoder yields".into()));
                    }
                } else if serialize(v)[..] != bytes[..*used] {
                    bad.push((format!("C01/wire/noncanonical-accepted/{}", cls), String::new()));
                }
            }
            bad
        });
        match res {
            Ok(bad) => {
                if want_pok { accepted += 1; }
                for (k, d) in bad { out.viol(&k, case.clone(), d); }
            }
            Err(p) => out.viol(&format!("C01/panic/{}", last_panic_loc()), case, p),
        }
    }
    out.add("distinct_cases", cases.len() as u64);
    out.add("accepted_strings", accepted);
}

/// Class of a wire string: which deviation it carries (derived from the tokens alone).
fn wire_class(toks: &Value) -> String {
    let a = toks.as_array().unwrap();
    let mut tags = vec![];
    for t in a {
        let t = t.as_array().unwrap();
        match t[0].as_str().unwrap() {
            "viw" => {
                let (nv, w) = (t[1].as_u64().unwrap(), t[2].as_u64().unwrap());
                let min = if nv < 253 { 1 } else if nv <= 0xffff { 3 } else { 5 };
                if w != min { tags.push(format!("nonminimal-varint-w{}", w)); }
            }
            "vihi" => tags.push("compactsize-above-2^32".to_string()),
            "u8" => {
                let v = t[1].as_u64().unwrap();
                if v == 12 { tags.push("prefix-12".to_string()); }
            }
            "f" => {
                let at = t[3].as_str().unwrap();
                if matches!(at, "bx" | "bs" | "bp" | "bq") { tags.push(format!("bad-{}", at)); }
            }
            _ => {}
        }
    }
    if a.len() >= 2 && a[1][0] == "u8" {
        tags.push(format!("flag{}", a[1][1]));
    }
    tags.push(format!("ntok{}", if a.len() < 8 { a.len().to_string() } else { "8+".into() }));
    tags.join("+")
}

/// Bind contents for the fields named in a token string.  The family of a point/scalar field is
/// recovered from its positional name suffix.
fn fill_from_tokens(toks: &Value, _bases: &[Value], r: &mut Rng) -> Ctx {
    let mut ctx = Ctx::new();
    for t in toks.as_array().unwrap() {
        let t = t.as_array().unwrap();
        if t[0] != "f" { continue; }
        let name = t[1].as_str().unwrap();
        let len = t[2].as_u64().unwrap() as usize;
        let attr = t[3].as_str().unwrap();
        if ctx.fields.contains_key(name) { continue; }
        let suffix = name.rsplit('.').next().unwrap();
        match attr {
            "r" => {
                if suffix == "value" || suffix == "amount" || suffix == "keys" { ctx.set(name, &(1 + (r.next_u64() >> 16)).to_be_bytes()); } else { ctx.set(name, &pools::rbytes(r, len)); }
            }
            "z" => { ctx.set(name, &[0u8; 32]); ctx.set(&format!("{}#bs", name), &[0xffu8; 32]); }
            "sc" | "bs" => { ctx.set(name, pools::tweak(r).as_ref()); ctx.set(&format!("{}#bs", name), &[0xffu8; 32]); }
            "pt" | "bx" => {
                let fam = match suffix { "asset" => "asset", "nonce" => "nonce", _ => "value" };
                let ser: Vec<u8> = match fam { "value" => pools::commitment(r).serialize().to_vec(), "asset" => pools::generator(r).serialize().to_vec(), _ => pools::pubkey(r).serialize().to_vec() };
                ctx.set(name, &ser[1..]);
                ctx.set(&format!("{}#bx", name), &bad_x(fam, r));
            }
            "rp" | "bp" => { ctx.set(name, &make_rangeproof_bytes(r, len)); ctx.set(&format!("{}#bp", name), &vec![0xffu8; len]); }
            "sp" | "bq" => { ctx.set(name, &make_surjection_bytes(r, len)); ctx.set(&format!("{}#bq", name), &vec![0u8; len]); }
            a => panic!("attr {}", a),
        }
    }
    ctx
}

// ---------- C02: single-field modifications of a real transaction

/// Apply a modification to the field named `f` ("i1.txid", "o2.rp", "version", ...).
pub fn modify_tx(tx: &mut Transaction, f: &str, r: &mut Rng) {
    if f == "version" { tx.version ^= 1; return; }
    if f == "lock" { tx.lock_time = LockTime::from_consensus(tx.lock_time.to_consensus_u32() ^ 1); return; }
    let (pos, field) = f.split_once('.').unwrap();
    let idx: usize = pos[1..].parse::<usize>().unwrap() - 1;
    let other_rp = |r: &mut Rng, old: &Option<Box<RangeProof>>| -> Option<Box<RangeProof>> {
        let len = old.as_ref().map_or(120, |p| p.len());
        loop {
            let b = make_rangeproof_bytes(r, len.max(100));
            let p = RangeProof::from_slice(&b).unwrap();
            if old.as_ref().map_or(true, |o| o.serialize() != p.serialize()) { return Some(Box::new(p)); }
        }
    };
    if pos.starts_with('i') {
        let i = &mut tx.input[idx];
        match field {
            "txid" => { let mut b = i.previous_output.txid.to_byte_array(); b[5] ^= 0x20; i.previous_output.txid = Txid::from_byte_array(b); }
            "vout" => i.previous_output.vout = if i.previous_output.vout == 0xffff_ffff { 5 } else { i.previous_output.vout ^ 2 },
            "pegin" => i.is_pegin = !i.is_pegin,
            "ss" => { let mut b = i.script_sig.to_bytes(); b.push(0x51); i.script_sig = Script::from(b); }
            "seq" => i.sequence = Sequence(i.sequence.0 ^ 1),
            "nonce" => i.asset_issuance.asset_blinding_nonce = pools::tweak(r),
            "entropy" => i.asset_issuance.asset_entropy[3] ^= 4,
            "amount" => i.asset_issuance.amount = match i.asset_issuance.amount { CValue::Explicit(x) => CValue::Explicit(x + 1), _ => CValue::Explicit(12345) },
            "keys" => i.asset_issuance.inflation_keys = match i.asset_issuance.inflation_keys { CValue::Explicit(x) => CValue::Explicit(x + 1), _ => CValue::Explicit(54321) },
            "arp" => i.witness.amount_rangeproof = other_rp(r, &i.witness.amount_rangeproof),
            "krp" => i.witness.inflation_keys_rangeproof = other_rp(r, &i.witness.inflation_keys_rangeproof),
            "sw" => i.witness.script_witness.push(vec![1, 2]),
            "pw" => i.witness.pegin_witness.push(vec![3]),
            x => panic!("input field {}", x),
        }
    } else {
        let o = &mut tx.output[idx];
        match field {
            "asset" => o.asset = match o.asset { Asset::Explicit(_) => Asset::Explicit(pools::asset_id(r)), _ => pools::conf_asset(r) },
            "value" => o.value = match o.value { CValue::Explicit(x) => CValue::Explicit(x ^ 1), _ => pools::conf_value(r) },
            "nonce" => o.nonce = match o.nonce { Nonce::Null => Nonce::Explicit(pools::bytes32(r)), Nonce::Explicit(_) => Nonce::Explicit(pools::bytes32(r)), _ => pools::conf_nonce(r) },
            "spk" => { let mut b = o.script_pubkey.to_bytes(); b.push(0x51); o.script_pubkey = Script::from(b); }
            "sp" => {
                let old = o.witness.surjection_proof.as_ref().map(|p| p.serialize());
                loop {
                    let b = make_surjection_bytes(r, old.as_ref().map_or(67, |x| x.len()));
                    if Some(&b) != old.as_ref() { o.witness.surjection_proof = Some(Box::new(SurjectionProof::from_slice(&b).unwrap())); break; }
                }
            }
            "rp" => o.witness.rangeproof = other_rp(r, &o.witness.rangeproof),
            x => panic!("output field {}", x),
        }
    }
}

/// C02 on transactions: every single-field modification, classified by the specification.
pub fn txfields(args: &[String], out: &mut Out) {
    let cases = read_ndjson(&arg(args, "--cases").expect("--cases"));
    let seed = arg_u64(args, "--seed", 1);
    let stride = arg_u64(args, "--stride", 1) as usize;
    let mut classes = std::collections::BTreeSet::new();
    for (ci, c) in cases.iter().enumerate() {
        if ci % stride != 0 || c["tx"]["ins"].as_array().unwrap().len() > 4 || c["tx"]["outs"].as_array().unwrap().len() > 4 { continue; }
        let txs = &c["tx"];
        let cls = tx_class(txs);
        let mut r = rng(seed, 0x0200_0000 + ci as u64);
        let ctx = fill_tx(txs, &mut r);
        let res = guard(|| {
            let mut bad: Vec<(String, String)> = vec![];
            let tx = build_tx(txs, &ctx);
            let (id, wid) = (tx.txid(), tx.wtxid());
            let mut n_mod = 0u64;
            for f in c["fields"].as_array().unwrap() {
                let name = f["f"].as_str().unwrap();
                let is_wit = f["w"].as_bool().unwrap();
                let mut t2 = tx.clone();
                modify_tx(&mut t2, name, &mut r);
                n_mod += 1;
                let suffix = name.rsplit('.').next().unwrap();
                if t2 == tx { bad.push((format!("C02/harness/modification-noop/{}", suffix), String::new())); continue; }
                let changed = t2.txid() != id;
                if is_wit && changed {
                    bad.push((format!("C02/txid/changed-by-witness/{}", suffix), format!("class {}", cls)));
                }
                if !is_wit && !changed {
                    bad.push((format!("C02/txid/blind-to/{}", suffix), format!("class {}", cls)));
                }
                if t2.wtxid() == wid {
                    bad.push((format!("C02/wtxid/blind-to/{}", suffix), format!("class {}", cls)));
                }
            }
            (bad, n_mod)
        });
        match res {
            Ok((bad, n_mod)) => {
                out.add("evaluations", n_mod);
                classes.insert(cls.clone());
                for (k, d) in bad { out.viol(&k, json!({"class": cls, "case_index": ci, "seed": seed}), d); }
            }
            Err(p) => out.viol(&format!("C02/panic/{}", last_panic_loc()), json!({"class": cls}), p),
        }
    }
    out.add("distinct_classes", classes.len() as u64);
    out.sample(json!({"note": "each case: every field position of the shape modified once; txid must change iff the field is not witness data"}));
}

// ---------- headers, parameters, blocks

use elements::dynafed::{FullParams, Params};
use elements::{Block, BlockExtData, BlockHeader};

fn fill_params(p: &Value, r: &mut Rng, ctx: &mut Ctx) {
    match s(p, "kind") {
        "null" => {}
        "compact" => { fill_bytes(&p["sbs"], r, ctx); ctx.set(s(p, "elided"), &pools::bytes32(r)); }
        _ => {
            for k in ["sbs", "fp", "fps"] { fill_bytes(&p[k], r, ctx); }
            for e in p["ext"].as_array().unwrap() { fill_bytes(e, r, ctx); }
        }
    }
}
fn build_params(p: &Value, ctx: &Ctx) -> Params {
    match s(p, "kind") {
        "null" => Params::Null,
        "compact" => Params::Compact {
            signblockscript: Script::from(bytes_of(&p["sbs"], ctx)),
            signblock_witness_limit: hexu32(s(p, "lim")),
            elided_root: elements::dynafed::ElidedRoot::from_byte_array(arr32(&ctx.fields[s(p, "elided")])),
        },
        _ => Params::Full(FullParams::new(
            Script::from(bytes_of(&p["sbs"], ctx)),
            hexu32(s(p, "lim")),
            elements::bitcoin::ScriptBuf::from(bytes_of(&p["fp"], ctx)),
            bytes_of(&p["fps"], ctx),
            build_stack(&p["ext"], ctx),
        )),
    }
}
fn fill_header(h: &Value, r: &mut Rng, ctx: &mut Ctx) {
    ctx.set(s(h, "prev"), &pools::bytes32(r));
    ctx.set(s(h, "mroot"), &pools::bytes32(r));
    let e = &h["ext"];
    if s(e, "kind") == "proof" {
        fill_bytes(&e["challenge"], r, ctx);
        fill_bytes(&e["solution"], r, ctx);
    } else {
        fill_params(&e["cur"], r, ctx);
        fill_params(&e["prop"], r, ctx);
        for w in e["wit"].as_array().unwrap() { fill_bytes(w, r, ctx); }
    }
}
fn build_header(h: &Value, ctx: &Ctx) -> BlockHeader {
    let e = &h["ext"];
    BlockHeader {
        version: hexu32(s(h, "version")),
        prev_blockhash: elements::BlockHash::from_byte_array(arr32(&ctx.fields[s(h, "prev")])),
        merkle_root: elements::TxMerkleNode::from_byte_array(arr32(&ctx.fields[s(h, "mroot")])),
        time: hexu32(s(h, "time")),
        height: hexu32(s(h, "height")),
        ext: if s(e, "kind") == "proof" {
            BlockExtData::Proof { challenge: Script::from(bytes_of(&e["challenge"], ctx)), solution: Script::from(bytes_of(&e["solution"], ctx)) }
        } else {
            BlockExtData::Dynafed { current: build_params(&e["cur"], ctx), proposed: build_params(&e["prop"], ctx), signblock_witness: build_stack(&e["wit"], ctx) }
        },
    }
}
fn header_class(h: &Value) -> String {
    let e = &h["ext"];
    if s(e, "kind") == "proof" {
        format!("proof/ch{}/sol{}", n(&e["challenge"], "len"), n(&e["solution"], "len"))
    } else {
        format!("dynafed/{}-{}/wit{}{}", s(&e["cur"], "kind"), s(&e["prop"], "kind"), e["wit"].as_array().unwrap().len(), if s(h, "version") == "a0000000" { "/marker-bit-in-memory" } else { "" })
    }
}

fn modify_params(p: &mut Params, field: &str, r: &mut Rng) {
    let push = |sc: &Script| { let mut b = sc.to_bytes(); b.push(0x51); Script::from(b) };
    match p {
        Params::Null => panic!("no field in null params"),
        Params::Compact { signblockscript, signblock_witness_limit, elided_root } => match field {
            "sbs" => *signblockscript = push(signblockscript),
            "lim" => *signblock_witness_limit ^= 1,
            "elided" => *elided_root = elements::dynafed::ElidedRoot::from_byte_array(pools::bytes32(r)),
            x => panic!("compact field {}", x),
        },
        Params::Full(f) => match field {
            "sbs" => f.signblockscript = push(&f.signblockscript),
            "lim" => f.signblock_witness_limit ^= 1,
            "fp" => { let mut b = f.fedpeg_program.to_bytes(); b.push(0x51); f.fedpeg_program = elements::bitcoin::ScriptBuf::from(b); }
            "fps" => f.fedpegscript.push(9),
            "ext" => f.extension_space.push(vec![7]),
            x => panic!("full field {}", x),
        },
    }
}

fn modify_header(h: &mut BlockHeader, f: &str, r: &mut Rng) {
    match f {
        "version" => h.version ^= 1,
        "prev" => h.prev_blockhash = elements::BlockHash::from_byte_array(pools::bytes32(r)),
        "mroot" => h.merkle_root = elements::TxMerkleNode::from_byte_array(pools::bytes32(r)),
        "time" => h.time ^= 1,
        "height" => h.height ^= 1,
        _ => match &mut h.ext {
            BlockExtData::Proof { challenge, solution } => match f {
                "challenge" => { let mut b = challenge.to_bytes(); b.push(0x51); *challenge = Script::from(b); }
                "solution" => { let mut b = solution.to_bytes(); b.push(0x51); *solution = Script::from(b); }
                x => panic!("proof field {}", x),
            },
            BlockExtData::Dynafed { current, proposed, signblock_witness } => {
                if f == "signblock_witness" { signblock_witness.push(vec![1, 2, 3]); }
                else if let Some(x) = f.strip_prefix("cur.") { modify_params(current, x, r); }
                else if let Some(x) = f.strip_prefix("prop.") { modify_params(proposed, x, r); }
                else { panic!("dynafed field {}", f); }
            }
        },
    }
}

pub fn header(args: &[String], out: &mut Out) {
    let cases = read_ndjson(&arg(args, "--cases").expect("--cases"));
    let seed = arg_u64(args, "--seed", 1);
    let mut classes = std::collections::BTreeSet::new();
    for (ci, c) in cases.iter().enumerate() {
        out.count("evaluations");
        let hs = &c["h"];
        let cls = header_class(hs);
        classes.insert(cls.clone());
        if ci % 40 == 3 { out.sample(json!({"class": cls, "hashpre": c["hashpre"]})); }
        let mut r = rng(seed, 0x0400_0000 + ci as u64);
        let mut ctx = Ctx::new();
        fill_header(hs, &mut r, &mut ctx);
        let case = json!({"class": cls, "case_index": ci, "seed": seed});
        let res = guard(|| {
            let mut bad: Vec<(String, String)> = vec![];
            let h = build_header(hs, &ctx);
            let want = eval_seq(&c["toks"], &ctx);
            let got = serialize(&h);
            if got != want { bad.push((format!("C01/header/encode/{}", cls), String::new())); }
            let mut cw = CountWriter(0);
            if h.consensus_encode(&mut cw).unwrap() != cw.0 { bad.push((format!("C01/header/reported-length/{}", cls), String::new())); }
            // (an in-memory value whose version field already holds the marker bit is not what its wire form decodes to: C02 only)
            if c["canonical"].as_bool().unwrap_or(true) {
                match deserialize::<BlockHeader>(&want) {
                    Ok(b) if b == h && serialize(&b) == want => {}
                    other => bad.push((format!("C01/header/decode/{}", cls), format!("{:?}", other.map(|_| ()).map_err(|e| e.to_string())))),
                }
            }
            // C02: block hash preimage, clear_witness
            let pre = eval_seq(&c["hashpre"], &ctx);
            if h.block_hash().to_byte_array() != sha256d(&pre) {
                bad.push((format!("C02/block-hash/{}", cls), "block hash is not the double-SHA256 of the header without solution/witness".into()));
            }
            let mut cl = h.clone();
            cl.clear_witness();
            if serialize(&cl) != eval_seq(&c["cleared"], &ctx) {
                bad.push((format!("C02/clear_witness/encoding/{}", cls), String::new()));
            }
            if cl.block_hash() != h.block_hash() {
                bad.push((format!("C02/clear_witness/hash-changed/{}", cls), String::new()));
            }
            for f in c["fields"].as_array().unwrap() {
                let name = f["f"].as_str().unwrap();
                let is_wit = f["w"].as_bool().unwrap();
                let mut h2 = h.clone();
                modify_header(&mut h2, name, &mut r);
                let changed = h2.block_hash() != h.block_hash();
                if h2 == h { bad.push((format!("C02/harness/modification-noop/{}", name), String::new())); }
                else if is_wit && changed { bad.push((format!("C02/block-hash/changed-by-witness/{}", name), cls.clone())); }
                else if !is_wit && !changed { bad.push((format!("C02/block-hash/blind-to/{}", name), cls.clone())); }
                if is_wit {
                    let mut h3 = h2.clone();
                    h3.clear_witness();
                    if h3 != cl { bad.push((format!("C02/clear_witness/leaves-data/{}", name), cls.clone())); }
                }
            }
            bad
        });
        match res {
            Ok(bad) => for (k, d) in bad { out.viol(&k, case.clone(), d); },
            Err(p) => out.viol(&format!("C01/panic/{}", last_panic_loc()), case, p),
        }
    }
    out.add("distinct_classes", classes.len() as u64);
}

pub fn block(args: &[String], out: &mut Out) {
    let cases = read_ndjson(&arg(args, "--cases").expect("--cases"));
    let seed = arg_u64(args, "--seed", 1);
    for (ci, c) in cases.iter().enumerate() {
        out.count("evaluations");
        out.count("distinct_classes");
        let bs = &c["b"];
        let cls = format!("{}/ntx{}", header_class(&bs["header"]), bs["txs"].as_array().unwrap().len());
        if ci % 12 == 1 { out.sample(json!({"class": cls, "size": c["size"], "weight": c["weight"]})); }
        let mut r = rng(seed, 0x0500_0000 + ci as u64);
        let mut ctx = Ctx::new();
        fill_header(&bs["header"], &mut r, &mut ctx);
        // transactions of a block share positional names: bind per transaction and concatenate bytes
        let case = json!({"class": cls, "case_index": ci, "seed": seed});
        let res = guard(|| {
            let mut bad: Vec<(String, String)> = vec![];
            let header = build_header(&bs["header"], &ctx);
            let mut txs = vec![];
            let mut want = eval_seq(&c["htoks"], &ctx);
            want.extend(crate::tok::varint(bs["txs"].as_array().unwrap().len() as u64, None));
            let mut weights = 0usize;
            for t in bs["txs"].as_array().unwrap() {
                let tctx = fill_tx(t, &mut r);
                let tx = build_tx(t, &tctx);
                want.extend(serialize(&tx));
                weights += tx.weight();
                txs.push(tx);
            }
            let b = Block { header: header.clone(), txdata: txs };
            let got = serialize(&b);
            if got != want { bad.push((format!("C01/block/encode/{}", cls), String::new())); }
            match deserialize::<Block>(&got) {
                Ok(x) if x == b => {}
                other => bad.push((format!("C01/block/decode/{}", cls), format!("{:?}", other.map(|_| ()).map_err(|e| e.to_string())))),
            }
            if b.size() != c["size"].as_u64().unwrap() as usize || b.size() != got.len() {
                bad.push((format!("C12/block-size/{}", cls), format!("impl {} spec {} measured {}", b.size(), c["size"], got.len())));
            }
            if b.weight() != c["weight"].as_u64().unwrap() as usize || b.weight() != 4 * (serialize(&header).len() + crate::tok::varint(b.txdata.len() as u64, None).len()) + weights {
                bad.push((format!("C12/block-weight/{}", cls), format!("impl {} spec {}", b.weight(), c["weight"])));
            }
            if b.block_hash().to_byte_array() != sha256d(&eval_seq(&c["hashpre"], &ctx)) {
                bad.push((format!("C02/block-hash/block/{}", cls), String::new()));
            }
            bad
        });
        match res {
            Ok(bad) => for (k, d) in bad { out.viol(&k, case.clone(), d); },
            Err(p) => out.viol(&format!("C01/panic/{}", last_panic_loc()), case, p),
        }
    }
}

/// Typed wire strings (BlockHeader, Params) and stand-alone pieces.
pub fn typed(args: &[String], out: &mut Out) {
    let cases = read_ndjson(&arg(args, "--cases").expect("--cases"));
    let seed = arg_u64(args, "--seed", 1);
    for (ci, c) in cases.iter().enumerate() {
        out.count("evaluations");
        out.count("distinct_cases");
        let ty = s(c, "ty");
        let toks = &c["toks"];
        let mut r = rng(seed, 0x0600_0000 + ci as u64);
        let ctx = fill_from_tokens(toks, &[], &mut r);
        let is_piece = c.get("ok").is_none();
        let want_ok = c.get("ok").and_then(|x| x.as_bool()).unwrap_or(true);
        let want_pok = c.get("pok").and_then(|x| x.as_bool()).unwrap_or(true);
        let cls = format!("{}/{}", ty, wire_class(toks));
        let case = json!({"ty": ty, "case_index": ci, "seed": seed, "toks": if toks.as_array().unwrap().len() < 50 { toks.clone() } else { json!("long") }});
        if ci % 300 == 7 { out.sample(json!({"ty": ty, "toks": toks, "ok": want_ok})); }
        let res = guard(|| {
            let mut bad: Vec<(String, String)> = vec![];
            let bytes = eval_seq(toks, &ctx);
            macro_rules! go {
                ($t:ty, $want:expr) => {{
                    let d = deserialize::<$t>(&bytes);
                    let dp = deserialize_partial::<$t>(&bytes);
                    if d.is_ok() != want_ok {
                        bad.push((format!("C01/wire/{}/{}", if want_ok { "valid-rejected" } else { "invalid-accepted" }, cls), format!("{:?}", d.as_ref().map(|_| ()).map_err(|e| e.to_string()))));
                    }
                    if dp.is_ok() != want_pok {
                        bad.push((format!("C01/wire-partial/{}/{}", if want_pok { "valid-rejected" } else { "invalid-accepted" }, cls), String::new()));
                    }
                    if let Ok((v, used)) = &dp {
                        if serialize(v)[..] != bytes[..*used] {
                            bad.push((format!("C01/wire/reencode-differs/{}", cls), String::new()));
                        }
                        if want_pok {
                            if !is_piece && *used != c["consumed"].as_u64().unwrap() as usize {
                                bad.push((format!("C01/wire-partial/consumed/{}", cls), String::new()));
                            }
                            let w: $t = $want;
                            if *v != w {
                                bad.push((format!("C01/wire/decoded-value/{}", cls), String::new()));
                            }
                            let mut cw = CountWriter(0);
                            if v.consensus_encode(&mut cw).unwrap() != cw.0 { bad.push((format!("C01/encode/reported-length/{}", cls), String::new())); }
                        }
                    }
                }};
            }
            match ty {
                "BlockHeader" => go!(BlockHeader, build_header(&c["val"], &ctx)),
                "Params" => go!(Params, build_params(&c["val"], &ctx)),
                "TxIn" => go!(TxIn, build_txin(&c["val"], &ctx)),
                "TxOut" => go!(TxOut, build_txout(&c["val"], &ctx)),
                "TxInWitness" => go!(TxInWitness, build_inwit(&c["val"]["wit"], &ctx)),
                "TxOutWitness" => go!(TxOutWitness, build_outwit(&c["val"]["wit"], &ctx)),
                x => panic!("type {}", x),
            }
            bad
        });
        match res {
            Ok(bad) => for (k, d) in bad { out.viol(&k, case.clone(), d); },
            Err(p) => out.viol(&format!("C01/panic/{}", last_panic_loc()), case, p),
        }
    }
}

// ---------- direction B: byte-level mutation recorder

fn mutate_bytes(b: &[u8], r: &mut Rng, other: &[u8]) -> Vec<u8> {
    let mut v = b.to_vec();
    if v.is_empty() { return vec![r.next_u32() as u8]; }
    match r.next_u32() % 9 {
        0 => { let i = (r.next_u32() as usize) % v.len(); v[i] ^= 1 << (r.next_u32() % 8); }
        1 => { let i = (r.next_u32() as usize) % v.len(); v[i] = r.next_u32() as u8; }
        2 => { let k = (r.next_u32() as usize) % v.len(); v.truncate(k); }
        3 => { let k = 1 + (r.next_u32() as usize) % 4; for _ in 0..k { v.push(r.next_u32() as u8); } }
        4 => { let i = (r.next_u32() as usize) % v.len(); v[i] = [0u8, 1, 0xfc, 0xfd, 0xfe, 0xff, 0x7f, 0x80][(r.next_u32() % 8) as usize]; }
        5 => { let i = (r.next_u32() as usize) % v.len(); v.remove(i); }
        6 => { let i = (r.next_u32() as usize) % (v.len() + 1); v.insert(i, r.next_u32() as u8); }
        7 => { // splice with another corpus item
            if !other.is_empty() { let i = (r.next_u32() as usize) % v.len(); let j = (r.next_u32() as usize) % other.len(); v.truncate(i); v.extend_from_slice(&other[j..]); }
        }
        _ => { // two independent edits
            let i = (r.next_u32() as usize) % v.len(); v[i] ^= 0x80; let j = (r.next_u32() as usize) % v.len(); v[j] = v[j].wrapping_add(1);
        }
    }
    v
}

fn decode_event<T: elements::encode::Decodable + Encodable + PartialEq>(ty: &str, bytes: &[u8]) -> Value {
    let r = guard(|| {
        let full = deserialize::<T>(bytes);
        let part = deserialize_partial::<T>(bytes);
        match (full, part) {
            (Ok(v), Ok((_, used))) => {
                let re = serialize(&v);
                let mut cw = CountWriter(0);
                let ret = v.consensus_encode(&mut cw).unwrap();
                let again = deserialize::<T>(&re).map(|w| w == v).unwrap_or(false);
                json!({"accepted": true, "partial": true, "consumed": used, "reenc_eq": re == bytes, "enc_ret": if ret == cw.0 { ret } else { usize::MAX >> 40 }, "redecode_eq": again})
            }
            (Err(_), Ok((v, used))) => {
                let re = serialize(&v);
                json!({"accepted": false, "partial": true, "consumed": used, "reenc_eq": used <= bytes.len() && re[..] == bytes[..used], "enc_ret": re.len(), "redecode_eq": true})
            }
            (Ok(_), Err(_)) => json!({"accepted": true, "partial": false, "consumed": 0, "reenc_eq": false, "enc_ret": 0, "redecode_eq": false}),
            (Err(_), Err(_)) => json!({"accepted": false, "partial": false, "consumed": 0, "reenc_eq": false, "enc_ret": 0, "redecode_eq": false}),
        }
    });
    let mut e = match r {
        Ok(v) => { let mut v = v; v["panic"] = json!(false); v }
        Err(p) => json!({"accepted": false, "partial": false, "consumed": 0, "reenc_eq": false, "enc_ret": 0, "redecode_eq": false, "panic": true, "panic_at": last_panic_loc(), "panic_msg": p}),
    };
    e["ev"] = json!("decode");
    e["ty"] = json!(ty);
    e["len"] = json!(bytes.len());
    e
}

pub fn record(args: &[String], out: &mut Out) {
    use std::io::Write;
    let seed = arg_u64(args, "--seed", 1);
    let per_item = arg_u64(args, "--per-item", 20);
    let path = arg(args, "--out").expect("--out");
    let bases = arg(args, "--bases").map(|p| read_ndjson(&p)).unwrap_or_default();
    let stride = arg_u64(args, "--stride", 7) as usize;
    let mut f = std::io::BufWriter::new(std::fs::File::create(&path).expect("create trace"));
    let mut r = rng(seed, 0xb17e);
    // corpus: repository vectors + encodings of generated values (whole and pieces)
    let mut corpus: Vec<Vec<u8>> = crate::corpus::repo_hex_vectors().into_iter().filter(|v| v.len() < 200_000).collect();
    out.add("corpus_repo_vectors", corpus.len() as u64);
    for (ci, c) in bases.iter().enumerate() {
        if ci % stride != 0 || c["toks"].as_array().unwrap().len() > 400 { continue; }
        let ctx = fill_tx(&c["tx"], &mut r);
        let tx = build_tx(&c["tx"], &ctx);
        corpus.push(serialize(&tx));
        if let Some(i) = tx.input.first() { corpus.push(serialize(i)); corpus.push(serialize(&i.witness)); corpus.push(serialize(&i.asset_issuance)); }
        if let Some(o) = tx.output.first() { corpus.push(serialize(o)); corpus.push(serialize(&o.witness)); corpus.push(serialize(&o.value)); corpus.push(serialize(&o.asset)); corpus.push(serialize(&o.nonce)); }
    }
    out.add("corpus_items", corpus.len() as u64);
    let mut events = 0u64;
    let mut emit = |e: Value, out: &mut Out| {
        if e["panic"] == true {
            out.viol(&format!("C01/panic/{}/{}", e["ty"].as_str().unwrap(), e["panic_at"].as_str().unwrap_or("")), e.clone(), e["panic_msg"].to_string());
        }
        if e["accepted"] == true { out.count("accepted_events"); }
        writeln!(f, "{}", e).unwrap();
        events += 1;
    };
    for idx in 0..corpus.len() {
        for m in 0..=per_item {
            let other = &corpus[(r.next_u32() as usize) % corpus.len()];
            let bytes = if m == 0 { corpus[idx].clone() } else { mutate_bytes(&corpus[idx], &mut r, other) };
            emit(decode_event::<Transaction>("Transaction", &bytes), out);
            emit(decode_event::<TxOut>("TxOut", &bytes), out);
            emit(decode_event::<TxIn>("TxIn", &bytes), out);
            emit(decode_event::<BlockHeader>("BlockHeader", &bytes), out);
            match m % 6 {
                0 => { emit(decode_event::<Block>("Block", &bytes), out); emit(decode_event::<TxInWitness>("TxInWitness", &bytes), out); }
                1 => { emit(decode_event::<Params>("Params", &bytes), out); emit(decode_event::<TxOutWitness>("TxOutWitness", &bytes), out); }
                2 => { emit(decode_event::<CValue>("Value", &bytes), out); emit(decode_event::<Asset>("Asset", &bytes), out); emit(decode_event::<Nonce>("Nonce", &bytes), out); }
                3 => { emit(decode_event::<AssetIssuance>("AssetIssuance", &bytes), out); emit(decode_event::<OutPoint>("OutPoint", &bytes), out); }
                4 => { emit(decode_event::<Script>("Script", &bytes), out); emit(decode_event::<FullParams>("FullParams", &bytes), out); }
                _ => { emit(decode_event::<LockTime>("LockTime", &bytes), out); emit(decode_event::<Sequence>("Sequence", &bytes), out); }
            }
        }
        out.count("traces");
    }
    out.add("events", events);
}

/// Build a real header from a Gen_Wire header case (used by the serde replays).
pub fn header_from_case(c: &Value, r: &mut Rng, ctx: &mut Ctx) -> BlockHeader {
    fill_header(&c["h"], r, ctx);
    build_header(&c["h"], ctx)
}
