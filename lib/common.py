"""Driver helpers: cargo build of the harness, TLC runner, vh runner, evidence and findings."""
import json, os, re, subprocess, sys, time, fnmatch, shutil

VERIF = os.path.dirname(os.path.dirname(os.path.abspath(__file__)))
SPEC = os.path.join(VERIF, "spec")
HARNESS = os.path.join(VERIF, "harness")
VH = os.path.join(HARNESS, "target", "release", "vh")
NCPU = os.cpu_count() or 4
TLA_CP = "/opt/veriftools/tla/tla2tools.jar:/opt/veriftools/tla/CommunityModules-deps.jar"


class HarnessPanic(Exception):
    """The harness process ended with a Rust panic (exit 101) outside its per-case guards.  Every check passes on the unchanged
    tree, where no such panic occurs; one that appears after a change to /repo is therefore raised by the code under test
    (a library call the harness expected to be infallible, e.g. while building a value) and is reported as a violation."""
    def __init__(self, args, message):
        Exception.__init__(self, message)
        self.vh_args, self.message = args, message


class ToolError(Exception):
    pass


def log(*a):
    print("[check]", *a, file=sys.stderr, flush=True)


def build_harness():
    """Rebuild the harness (and with it `elements` from /repo's working tree, hooks on)."""
    t = time.time()
    env = dict(os.environ, CARGO_NET_OFFLINE="true")
    env.pop("RUSTFLAGS", None)
    p = subprocess.run(["cargo", "build", "--release", "--offline", "--quiet"], cwd=HARNESS, env=env,
                       stdout=subprocess.PIPE, stderr=subprocess.STDOUT, text=True)
    if p.returncode != 0 or not os.path.exists(VH):
        sys.stderr.write(p.stdout[-6000:])
        raise ToolError("cargo build of the harness failed")
    log("harness built in %.1fs" % (time.time() - t))


_TLC_STATES = re.compile(r"(\d+) states generated, (\d+) distinct states found")


def tlc(module, cfg, workdir, env=None, workers=None, timeout=600, trace_mode=False, simulate=None, xmx="8g", coverage=False):
    """Run TLC on spec/<module>.tla with spec/<cfg>. Returns dict with counts and verdict."""
    os.makedirs(workdir, exist_ok=True)
    meta = os.path.join(workdir, "tlc_" + module + "_" + os.path.splitext(os.path.basename(cfg))[0])
    shutil.rmtree(meta, ignore_errors=True)
    e = dict(os.environ)
    # java is invoked directly: -Xss on the command line also sizes the main thread's stack
    # (constant-level ASSUMEs are evaluated there); JAVA_TOOL_OPTIONS would not.
    jargs = ["-Xss1g", "-Xmx%s" % xmx, "-XX:+UseParallelGC"]
    if trace_mode:
        jargs.append("-Dtlc2.tool.queue.IStateQueue=StateDeque")
        workers = 1
    e.pop("JAVA_TOOL_OPTIONS", None)
    if env:
        e.update({k: str(v) for k, v in env.items()})
    if workers is None:
        workers = min(8, NCPU)
    # the thorough tier gets proportionally longer limits (set by ./check); a limit that is hit is a tool error, never a verdict
    timeout = int(timeout * float(os.environ.get("VERIF_TIMEOUT_SCALE", "1")))
    cmd = ["timeout", str(timeout), "java"] + jargs + ["-cp", TLA_CP, "tlc2.TLC", "-workers", str(workers), "-metadir", meta,
           "-cleanup", "-noGenerateSpecTE"]
    # action / expression coverage of model-checking runs (vacuity control): on by default for MC_* modules in the quick tier
    # (only for the state-machine models whose operators are light: expression coverage makes TLC many times slower on the
    # models that evaluate large recursive definitions per state -- Wire, Blind, SigMsg, PsetMerge, Checksum, Addr)
    light = {"MC_PsetOps", "MC_PsetBlind", "MC_SighashCache", "MC_PsetView", "MC_Dynafed", "MC_FastMerkle", "MC_Issuance", "MC_PsetCodec",
             "MC_Taproot", "MC_ScriptSpec"}
    if coverage is False and module in light and not trace_mode and simulate is None and os.environ.get("VERIF_TLC_COVERAGE", "1") == "1" \
            and os.environ.get("VERIF_TIER_CURRENT", "quick") == "quick":
        coverage = True
    if coverage:
        cmd += ["-coverage", "1"]
    if simulate:
        cmd += ["-simulate", simulate]
    cmd += ["-config", cfg, module + ".tla"]
    t = time.time()
    p = subprocess.run(cmd, cwd=SPEC, env=e, stdout=subprocess.PIPE, stderr=subprocess.STDOUT, text=True)
    out = p.stdout
    shutil.rmtree(meta, ignore_errors=True)
    m = None
    for m in _TLC_STATES.finditer(out):
        pass
    res = {
        "module": module, "cfg": cfg, "rc": p.returncode, "wall_s": round(time.time() - t, 2),
        "generated": int(m.group(1)) if m else 0, "distinct": int(m.group(2)) if m else 0,
        "out": out,
        "ok": p.returncode == 0 and "No error has been found" in out or (p.returncode == 0 and simulate is not None),
        "rejected": "TRACE-REJECTED" in out,
        "timeout": p.returncode == 124,
    }
    me = re.search(r'<<"EMITTED", ([0-9, ]+)>>', out)
    res["emitted"] = [int(x) for x in me.group(1).split(",")] if me else []
    md = re.search(r"depth of the complete state graph search is (\d+)", out)
    res["depth"] = int(md.group(1)) if md else 0
    if coverage:
        # last coverage report: "<Action line .. of module M>: distinct:generated" and "  line .. of module M: count"
        last = out.rfind("The coverage statistics at")
        rep = out[last:] if last >= 0 else ""
        acts = re.findall(r"^<(\w+) line (\d+), col \d+ to line \d+, col \d+ of module (\w+)[^>]*>: (\d+):(\d+)", rep, re.M)
        res["actions"] = {"%s.%s@%s" % (m_, a, l): [int(d), int(g)] for a, l, m_, d, g in acts if a not in ("Init",)}
        res["actions_never_taken"] = sorted(k for k, v in res["actions"].items() if v[1] == 0)
        zero = re.findall(r"^\s+\|*line (\d+), col (\d+) to line (\d+), col (\d+) of module (\w+): 0\s*$", rep, re.M)
        res["uncovered_expressions"] = ["%s:%s:%s-%s:%s" % (m_, a, b, c_, d) for a, b, c_, d, m_ in zero]
    return res


def cached_emission(ck, name, module, cfg, env, outputs, spec_files, timeout=3000, xmx="24g", what=None):
    """Run a Gen_* module whose output depends on the specification files and `env` only (never on /repo), or reuse the emission of
    an earlier run with the same inputs.  `outputs`: {ENV_NAME: path}.  Returns the TLC result (marked `cached` when reused)."""
    import hashlib
    h = hashlib.sha256(json.dumps({k: str(v) for k, v in sorted(env.items())}).encode())
    for f in [module + ".tla", cfg] + list(spec_files):
        h.update(open(os.path.join(SPEC, f), "rb").read())
    cache = os.path.join(VERIF, "work", "cache", "%s_%s" % (name, h.hexdigest()[:16]))
    meta = os.path.join(cache, "tlc.json")
    if os.path.exists(meta) and all(os.path.exists(os.path.join(cache, k)) for k in outputs):
        for k, pth in outputs.items():
            shutil.copyfile(os.path.join(cache, k), pth)
        r = json.load(open(meta))
        r["cached"] = "%s emission reused from %s (TLC statistics are those of the generating run)" % (module, os.path.relpath(cache, VERIF))
        r["out"] = ""
        return r
    e = dict(env)
    e.update(outputs)
    r = tlc_must_pass(tlc(module, cfg, ck.work, env=e, workers=1, timeout=timeout, xmx=xmx), what or (name + " gen"))
    tmp = cache + ".tmp%d" % os.getpid()
    os.makedirs(tmp, exist_ok=True)
    for k, pth in outputs.items():
        shutil.copyfile(pth, os.path.join(tmp, k))
    json.dump({k: v for k, v in r.items() if k != "out"}, open(os.path.join(tmp, "tlc.json"), "w"))
    shutil.rmtree(cache, ignore_errors=True)
    os.rename(tmp, cache)
    return r


def tlc_must_pass(res, what):
    """Model-level runs never depend on /repo: a failure there is a tool/spec error (exit 2)."""
    if not res["ok"]:
        sys.stderr.write(res["out"][-5000:])
        raise ToolError("%s: TLC run %s/%s failed (rc=%s)" % (what, res["module"], res["cfg"], res["rc"]))
    return res


def printed_tuples(out, tag):
    """Extract PrintT(<<"TAG", ...>>) single-line payloads from TLC output."""
    res = []
    for line in out.splitlines():
        line = line.strip()
        if line.startswith('<<"%s"' % tag):
            res.append(line)
    return res


def vh(args, timeout=3600, stdin=None, crash=None):
    """Run the harness; parse its NDJSON report.  `crash=(check, key, last_input_path)`: if the process is killed by a
    signal (a segfault or abort inside the library under test) this is reported as a violation, not as a tool error."""
    t = time.time()
    env = dict(os.environ)
    env["VH_PANIC_VERBOSE"] = "1"
    if crash:
        env["VH_DEBUG_LAST"] = "1"
    timeout = int(timeout * float(os.environ.get("VERIF_TIMEOUT_SCALE", "1")))
    p = subprocess.run(["timeout", str(timeout), VH] + [str(a) for a in args], cwd=VERIF, stdout=subprocess.PIPE,
                       stderr=subprocess.PIPE, text=True, input=stdin, env=env)
    if crash and (p.returncode < 0 or p.returncode in (134, 139)):
        ck, key, last = crash
        ck.violation(key, {"vh_args": [str(a) for a in args], "last_input_file": last, "returncode": p.returncode},
                     "harness process killed by a signal while running library code (memory-unsafety or abort); last input saved")
        return {"viols": [], "violcounts": {}, "stats": {}, "samples": [], "rc": p.returncode, "args": [str(a) for a in args],
                "wall_s": round(time.time() - t, 2)}
    rep = {"viols": [], "violcounts": {}, "stats": {}, "samples": [], "rc": p.returncode, "args": [str(a) for a in args],
           "wall_s": round(time.time() - t, 2)}
    ended = False
    for line in p.stdout.splitlines():
        if not line.startswith("{"):
            continue
        try:
            r = json.loads(line)
        except Exception:
            continue
        t_ = r.get("t")
        if t_ == "viol":
            rep["viols"].append(r)
        elif t_ == "violcount":
            rep["violcounts"][r["key"]] = r["n"]
        elif t_ == "stat":
            rep["stats"][r["k"]] = r["v"]
        elif t_ == "sample":
            rep["samples"].append(r["v"])
        elif t_ == "end":
            ended = True
    if p.returncode == 101 and not ended:
        msg = [l for l in p.stderr.splitlines() if l.startswith("panic:") or "panicked at" in l]
        raise HarnessPanic(rep["args"], " ".join(msg[-3:])[:600] or "panic (no message)")
    if p.returncode != 0 or not ended:
        sys.stderr.write(p.stderr[-4000:])
        sys.stderr.write(p.stdout[-2000:])
        raise ToolError("vh %s failed (rc=%s, ended=%s)" % (" ".join(rep["args"]), p.returncode, ended))
    return rep


def load_findings():
    path = os.path.join(VERIF, "known_findings.json")
    if not os.path.exists(path):
        return []
    return json.load(open(path))["findings"]


class Check:
    def __init__(self, pid, tier, seed, level):
        self.pid, self.tier, self.seed, self.level = pid, tier, seed, level
        self.t0 = time.time()
        self.work = os.path.join(VERIF, "work", pid)
        os.makedirs(self.work, exist_ok=True)
        self.cov = {"states": 0, "transitions": 0, "traces_validated_against_impl": 0, "evaluations": 0,
                    "distinct_nontrivial": 0, "samples": [], "rule": "", "tlc_runs": [], "harness_runs": []}
        self.assumptions = []
        self.viols = {}  # key -> {case, detail, n}
        self.evdir = "evidence"

    # ---- accumulation
    def add_tlc(self, res, note=""):
        self.cov["states"] += res["distinct"]
        self.cov["transitions"] += res["generated"]
        if res.get("emitted"):
            self.cov["tlc_constant_level_cases"] = self.cov.get("tlc_constant_level_cases", 0) + sum(res["emitted"])
        run = {"module": res["module"], "cfg": res["cfg"], "distinct": res["distinct"],
               "generated": res["generated"], "depth": res["depth"], "wall_s": res["wall_s"], "note": note}
        if "actions" in res:
            run["actions_distinct_generated"] = res["actions"]
            run["actions_never_taken"] = res["actions_never_taken"]
            run["uncovered_expressions"] = res["uncovered_expressions"][:40]
            run["uncovered_expression_count"] = len(res["uncovered_expressions"])
        if res.get("cached"):
            run["reused_emission"] = res["cached"]
        self.cov["tlc_runs"].append(run)

    def add_vh(self, rep, eval_key="evaluations", distinct_key=None, traces_key=None, panics_only=False):
        self.cov["evaluations"] += rep["stats"].get(eval_key, 0)
        if distinct_key:
            self.cov["distinct_nontrivial"] += rep["stats"].get(distinct_key, 0)
            # direction A: each TLC-emitted case/behaviour replayed into the real code is a validated trace
            self.cov["traces_validated_against_impl"] += rep["stats"].get(distinct_key, 0)
            self.cov["replayed_spec_cases"] = self.cov.get("replayed_spec_cases", 0) + rep["stats"].get(distinct_key, 0)
        for s in rep["samples"]:
            if len(self.cov["samples"]) < 8:
                self.cov["samples"].append(s)
        self.cov["harness_runs"].append({"args": rep["args"], "stats": rep["stats"], "wall_s": rep["wall_s"]})
        for v in rep["viols"]:
            # C10 re-uses the other specifications' neighbourhoods: there only panics count, under a C10 key
            if panics_only:
                if "/panic/" in v["key"]:
                    self.violation("C10/panic-in-replay/" + v["key"], v.get("case"), v.get("detail"), 1)
                continue
            # a replay shared between properties reports each finding under the property it belongs to
            if not v["key"].startswith(self.pid + "/"):
                continue
            self.violation(v["key"], v.get("case"), v.get("detail"), rep["violcounts"].get(v["key"], 1))

    def violation(self, key, case=None, detail=None, n=1):
        if key not in self.viols:
            self.viols[key] = {"case": case, "detail": detail, "n": n}

    def sample(self, s):
        if len(self.cov["samples"]) < 8:
            self.cov["samples"].append(s)

    # ---- verdict
    def finish(self):
        findings = load_findings()
        known = [f for f in findings if f["property"] == self.pid and f.get("status") == "known"]
        new, matched = [], []
        for key, v in sorted(self.viols.items()):
            f = next((f for f in known if fnmatch.fnmatchcase(key, f["key"])), None)
            if f:
                matched.append((key, f, v))
            else:
                new.append((key, v))
        # evidence
        cov = self.cov
        if not cov["samples"]:
            cov["samples"] = ["(no sample recorded)"]
        ev = {
            "property_id": self.pid, "tier": self.tier, "seed": self.seed, "level": self.level,
            "coverage": cov, "assumptions": self.assumptions, "wall_s": round(time.time() - self.t0, 2),
            "violations": len(new),
            "known_findings_reproduced": sorted({f["key"] for _, f, _ in matched}),
        }
        os.makedirs(os.path.join(VERIF, self.evdir), exist_ok=True)
        with open(os.path.join(VERIF, self.evdir, self.pid + ".json"), "w") as fh:
            json.dump(ev, fh, indent=1, sort_keys=True)
        seen = set()
        for key, f, v in matched:
            if f["key"] in seen:
                continue
            seen.add(f["key"])
            print("KNOWN-FINDING: property=%s %s -- %s" % (self.pid, f["key"], f["what"]))
        if new:
            os.makedirs(os.path.join(VERIF, "replays"), exist_ok=True)
            for key, v in new:
                safe = re.sub(r"[^A-Za-z0-9_.=-]+", "_", key)[:120]
                path = os.path.join(VERIF, "replays", "%s-%s.json" % (self.pid, safe))
                with open(path, "w") as fh:
                    json.dump({"property": self.pid, "key": key, "tier": self.tier, "seed": self.seed, "case": v["case"],
                               "detail": v["detail"], "count": v["n"]}, fh, indent=1)
                print("VIOLATION property=%s replay=%s" % (self.pid, path))
                print("  key=%s detail=%s" % (key, (v["detail"] or "")[:300]))
            sys.stdout.flush()
            return 1
        print("OK property=%s tier=%s states=%d transitions=%d evaluations=%d traces=%d wall=%.1fs" % (
            self.pid, self.tier, cov["states"], cov["transitions"], cov["evaluations"], cov["traces_validated_against_impl"],
            time.time() - self.t0))
        return 0


def validate_trace(ck, module, cfg, trace, n_traces, key, recorder_args=None, env=None, timeout=1500, xmx="8g"):
    """Direction B: run the Trace_* spec over a recorded NDJSON trace; a rejection or an invariant
    violated on the implementation's run is a violation with key `key`."""
    e = {"TRACE": trace}
    if env:
        e.update(env)
    r = tlc(module, cfg, ck.work, env=e, trace_mode=True, timeout=timeout, xmx=xmx)
    ck.add_tlc(r, "trace validation")
    if r["timeout"]:
        raise ToolError("trace validation %s timed out" % module)
    if r["ok"]:
        ck.cov["traces_validated_against_impl"] += n_traces
        return True
    out = r["out"]
    if r["rejected"]:
        i = out.find("TRACE-REJECTED")
        j = out.rfind("<<", 0, i)
        ck.violation(key, {"trace": trace, "recorder": recorder_args}, " ".join(out[j:i + 700].split()))
        return False
    if "is violated" in out:
        line = [x for x in out.splitlines() if "is violated" in x][0]
        ck.violation(key, {"trace": trace, "recorder": recorder_args}, line.strip())
        return False
    sys.stderr.write(out[-3000:])
    raise ToolError("trace validation %s failed to run" % module)
