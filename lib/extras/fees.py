"""TxOut::is_fee, Transaction::fee_in / all_fees (Fees.tla): every output list of <= 3 (4) outputs over 22 output kinds."""
import os
from lib.common import tlc, tlc_must_pass, vh


def run(ck):
    q = ck.tier == "quick"
    cases = os.path.join(ck.work, "fees.ndjson")
    r = tlc_must_pass(tlc("Gen_Fees", "Gen_Fees.cfg", ck.work, env={"GEN_LEN": 3 if q else 4, "OUT": cases}, workers=1, timeout=2400, xmx="16g"), "Fees gen")
    ck.add_tlc(r, "ViewsAgree, OrderFree on every emitted output list; case emission")
    rep = vh(["fees", "replay", "--cases", cases, "--seed", ck.seed], timeout=3000)
    ck.add_vh(rep, distinct_key="distinct_cases")
