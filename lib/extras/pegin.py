"""PeginData::from_pegin_witness / to_pegin_witness, TxIn::pegin_data (Pegin.tla): witness shapes around every length rule."""
import os
from lib.common import tlc, tlc_must_pass, vh


def run(ck):
    cases = os.path.join(ck.work, "pegin.ndjson")
    r = tlc_must_pass(tlc("Gen_Pegin", "Gen_Pegin.cfg", ck.work, env={"OUT": cases}, workers=1, timeout=600), "Pegin gen")
    ck.add_tlc(r, "ParseOk <=> no first error on every shape; case emission")
    rep = vh(["pegin", "replay", "--cases", cases, "--seed", ck.seed], timeout=3000)
    ck.add_vh(rep, distinct_key="distinct_cases")
