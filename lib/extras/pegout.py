"""TxOut::is_null_data / is_pegout / pegout_data / is_fee (Pegout.tla): every script of <= 3 (4) items, three heads, three value kinds."""
import os
from lib.common import tlc, tlc_must_pass, vh


def run(ck):
    q = ck.tier == "quick"
    cases = os.path.join(ck.work, "pegout.ndjson")
    r = tlc_must_pass(tlc("Gen_Pegout", "Gen_Pegout.cfg", ck.work, env={"GEN_LEN": 3 if q else 4, "OUT": cases}, workers=1, timeout=2400, xmx="16g"), "Pegout gen")
    ck.add_tlc(r, "PegoutIsNullData, RuleA, RuleB, FeeDisjoint on every emitted script; case emission")
    rep = vh(["pegout", "replay", "--cases", cases, "--seed", ck.seed], timeout=3000)
    ck.add_vh(rep, distinct_key="distinct_cases")
