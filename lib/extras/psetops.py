"""Structural PSET operations (PsetOps.tla): counts, identities, blinder indices under add / insert / remove."""
import os
from lib.common import tlc, tlc_must_pass, vh, validate_trace


def run(ck):
    q = ck.tier == "quick"
    w = ck.work
    r = tlc_must_pass(tlc("MC_PsetOps", "MC_PsetOps.cfg" if q else "MC_PsetOps_thorough.cfg", w, workers=4, timeout=2400), "PsetOps model")
    ck.add_tlc(r, "counts = lengths, identities distinct, blinder index keeps naming its input until a removal touches it")
    # the named deviation (remove_input leaves blinder indices alone) must be reachable, or the model no longer describes the code
    r = tlc("MC_PsetOps", "MC_PsetOps_deviation.cfg", w, workers=2, timeout=600)
    if r["ok"] or "NoStaleMisdirection is violated" not in r["out"]:
        ck.violation("X/psetops/model/deviation-not-reachable", None, "TLC did not refute NoStaleMisdirection")
    trace = os.path.join(w, "psetops.ndjson")
    rep = vh(["psetops", "record", "--out", trace, "--seed", ck.seed, "--sessions", 300 if q else 5000, "--maxlen", 25 if q else 40])
    ck.add_vh(rep, eval_key="events")
    validate_trace(ck, "Trace_PsetOps", "Trace_PsetOps.cfg", trace, rep["stats"].get("traces", 0), "X/psetops/trace-rejected", rep["args"])
