#!/usr/bin/env python3
"""Regenerate /verif/MANIFEST.json from the table below (single source of truth for the interface)."""
import json, os
VERIF = os.path.dirname(os.path.dirname(os.path.abspath(__file__)))
BASE_OFF = ("cd /repo && (cargo nextest run --workspace --no-fail-fast --test-threads 8 --offline "
            "|| cargo test --workspace --no-fail-fast --offline)")
CHECKS = {
 "C18": dict(
   cat="model_checking", design="§4 C18",
   technique="TLA+ transcription of the incremental algorithm checked by TLC against the definitional tree for every leaf count; "
             "root terms replayed into the real function; hook step-traces validated against the spec actions",
   text="TLC proves, for every leaf count up to the bound and symbolic leaves, that the step-by-step model of the algorithm yields "
        "the definitional midstate tree; the model is bound to the code in both directions: emitted root terms are evaluated with an "
        "independent SHA-256 compression function and compared with elements::fast_merkle_root, and every step the real function "
        "takes (cfg-guarded hook) must be accepted by the specification's actions with the operands the specification predicts.",
   note="SHA-256 compression as a free constructor; own compression function in the harness; TLC; leaf counts beyond the "
        "model bound are sampled against the harness's own definitional tree."),
 "C19": dict(
   cat="model_checking", design="§4 C19",
   technique="TLA+ model of parameter sets and header roots as hash expressions, TLC-checked state machine of compaction steps; "
             "TLC-emitted cases replayed with an independent hash-expression evaluator; recorded compaction sessions trace-validated",
   text="TLC checks on the model that compaction steps in any order keep every root, that the two root code paths denote the same "
        "expression and that the root commits to every field; every abstract parameter set / header pair TLC enumerates is replayed "
        "on real values (roots, into_compact, elided_root, header root compared with the expression evaluated by the harness's own "
        "SHA-256), and recorded sessions of the real API are validated against the specification's actions.",
   note="hash functions are free constructors in the model; own SHA-256 in the harness; random field contents per length class."),
 "C11": dict(
   cat="model_checking", design="§4 C11",
   technique="TLA+ state machine TxIn -> pset::Input -> extracted TxIn with id derivations as hash expressions, checked by TLC; "
             "all abstract inputs and all JSON-contract text families emitted by TLC and replayed against the library with an "
             "independent hash-expression evaluator",
   text="TLC exhausts the (finite) space of index/flag/nonce/amount classes and checks that the derivation denotes the same "
        "expression pair in all three representations, and defines the canonical JSON text; every abstract case is replayed on "
        "real values (TxIn::issuance_ids, pset::Input::issuance_ids, from_tx/extract_tx, AssetId constructors, "
        "ContractHash::from_json_contract over all key permutations and whitespace styles) against digests computed by the "
        "harness's own SHA-256 from the specification's expressions.",
   note="hash functions are free constructors in the model; own SHA-256 in the harness; txids/entropies random; JSON leaf values "
        "restricted to strings, integers, booleans, null."),
 "C17": dict(
   cat="model_checking", design="§4 C17",
   technique="TLA+ LFSR model of the four BCH checksums; TLC walks every error distance with all 31 error values and a syndrome history "
             "(exhaustive for all 1- and 2-symbol errors); spec LFSR runs replayed through the library's checksum engines; exhaustive "
             "character corruption of representative addresses through every parser",
   text="TLC proves for the generator in the specification that no one- or two-symbol corruption of any checksummed string up to the "
        "bound (beyond the longest address) has syndrome 0 or the bech32/bech32m difference; the generator, targets and checksum length "
        "are tied to /repo by replaying the specification's LFSR runs through the real checksum engines, and the decoders by "
        "enumerating single/double/hrp corruptions of representative addresses through every parsing entry point.",
   note="GF(32) XOR by table; linearity of the code; representative addresses rather than all addresses for the decoder binding."),
 "C08": dict(
   cat="model_checking", design="§4 C08",
   technique="TLA+ model of the PSET view: BIP370 lock-time rule (declarative) vs the input-by-input lattice fold, and an action "
             "machine of updater/signer/finalizer steps; TLC checks both; all lock-time assignments and all short histories are "
             "emitted and replayed on real PSETs; long random histories are trace-validated",
   text="TLC shows that the fold the code performs equals the declarative BIP370 rule for every assignment to 0..3 inputs and every "
        "fallback, and that non-identifying additions never change the identifying data; every such assignment and every action "
        "sequence up to the bound is replayed on a real PSET comparing locktime(), unique_id() and extract_tx() per step, and random "
        "long histories of the real object are validated step by step against the specification.",
   note="field contents sampled; the unique id is compared for (in)equality with the initial one, its value is tied to the txid by C02."),
 "C01": dict(
   cat="model_checking", design="§4 C01",
   technique="TLA+ specification of the wire grammar (token-level encoders and an independent recursive-descent decoder with every "
             "rejection rule), TLC-checked WireSession state machine over mutation neighbourhoods; emitted shapes and token strings "
             "replayed into the real codec (bytes both ways); byte-level mutation traces validated against the session contract",
   text="TLC explores every token string reachable from the encoding of every enumerated shape by local mutations and checks that the "
        "specification's decoder accepts exactly canonical strings (accepted => re-encodes to itself, canonical values round-trip, "
        "partial decoding consumes a self-re-encoding prefix); every shape and every mutated string is then concretised by an "
        "independent token serializer and run through the real serialize / deserialize / deserialize_partial, comparing bytes, verdict, "
        "consumed length, reported length and decoded value; recorded byte-level mutations of repository vectors are checked against "
        "the same contract.",
   note="point/scalar/proof validity is libsecp's and enters as a token attribute; byte-level (sub-token) mutations are covered by the "
        "recorded traces, not by the token model; shapes are the enumerated families, not all transactions."),
 "C02": dict(
   cat="model_checking", design="§4 C02",
   technique="TLA+ definitions of the id preimages (TxidPre, WtxidPre, BlockHashPre, ClearWitness) over the Wire token model, "
             "TLC-checked relations; preimages hashed by an independent SHA-256 and compared with txid/wtxid/block_hash; every "
             "field position classified by the specification is modified on real values",
   text="The specification states which tokens enter each id; TLC checks wtxid-preimage = txid-preimage iff no witness and that "
        "clearing the header witness never changes the hash preimage; the harness hashes the concretised preimages with its own "
        "SHA-256 and compares with the library for every shape, then applies every single-field modification the specification lists "
        "(witness or not) to the real value and checks that the id moves exactly for non-witness fields.",
   note="SHA-256 collision freeness; enumerated shape families; one modification per field position."),
 "C12": dict(
   cat="model_checking", design="§4 C12",
   technique="TLA+ size functions as sums of token widths of the specified encodings plus a transcription of the hand-written "
             "scaled_size arithmetic, TLC-checked to agree on every shape; numbers replayed against size/weight/vsize/discount "
             "functions and against measured serializations",
   text="Sizes are defined in the specification from the encoder itself (sum of token widths; weight = 3 x stripped + full; ELIP-200 "
        "discount) and TLC checks the per-field arithmetic against them for all witness subsets and varint boundaries; the harness "
        "compares every reported figure with the specification's number and with the real full / witness-stripped byte lengths.",
   note="enumerated shape families; lengths at varint boundaries 252/253/65535/65536 included."),
 "C03": dict(
   cat="model_checking", design="§4 C03",
   technique="TLA+ specification of the three signing messages as token / hash-expression sequences written from the published "
             "algorithms, TLC-checked structural properties and per-field differencing; every emitted query replayed: message bytes "
             "and digest computed by an independent serializer + SHA-256 compared with the library, plus field sensitivity",
   text="The specification is an independent implementation of the legacy, BIP143-elements and BIP341-elements messages at the level "
        "of which field enters which hash in which order; TLC enumerates every query class in bounds and decides for every single-field "
        "touch whether the message changes; the harness evaluates the expression trees with its own SHA-256 and compares signing data "
        "and digests with all sighash entry points, then checks that the real digest moves exactly when the specification's does.",
   note="hash functions are free constructors; enumerated transaction families (1..3 inputs, 0..3 outputs); pinned Elements vectors of "
        "the repository anchor the legacy outpoint form."),
 "C13": dict(
   cat="model_checking", design="§4 C13",
   technique="TLA+ state machine of the three lazily filled caches with version snapshots, TLC-checked over all sequences in bounds; "
             "emitted sequences replayed on one real cache object against fresh caches and the hook's cache state; random long "
             "sequences trace-validated",
   text="TLC explores every query / witness_mut sequence up to the bound and checks that each answer is computed from current data, "
        "that no cache depends on script witnesses and that One suffices exactly under ANYONECANPAY; every sequence is replayed on "
        "one SighashCache<&mut Transaction>, each answer compared with a fresh cache's and the cfg-guarded hook's fill state with the "
        "specification's after every step; random sequences of length <= 50 are validated by Trace_SighashCache.",
   note="transaction unchanged except through witness_mut; same spent outputs in all queries; hook exposes only three booleans."),
 "C04": dict(
   cat="model_checking", design="§4 C04",
   technique="TLA+ model of confidential-transaction algebra over Z_5 with a step-by-step blinding machine (non-last outputs random, last "
             "output solved), TLC-checked for all skeletons and all factor choices; every skeleton replayed through Transaction::blind "
             "with real keys and proofs, balance equation recomputed over the real field",
   text="TLC shows that for every arrangement of marked, unmarked, fee and zero-value outputs, every input mix and every random choice "
        "the blinded transaction satisfies the verifier's equations; each skeleton is then blinded for real and checked: verification "
        "against the spent outputs, unblinding of each marked output to the original asset / value and to the reported blinding factors, "
        "commitments rebuilt from those factors, and the sum of v*abf+vbf over inputs and outputs compared modulo the group order.",
   note="proof soundness is libsecp256k1-zkp's; Z_5 stands for the scalar field; enumerated skeleton family (<= 2 inputs, <= 5 outputs)."),
 "C05": dict(
   cat="model_checking", design="§4 C05",
   technique="TLA+ transcription of the verifier check by check with proof tokens bound to (commitment, script, generator) / (generator, "
             "domain); TLC checks that every tamper class at every position is rejected and tabulates all small explicit transactions; "
             "tampers and table replayed on real blinded transactions",
   text="TLC establishes at design level that the verifier's checks reject every single-location tamper of every verifying transaction "
        "and gives the verdict for every small all-explicit transaction; the harness applies each listed tamper to the really blinded "
        "transaction (with real proofs) and requires an error (of the named class where fixed), and compares the explicit table verdicts.",
   note="proof corruption is sampled bit flips; the repository's real-network vectors lack their spent outputs and are not used."),
 "C09": dict(
   cat="model_checking", design="§4 C09",
   technique="TLA+ state machine of the multi-party protocol (NonLast / Hop / LastPrefix / LastFinal) over Z_5, TLC-checked for all "
             "scenarios, orders and factor choices; every structural schedule replayed on real PSETs with the projected state compared "
             "after each step and the published scalars recomputed over the real field",
   text="TLC explores every split of inputs among up to 3 parties, every last blinder, every order and hop placement and every factor "
        "choice and checks balance, empty scalar list and full blinding at the end plus the carried-imbalance invariant in between; each "
        "schedule is replayed with real keys and proofs: scalar count and blinded set after each step, the value of each published "
        "scalar, final verification, unblinding and explicit proofs.",
   note="every party has an output to blind (quantifier); Z_5 stands for the scalar field; 6 ownership templates."),
 "C07": dict(
   cat="model_checking", design="§4 C07",
   technique="TLA+ specification of the PSET key-value codec (wire-type tables, pair identity, mandatory-field and output rules, "
             "canonical order), TLC-checked session machine of edits; field-subset and edit cases replayed on real PSETs through an own "
             "key-value reader/writer; byte- and pair-level mutation traces validated",
   text="TLC explores every pair string within two edits of canonical encodings per map kind and checks round trip, canonical fixpoint, "
        "order insensitivity and the refusal rules; the harness builds real PSETs for every emitted field subset (bytes and base64 round "
        "trip, fixpoint, wire types per the specification's tables), applies every emitted edit to a fully populated PSET with its own "
        "writer and compares the decoder's verdict, and validates recorded mutations of repository vectors against the codec contract.",
   note="per-field value codecs are exercised, not modelled; one representative value per field."),
 "C14": dict(
   cat="model_checking", design="§4 C14",
   technique="TLA+ model of PSETs as fact sets with a merge-order state machine and the key-source reconciliation table, TLC-checked; "
             "families of descendants and all key-source pairs emitted and replayed on real PSETs, results projected to wire pairs by an "
             "own reader",
   text="TLC checks containment, no invention, order freedom, commutativity and associativity over families of three descendants and "
        "the commutativity of the key-source rule; every emitted family is built for real (identical additions get identical contents), "
        "merged in every order, and the result's set of wire pairs compared with the union of the operands', the unique id and the "
        "equality of all orders; every ordered pair of key sources is merged both ways against the documented rule, under catch_unwind.",
   note="additions disjoint or identical; one representative value per field; positions limited to 2 inputs / 2 outputs."),
 "C15": dict(
   cat="model_checking", design="§4 C15",
   technique="TLA+ transcription of the TaprootBuilder stack machine checked by TLC against a reference tree semantics for every op "
             "sequence in bounds, plus the Huffman procedure; every sequence replayed step by step on the real builder (stack state "
             "compared), trees evaluated with own tagged hashes against roots, output keys and control blocks incl. negatives",
   text="TLC checks that the eager-combination stack machine accepts exactly depth-first listings of binary trees, yields the reference "
        "tree, gives every leaf a path of its depth in depth-first order, and refuses everything else with the documented error; every "
        "sequence is replayed on the real builder with the pending-node stack compared after each step, and for valid trees the root, "
        "tweak, output key, parity and each control block (positive and negative verification, size, serialization) are compared with "
        "values computed from the specification's terms by independent tagged hashing.",
   note="tagged hashes as free constructors; bounded sequence length / depth; 128/129 limit by explicit chains."),
 "C16": dict(
   cat="model_checking", design="§4 C16",
   technique="TLA+ register machine of script::Builder with the intended instruction list, an instruction-iterator model and script-number "
             "codec, TLC-checked over all op sequences in bounds; template predicates as byte predicates over an enumerated neighbourhood; "
             "both replayed on the real builder / predicates / Address::from_script",
   text="TLC checks that iterating a built script yields exactly the added pushes and opcodes (with verify folding), that pushes use the "
        "shortest length prefix and that script numbers round-trip; the emitted sequences are replayed comparing script bytes and both "
        "iterators, and every script of the template neighbourhood is run through all predicates and Address::from_script (domain, "
        "script_pubkey, text round trip) against the specification's byte predicates.",
   note="bounded sequence length; data contents random within first-byte classes; template family of 9157 scripts."),
 "C06": dict(
   cat="model_checking", design="§4 C06",
   technique="TLA+ address grammar (Display / Parse / per-network dispatch) checked exhaustively by TLC over all abstract addresses and a "
             "near-valid string family; replayed through Address Display / FromStr / parse_with_params against independent base58check "
             "and table-driven bech32-family encoders whose generator tables come from Checksum.tla",
   text="TLC checks round trip in both letter cases, at-most-one-network, canonical re-display, agreement of from_str with the per-network "
        "parsers and distinctness of the nine version bytes and six hrps; every abstract address is concretised and its Display compared "
        "character for character with encoders that share no code with the library, and every near-valid string is parsed by every entry "
        "point with the specification's verdict, decoded fields and canonical form compared.",
   note="content-dependent strings excluded; bech32 (unblinded) checksum code lives in the bech32 crate, blech32 in the repository."),
 "C20": dict(
   cat="model_checking", design="§4 C20",
   technique="TLA+ table of serde field names per type / variant, variant-selection functions and string tables, checked exhaustively by "
             "TLC; JSON and CBOR round trips, emitted field names and Display / FromStr pairs replayed over the structural variety of the "
             "Wire and PsetCodec families",
   text="At the level where the hand-written and derived (de)serializers make decisions -- field names, variant selection by present "
        "names, string tables -- TLC checks duplicate freedom, recoverability and injectivity (the duplicate `version` key of the PSET "
        "global map was reported by the model itself); the harness serializes real values of every listed type in JSON and CBOR, compares "
        "the emitted names with the table, deserializes and compares for equality, and parses every printed form back.",
   note="leaf codecs sampled; serde_json 1.x / serde_cbor 0.8; one known finding (CBOR + flatten + enum)."),
 "C10": dict(
   cat="exploration", design="§4 C10",
   technique="TLA+ call / outcome specification with no Panic transition and an allocation bound; recorded calls of every fallible entry "
             "point on corpus mutations, random inputs and degenerate arguments (catch_unwind + counting allocator) validated as traces; "
             "panics in the other specifications' mutation neighbourhoods judged as well",
   text="Exploration, not model checking: the specification contributes the outcome alphabet, the allocation bound and -- through the other "
        "modules -- structured neighbourhoods; the harness calls every fallible public entry point named by the property on mutated "
        "repository vectors, generated values, random inputs and degenerate in-memory arguments and every call is checked (and trace-"
        "validated) for a regular outcome within the allocation bound; a harness process killed by a signal counts as a violation.",
   note="sampled, no coverage guidance; documented panic conditions excluded; bound 64 MiB + 256 B/byte."),
}
NA_PENDING = "check not built yet in this round (planned, see DESIGN.md §4)"

def main():
    props = [json.loads(l)["id"] for l in open(os.path.join(VERIF, "properties.jsonl"))]
    checks = []
    for pid in props:
        if pid not in CHECKS:
            continue
        c = CHECKS[pid]
        checks.append({
            "property_id": pid,
            "quick_cmd": "./check %s --tier quick" % pid,
            "thorough_cmd": "./check %s --tier thorough" % pid,
            "evidence_file": "/verif/evidence/%s.json" % pid,
            "replay_cmd_template": "./check %s --replay {path}" % pid,
            "engine": "tlc+vh",
            "level_claimed": {"category": c["cat"], "text": c["text"], "design_ref": c["design"]},
            "level_note": c["note"],
            "technique": c["technique"],
        })
    hooks_commits = [l.strip() for l in open(os.path.join(VERIF, "lib", "hook_commits.txt")) if l.strip()]
    m = {
        "version": 1,
        "setup_cmd": "cd /verif/harness && cargo build --release --offline",
        "hooks": {
            "guard": "--cfg elements_verif",
            "enable": "harness/.cargo/config.toml sets rustflags = [\"--cfg\", \"elements_verif\"]; the harness depends on /repo by path, "
                      "so every check rebuilds `elements` from the current working tree with hooks on",
            "baseline_off_cmd": BASE_OFF,
            "source_commits": hooks_commits,
            "add_only": True,
        },
        "engines": [
            {"name": "tlc+vh", "path": "/verif/check", "serves_properties": [c["property_id"] for c in checks],
             "kind_free_text": "TLA+ specifications in /verif/spec checked with TLC; cases/behaviours emitted by TLC are replayed into the "
                               "real library by the Rust harness /verif/harness (vh), and traces recorded from the real library are "
                               "validated against Trace_*.tla specifications"},
        ],
        "checks": checks,
        "not_applicable": [{"property_id": p, "reason": NA_PENDING} for p in props if p not in CHECKS],
        "notes": "Driver: ./check <id> --tier quick|thorough; exit 0/1/2 (2 = tool error). Known findings: /verif/known_findings.json.",
    }
    json.dump(m, open(os.path.join(VERIF, "MANIFEST.json"), "w"), indent=1)

if __name__ == "__main__":
    main()
