"""C01: consensus encoding is an exact bijection on canonical values (Wire.tla, WireShapes.tla)."""
import os
from lib.common import vh, validate_trace
from lib.props import wire_common

LEVEL = "model_checking"


def run(ck):
    q = ck.tier == "quick"
    wire_common.mc(ck)
    p = wire_common.gen(ck)
    rep = vh(["wire", "base", "--cases", p["base"], "--seed", ck.seed, "--props", "C01"], timeout=7000)
    ck.add_vh(rep, distinct_key="distinct_classes")
    rep = vh(["wire", "wire", "--cases", p["wire"], "--bases", p["base"], "--seed", ck.seed], timeout=7000)
    ck.add_vh(rep, distinct_key="distinct_cases")
    for k in ("hwire", "piece"):
        rep = vh(["wire", "typed", "--cases", p[k], "--seed", ck.seed], timeout=7000)
        ck.add_vh(rep, distinct_key="distinct_cases")
    rep = vh(["wire", "header", "--cases", p["header"], "--seed", ck.seed])
    ck.add_vh(rep, distinct_key="distinct_classes")
    rep = vh(["wire", "block", "--cases", p["block"], "--seed", ck.seed])
    ck.add_vh(rep, distinct_key="distinct_classes")
    trace = os.path.join(ck.work, "trace.ndjson")
    rep = vh(["wire", "record", "--out", trace, "--bases", p["base"], "--seed", ck.seed, "--per-item", 12 if q else 60,
              "--stride", 11 if q else 5], timeout=7000)
    ck.add_vh(rep, eval_key="events")
    validate_trace(ck, "Trace_Wire", "Trace_Wire.cfg", trace, rep["stats"].get("traces", 0), "C01/trace-rejected", rep["args"],
                   timeout=3000, xmx="24g")
    ck.cov["rule"] = ("base: one case per transaction shape (input kinds x script lengths x witness subsets, output kinds, all 2^12 witness "
                      "subsets over 2 inputs/2 outputs, counts 0..2, varint boundaries 252/253/65535/65536), headers (proof/dynafed x "
                      "null/compact/full^2 x witness stacks), blocks, stand-alone inputs/outputs/witnesses/params; distinct = distinct "
                      "abstract classes; wire: every single token-level mutation (non-minimal varint at every position, prefix 12, "
                      "parity flip, invalid point/scalar/proof, witness flag 0/1/2, truncations, extensions), null issuance, flag 1 over "
                      "empty witnesses, with the verdict/consumed/decoded value of the specification's decoder; traces: byte-level "
                      "mutations of the repository's hex vectors and of generated encodings, decoded as every type, accepted by Trace_Wire")
    ck.assumptions += ["curve-point / scalar / proof parsing belongs to libsecp256k1-zkp: validity is a token attribute and the harness "
                       "supplies valid and invalid instances", "field contents random (seeded)"]
