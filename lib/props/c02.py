"""C02: txid / wtxid / block hash ignore exactly the witness data (Wire.tla)."""
from lib.common import vh
from lib.props import wire_common

LEVEL = "model_checking"


def run(ck):
    q = ck.tier == "quick"
    wire_common.mc(ck)
    p = wire_common.gen(ck)
    rep = vh(["wire", "base", "--cases", p["base"], "--seed", ck.seed, "--props", "C02"], timeout=7000)
    ck.add_vh(rep, distinct_key="distinct_classes")
    rep = vh(["wire", "txfields", "--cases", p["base"], "--seed", ck.seed, "--stride", 3 if q else 1], timeout=7000)
    ck.add_vh(rep, distinct_key="distinct_classes")
    rep = vh(["wire", "header", "--cases", p["header"], "--seed", ck.seed])
    ck.add_vh(rep, distinct_key="distinct_classes")
    rep = vh(["wire", "block", "--cases", p["block"], "--seed", ck.seed])
    ck.add_vh(rep, distinct_key="distinct_classes")
    ck.cov["rule"] = ("per transaction shape: txid = SHA256d(TxidPre) and wtxid = SHA256d(full encoding) with preimages given by the "
                      "specification as token strings and hashed by the harness's own SHA-256; wtxid = txid iff no witness; every "
                      "single-field modification position listed by the specification (witness-only or not) applied to the real value: "
                      "txid changes iff the field is not witness data; headers: block hash preimage, clear_witness encoding and hash, "
                      "every header / params field modified; distinct = distinct abstract classes")
    ck.assumptions += ["SHA-256 collision freeness", "field contents random (seeded)"]
