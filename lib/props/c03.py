"""C03: signature hashes follow the Elements legacy / segwit-v0 / taproot algorithms (SigMsg.tla)."""
import os
from lib.common import tlc, tlc_must_pass, vh, cached_emission

LEVEL = "model_checking"


def gen(ck):
    w = ck.work
    cases, sens = os.path.join(w, "sig.ndjson"), os.path.join(w, "sens.ndjson")
    # shared with C13; depends on the specification and the tier only
    r = cached_emission(ck, "sigmsg", "Gen_SigMsg", "Gen_SigMsg.cfg", {"GEN_TIER": ck.tier}, {"OUT": cases, "OUT_SENS": sens},
                        ["SigMsg.tla", "SigShapes.tla"], what="C03 gen")
    ck.add_tlc(r, "message construction for every (tx shape, index, hash type, path, annex, prevouts form); constant-level AcpIsolated / "
                  "NoneHasNoOutputs / monotone output commitment; per-field Touch differencing")
    return cases, sens


def run(ck):
    q = ck.tier == "quick"
    r = tlc_must_pass(tlc("MC_SigMsg", "MC_SigMsg_quick.cfg" if q else "MC_SigMsg_thorough.cfg", ck.work, workers=12 if q else 16,
                          timeout=3000, xmx="24g"), "C03 model")
    ck.add_tlc(r, "every (shape, query, single-field touch): witnesses and foreign scriptSigs unsigned, ANYONECANPAY isolation, NONE / "
                  "SINGLE output scoping, own-input / globals / spent-output commitment")
    cases, sens = gen(ck)
    rep = vh(["sighash", "replay", "--cases", cases, "--seed", ck.seed, "--k", 1 if q else 2], timeout=7000)
    ck.add_vh(rep, distinct_key="distinct_classes")
    rep = vh(["sighash", "sensitivity", "--cases", sens, "--seed", ck.seed], timeout=7000)
    ck.add_vh(rep, distinct_key="distinct_cases")
    ck.cov["rule"] = ("one case per (transaction shape with pegin / issuance / reissuance / confidential fields, 1..3 inputs, 0..3 outputs) x "
                      "input index (incl. >= outputs, and >= inputs for taproot) x 6 ECDSA or 7 Schnorr types x key/script path x annex x "
                      "Prevouts::All (right / wrong length) / One(i) / One(j); the specification gives the signing message as a token / "
                      "hash-expression sequence, the harness concretises it with its own serializer and SHA-256 and compares message "
                      "bytes and digest with the library; sensitivity: every single-field touch of transaction, spent outputs and query "
                      "constants, digest must move exactly when the specification's message moves; distinct = distinct abstract queries")
    ck.assumptions += ["SHA-256 as a free constructor in the model", "legacy inputs serialized in CTxIn wire form (flag bits in the index), "
                       "as the repository's pinned Elements vector requires", "OP_CODESEPARATOR out of the library's scope"]
