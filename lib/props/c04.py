"""C04: blinding yields a transaction that verifies and that receivers can unblind (Blind.tla)."""
import os
from lib.common import tlc, tlc_must_pass, vh, cached_emission

LEVEL = "model_checking"


def model_and_gen(ck):
    q = ck.tier == "quick"
    w = ck.work
    r = tlc_must_pass(tlc("MC_Blind", "MC_Blind_quick.cfg" if q else "MC_Blind_thorough.cfg", w, workers=12 if q else 16, timeout=3000,
                          xmx="24g"), "Blind model")
    ck.add_tlc(r, "blinding machine over all skeletons (inputs conf/explicit, seven issuance shapes, output modes full / value-only / asset-only, every arrangement of marked / unmarked / fee / "
                  "zero-value outputs), all factor choices in Z_5: BlindedVerifies, AllMarkedBlinded, TampersRejected")
    bl, ex = os.path.join(w, "blind.ndjson"), os.path.join(w, "explicit.ndjson")
    # shared with C05; depends on the specification and the tier only
    r = cached_emission(ck, "blind", "Gen_Blind", "Gen_Blind_quick.cfg" if q else "Gen_Blind_thorough.cfg", {"GEN_EXPL_OUTS": 2 if q else 3},
                        {"OUT_BLIND": bl, "OUT_EXPL": ex}, ["Blind.tla", "MC_Blind.tla"], what="Blind gen")
    ck.add_tlc(r, "case emission")
    return bl, ex


def run(ck):
    q = ck.tier == "quick"
    bl, _ = model_and_gen(ck)
    rep = vh(["blind", "replay", "--cases", bl, "--seed", ck.seed, "--k", 1 if q else 3, "--threads", 12 if q else 16, "--props", "C04"],
             timeout=7000)
    ck.add_vh(rep, distinct_key="distinct_cases")
    ck.cov["rule"] = ("one case per skeleton = (spent outputs confidential / explicit over one or two assets; issuance: none, asset amount, amount + "
                      "reissuance tokens, tokens only (Null amount), and amount / tokens committed (both or one of them), ids from the constructors; "
                      "arrangement of marked, unmarked, fee and zero-value outputs with every non-empty marked subset); each is built with "
                      "real keys and standard scripts, amounts scaled per asset across 1 .. 2.1e15, blinded by Transaction::blind with the "
                      "spent-output secrets in the documented order, then: verify_tx_amt_proofs, unblind of every marked output with the "
                      "receiver key (asset, value, and the factors the blinder reported), commitments rebuilt from the factors, the balance "
                      "equation recomputed modulo the group order by the harness's own arithmetic, wire round trip; distinct = skeletons")
    ck.assumptions += ["cryptographic soundness of range / surjection proofs is libsecp256k1-zkp's", "Z_5 stands for the scalar field in the model",
                       "issuance pseudo-inputs are passed with the spent-output secrets in the order the API documents"]
