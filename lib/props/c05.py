"""C05: amount verification rejects every tampered or unbalanced transaction (Blind.tla verifier part)."""
import os
from lib.common import tlc, tlc_must_pass, vh
from lib.props import c04, c09

LEVEL = "model_checking"


def run(ck):
    q = ck.tier == "quick"
    bl, ex = c04.model_and_gen(ck)
    rep = vh(["blind", "replay", "--cases", bl, "--seed", ck.seed, "--k", 1 if q else 2, "--threads", 12 if q else 16, "--props", "C05"],
             timeout=7000)
    ck.add_vh(rep, distinct_key="distinct_cases")
    rep = vh(["blind", "explicit", "--cases", ex, "--seed", ck.seed, "--threads", 12], timeout=7000)
    ck.add_vh(rep, distinct_key="distinct_cases")
    # exact-value / exact-asset proofs of blinded PSETs: positive and negative
    pb = c09.gen(ck, parties=2)
    rep = vh(["psetblind", "replay", "--cases", pb, "--seed", ck.seed, "--threads", 8, "--stride3", 1], timeout=7000)
    ck.add_vh(rep, distinct_key="distinct_cases")
    ck.cov["rule"] = ("tampers: for every blinded skeleton of C04 and for hand-blinded bases with one output in value-only or asset-only mode (built with "
                      "blind_with_shared_secret / Asset::blind / ValueBlindingFactor::last), every tamper the specification lists (explicit amount / asset, commitment "
                      "replaced or exchanged, range / surjection proof dropped, exchanged, bit-corrupted, script of a blinded output, "
                      "issuance amount and token amount (explicit: +1, committed: other blinder), each spent output's value / asset / blinders, spent-output list one short / one long) at every "
                      "applicable position must make verify_tx_amt_proofs fail, with the error class where the specification fixes it; "
                      "explicit table: every all-explicit transaction with <= 2 inputs, <= 2-3 outputs, values 0..2, two assets + an "
                      "issued one, std / unspendable scripts, verdict = specification's Verify; exact-value / exact-asset proofs of "
                      "blinded PSETs verify and reject other values, assets, commitments; distinct = skeletons / table rows")
    ck.assumptions += ["cryptographic soundness of the proofs is libsecp256k1-zkp's; corruption = sampled single-bit flips that still parse"]
