"""C06: addresses round-trip, are canonical, name exactly one network (Addr.tla + Checksum.tla tables)."""
import os
from lib.common import tlc, tlc_must_pass, vh

LEVEL = "model_checking"


def run(ck):
    q = ck.tier == "quick"
    w = ck.work
    r = tlc_must_pass(tlc("MC_Addr", "MC_Addr.cfg", w, workers=1, timeout=2400, xmx="16g"), "C06 model")
    ck.add_tlc(r, "constant level, exhaustive over 3768 valid addresses and 18720 near-valid strings: PrefixesDistinct, RoundTrips, BothCases, "
                  "OneNetwork, Canonical, FromStrAgrees")
    valid, strs = os.path.join(w, "valid.ndjson"), os.path.join(w, "strings.ndjson")
    r = tlc_must_pass(tlc("Gen_Addr", "MC_Addr.cfg", w, env={"OUT_VALID": valid, "OUT_STR": strs}, workers=1, timeout=2400, xmx="16g"), "C06 gen")
    ck.add_tlc(r, "address / string emission")
    tabs = []
    for code in ("bech32", "blech32"):
        t = os.path.join(w, "tab_%s.ndjson" % code)
        tlc_must_pass(tlc("Gen_Checksum", "Gen_Checksum_%s.cfg" % code, os.path.join(w, code), env={"OUT": os.path.join(w, "lfsr_%s.ndjson" % code),
                                                                                                  "OUT_TABLES": t}, workers=1, timeout=600), "C06 tables")
        tabs += ["--tab-" + code, t]
    rep = vh(["addr", "valid", "--cases", valid, "--seed", ck.seed, "--k", 1 if q else 8] + tabs, timeout=7000)
    ck.add_vh(rep, distinct_key="distinct_cases")
    rep = vh(["addr", "strings", "--cases", strs, "--seed", ck.seed] + tabs, timeout=7000)
    ck.add_vh(rep, distinct_key="distinct_cases")
    ck.cov["rule"] = ("valid: every (network, p2pkh / p2sh / witness version 0..16 x standard program length, blinded or not) = 3768 abstract "
                      "addresses with random hashes / programs / blinding keys: Display equals, character for character, the harness's own "
                      "base58check resp. bech32 / bech32m / blech32 / blech32m encoder (generator tables exported by Checksum.tla), parses "
                      "back in lower and upper case, parses under exactly its own network; strings: 18000 near-valid strings (other "
                      "network's or foreign hrp, wrong checksum variant or code, mixed case, versions up to 17, programs 0..41 bytes, "
                      "missing / extra / truncated blinding key, foreign or unknown version bytes, hash length +-1, bad checksum) with the "
                      "verdict of the specification under from_str and every parse_with_params, decoded fields and canonical re-display "
                      "compared; distinct = abstract addresses / strings")
    ck.assumptions += ["strings whose verdict depends on random bytes forming a valid public key are excluded (Decidable)",
                       "a segwit-looking string with a foreign hrp is assumed not to be a valid base58check string (probability 2^-32)"]
