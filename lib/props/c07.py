"""C07: PSET serialization round-trips and re-serialization is a fixpoint (PsetCodec.tla)."""
import os
from lib.common import tlc, tlc_must_pass, vh, validate_trace

LEVEL = "model_checking"


def gen(ck):
    w = ck.work
    sub, ed, tb, sz = (os.path.join(w, x) for x in ("subsets.ndjson", "edits.ndjson", "tables.ndjson", "sized.ndjson"))
    r = tlc_must_pass(tlc("Gen_PsetCodec", "Gen_PsetCodec.cfg", w, env={"GEN_TIER": ck.tier, "OUT_SUBSETS": sub, "OUT_EDITS": ed, "OUT_TABLES": tb, "OUT_SIZED": sz},
                          workers=1, timeout=2400, xmx="16g"), "C07 gen")
    ck.add_tlc(r, "field-subset cases, edit cases with the decoder's verdict, wire-type tables")
    return sub, ed, tb, sz


def run(ck):
    q = ck.tier == "quick"
    for k in ("global", "input", "output"):
        r = tlc_must_pass(tlc("MC_PsetCodec", "MC_PsetCodec_%s.cfg" % k, os.path.join(ck.work, k), workers=8, timeout=1200), "C07 model " + k)
        ck.add_tlc(r, "%s map: every string within 2 edits (swap, duplicate, drop, bad preimage) of a canonical encoding: RoundTrip, Fixpoint, "
                      "OrderInsensitive, Refusals" % k)
    sub, ed, tb, sz = gen(ck)
    rep = vh(["psetcodec", "subsets", "--cases", sub, "--tables", tb, "--seed", ck.seed], timeout=7000)
    ck.add_vh(rep, distinct_key="distinct_cases")
    rep = vh(["psetcodec", "edits", "--cases", ed, "--tables", tb, "--seed", ck.seed], timeout=7000)
    ck.add_vh(rep, distinct_key="distinct_cases")
    rep = vh(["psetcodec", "sized", "--cases", sz, "--tables", tb, "--seed", ck.seed], timeout=7000)
    ck.add_vh(rep, distinct_key="distinct_cases")
    trace = os.path.join(ck.work, "trace.ndjson")
    rep = vh(["psetcodec", "record", "--out", trace, "--seed", ck.seed, "--per-item", 300 if q else 6000], timeout=7000,
             crash=(ck, "C07/crash/signal-in-decoder", trace + ".last"))
    if rep["stats"]:
        ck.add_vh(rep, eval_key="events")
        validate_trace(ck, "Trace_Pset", "Trace_Pset.cfg", trace, rep["stats"].get("traces", 0), "C07/trace-rejected", rep["args"],
                       timeout=3000, xmx="16g")
    ck.cov["rule"] = ("subsets: per map kind each optional field alone, all pairs (global, output; input in thorough), all fields, strided "
                      "k-subsets, 0..3 maps, explicit / commitment / marked / fully blinded outputs, tap trees of 7 shapes, ELIP-100/102 "
                      "accessors: bytes and base64 round trip, re-encode fixpoint, and every populated field found on the wire under the "
                      "type the specification's table gives; edits: a fully populated PSET parsed by an own key-value reader, every pair "
                      "dropped / duplicated / moved to the front, map reversed, preimage corrupted, counts +-1, magic / separator, with "
                      "the verdict of the specification's decoder; sized: every variable-length part of every field (scripts, stack items and "
                      "counts, paths, leaf-hash lists, tap-tree leaves, key data, prefixes, values) at 0 / 1 / 252 / 253 / 254 / 65535 / 65536: round "
                      "trip, fixpoint, and the value length on the wire equal to the specification's framing formula; traces: byte-level and pair-level mutations of the repository's PSET "
                      "vectors and generated PSETs accepted by Trace_Pset; distinct = distinct abstract cases")
    ck.assumptions += ["value codecs of individual fields (transactions, keys, proofs) are exercised by concretisation, not modelled",
                       "the scalar list is an ordered list in the API: its order is observable and not required to be canonicalised"]
