"""C08: PSET/transaction views, unique id, BIP370 lock time (PsetView.tla)."""
import os
from lib.common import tlc, tlc_must_pass, vh, validate_trace

LEVEL = "model_checking"


def run(ck):
    q = ck.tier == "quick"
    w = ck.work
    r = tlc_must_pass(tlc("MC_PsetView", "MC_PsetView.cfg" if q else "MC_PsetView_thorough.cfg", w, workers=8, timeout=2400), "C08 model")
    ck.add_tlc(r, "lattice fold == declarative BIP370 for all assignments to 0..3 inputs x fallbacks; histories keep the unique id")
    lock, hist = os.path.join(w, "lock.ndjson"), os.path.join(w, "hist.ndjson")
    tlc_must_pass(tlc("Gen_PsetView", "Gen_PsetView.cfg", w, env={"GEN_STEPS": 2 if q else 3, "OUT_LOCK": lock, "OUT_HIST": hist},
                      workers=1, timeout=1800, xmx="16g"), "C08 gen")
    rep = vh(["psetview", "locktime", "--cases", lock, "--seed", ck.seed])
    ck.add_vh(rep, distinct_key="distinct_cases")
    rep = vh(["psetview", "history", "--cases", hist, "--seed", ck.seed], timeout=7000)
    ck.add_vh(rep, distinct_key="distinct_cases")
    trace = os.path.join(w, "trace.ndjson")
    rep = vh(["psetview", "record", "--out", trace, "--seed", ck.seed, "--sessions", 400 if q else 8000, "--maxlen", 25 if q else 40])
    ck.add_vh(rep, eval_key="traces")
    validate_trace(ck, "Trace_PsetView", "Trace_PsetView.cfg", trace, rep["stats"].get("traces", 0), "C08/trace-rejected", rep["args"])
    if hasattr(ck, "extra_c08"):
        pass
    from lib.props import c08_rt
    c08_rt.run(ck)
    ck.cov["rule"] = ("lock time: every assignment of {none,time,height,both} x {lo,hi} to 0..3 inputs x 3 fallbacks (2460, exhaustive) "
                      "replayed on real PSETs; histories: every sequence of %d actions over 49 symbols (field additions at every "
                      "position, required lock times, fallback, amount) replayed with unique_id / locktime / extract_tx compared per "
                      "step; traces: random histories up to length 25-40 over 3 inputs validated by Trace_PsetView; "
                      "distinct = distinct abstract cases/histories" % (2 if q else 3))
    ck.assumptions += ["field contents are random/fixed samples; the model tracks presence of fields, not their bytes"]
