"""C08 part (c): tx -> PSET -> tx round trip over the Wire shapes (PsetTx.tla)."""
from lib.common import vh
from lib.props import wire_common


def run(ck):
    p = wire_common.gen(ck)
    rep = vh(["psetview", "roundtrip", "--cases", p["base"], "--seed", ck.seed], timeout=7000)
    ck.add_vh(rep, distinct_key="distinct_classes")
