"""C08 part (c): tx -> PSET -> tx round trip over the Wire shapes (added with the Wire family)."""


def run(ck):
    return
