"""C09: multi-party PSET blinding balances for every split and order of blinders (PsetBlind.tla)."""
import os
from lib.common import tlc, tlc_must_pass, vh

LEVEL = "model_checking"


def gen(ck, parties):
    pb = os.path.join(ck.work, "schedules_%d.ndjson" % parties)
    r = tlc_must_pass(tlc("Gen_PsetBlind", "Gen_PsetBlind.cfg", ck.work, env={"GEN_PARTIES": parties, "OUT": pb}, workers=1, timeout=2400,
                          xmx="16g"), "PsetBlind gen")
    ck.add_tlc(r, "schedule emission")
    return pb


def run(ck):
    q = ck.tier == "quick"
    r = tlc_must_pass(tlc("MC_PsetBlind", "MC_PsetBlind.cfg" if q else "MC_PsetBlind_thorough.cfg", ck.work, workers=12 if q else 16,
                          timeout=3400, xmx="24g"), "C09 model")
    ck.add_tlc(r, "all scenarios (input scalars in Z_5, 1-2 outputs per party), every choice of last blinder, every order, hops, all factor "
                  "choices: Balanced, Carry, ScalarCount, Finishes, LastRunsLast")
    pb = gen(ck, 3)
    rep = vh(["psetblind", "replay", "--cases", pb, "--seed", ck.seed, "--threads", 8 if q else 16, "--stride3", 48 if q else 1], timeout=7000)
    ck.add_vh(rep, distinct_key="distinct_cases")
    ck.cov["rule"] = ("one case per schedule = (1..3 parties from 10 ownership templates: confidential / explicit inputs over two assets, explicit issuances of an asset, of tokens only or of both, one "
                      "or two outputs per party) x choice of the last blinder x order of the others x hop / no hop x explicit output; each "
                      "replayed with real keys and proofs: after every step the scalar count and the set of fully blinded outputs are "
                      "compared with the specification, the published scalar is recomputed modulo the group order from the reported "
                      "factors, and at the end extract_tx verifies, every output unblinds to the original with the reported factors, the "
                      "explicit-value / asset proofs verify, no scalar is left; quick sub-samples 3-party schedules 1 in 48")
    ck.assumptions += ["every party owns at least one output to blind (a party with confidential inputs and no output cannot be balanced by "
                       "this protocol; excluded by the quantifier)", "equal published scalars (probability 2^-256) would collapse on the wire"]
