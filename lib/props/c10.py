"""C10: fallible public APIs are total: errors, never panics or unbounded allocation (Total.tla)."""
import os
from lib.common import vh, validate_trace
from lib.props import wire_common, c07

LEVEL = "exploration"


def run(ck):
    q = ck.tier == "quick"
    w = ck.work
    p = wire_common.gen(ck)
    trace = os.path.join(w, "trace.ndjson")
    rep = vh(["total", "record", "--out", trace, "--bases", p["base"], "--seed", ck.seed, "--per-item", 25 if q else 400, "--random", 2000 if q else 100000,
              "--sample-every", 1 if q else 25], timeout=14000, crash=(ck, "C10/crash/signal", trace + ".last"))
    if rep["stats"]:
        ck.add_vh(rep)
        ck.cov["distinct_nontrivial"] += rep["stats"].get("corpus_items", 0)
        validate_trace(ck, "Total", "Total.cfg", trace, rep["stats"].get("traces", 0), "C10/trace-rejected", rep["args"], timeout=6000, xmx="24g")
    # structured neighbourhoods of the other specifications, replayed under catch_unwind: only panics are judged here
    rep = vh(["wire", "wire", "--cases", p["wire"], "--bases", p["base"], "--seed", ck.seed], timeout=7000, crash=(ck, "C10/crash/signal-in-wire-replay", ""))
    if rep["stats"]:
        ck.add_vh(rep, distinct_key="distinct_cases", panics_only=True)
    rep = vh(["wire", "typed", "--cases", p["hwire"], "--seed", ck.seed], timeout=7000, crash=(ck, "C10/crash/signal-in-wire-replay", ""))
    if rep["stats"]:
        ck.add_vh(rep, distinct_key="distinct_cases", panics_only=True)
    sub, ed, tb, _sz = c07.gen(ck)
    rep = vh(["psetcodec", "edits", "--cases", ed, "--tables", tb, "--seed", ck.seed], timeout=7000, crash=(ck, "C10/crash/signal-in-pset-replay", ""))
    if rep["stats"]:
        ck.add_vh(rep, distinct_key="distinct_cases", panics_only=True)
    ck.cov["rule"] = ("calls: every Decodable type, the slice parsers (control blocks, merkle branches, Schnorr signatures, commitments, blinding "
                      "factors, pegin witnesses), script iteration / assembly / predicates / from_script, all string parsers (addresses on "
                      "every network, the five blech32 constructors, hex ids, outpoints, blinding factors, sighash types, PSET base64, JSON "
                      "contracts, lock times) on the repository's hex vectors, generated encodings and PSETs and on 1-3 stacked byte / "
                      "character mutations of each (bit flips, boundary bytes, huge length fields, truncation, extension, splices) plus "
                      "random strings; the accessors of every decoded value (ids, sizes, weights, pegin / pegout data, minimum value), "
                      "verify_tx_amt_proofs, taproot sighash incl. out-of-range indices, from_tx, extract_tx, locktime, unique_id, merge, "
                      "blind_last / blind_non_last with absent or arbitrary secrets; degenerate in-memory arguments (blind with no / some / "
                      "all outputs marked x 0..2 secrets x non-standard scripts, zero and u64::MAX values, unblinded addresses, unblind of "
                      "non-confidential outputs, inconsistent PSET bookkeeping, empty / zero-weight Huffman trees); every call under "
                      "catch_unwind with a counting allocator; distinct = corpus items; plus the mutation neighbourhoods of Wire and "
                      "PsetCodec")
    ck.assumptions += ["sampled inputs, no coverage feedback: absence of panics is explored, not proved",
                       "allocation bound 64 MiB + 256 bytes per input byte (covers MAX_VEC_SIZE and the 10 000-map cap)",
                       "documented panic conditions are not called (legacy / segwit sighash index out of range, insert_input / insert_output "
                       "position, remove_checksum on unvalidated data, uncompressed keys in p2wpkh)"]
