"""C10: fallible public APIs are total: errors, never panics or unbounded allocation (Total.tla)."""
import os
from lib.common import vh, validate_trace
from lib.props import wire_common, c07

LEVEL = "exploration"


def run(ck):
    q = ck.tier == "quick"
    w = ck.work
    p = wire_common.gen(ck)
    trace = os.path.join(w, "trace.ndjson")
    from lib.common import tlc, tlc_must_pass
    tabs = []
    for code in ("bech32", "blech32"):
        t = os.path.join(w, "tab_%s.ndjson" % code)
        tlc_must_pass(tlc("Gen_Checksum", "Gen_Checksum_%s.cfg" % code, os.path.join(w, code), env={"OUT": os.path.join(w, "lfsr_%s.ndjson" % code), "OUT_TABLES": t},
                          workers=1, timeout=600), "C10 tables")
        tabs += ["--tab-" + code, t]
    rep = vh(["total", "record", "--out", trace, "--bases", p["base"], "--seed", ck.seed] + tabs + [ "--per-item", 25 if q else 400, "--random", 2000 if q else 100000,
              "--sample-every", 1 if q else 25], timeout=14000, crash=(ck, "C10/crash/signal", trace + ".last"))
    if rep["stats"]:
        ck.add_vh(rep)
        ck.cov["distinct_nontrivial"] += rep["stats"].get("corpus_items", 0)
        validate_trace(ck, "Total", "Total.cfg", trace, rep["stats"].get("traces", 0), "C10/trace-rejected", rep["args"], timeout=6000, xmx="24g")
    # structured neighbourhoods of the other specifications, replayed under catch_unwind: only panics are judged here
    rep = vh(["wire", "wire", "--cases", p["wire"], "--bases", p["base"], "--seed", ck.seed], timeout=7000, crash=(ck, "C10/crash/signal-in-wire-replay", ""))
    if rep["stats"]:
        ck.add_vh(rep, distinct_key="distinct_cases", panics_only=True)
    rep = vh(["wire", "typed", "--cases", p["hwire"], "--seed", ck.seed], timeout=7000, crash=(ck, "C10/crash/signal-in-wire-replay", ""))
    if rep["stats"]:
        ck.add_vh(rep, distinct_key="distinct_cases", panics_only=True)
    sub, ed, tb, _sz = c07.gen(ck)
    rep = vh(["psetcodec", "edits", "--cases", ed, "--tables", tb, "--seed", ck.seed], timeout=7000, crash=(ck, "C10/crash/signal-in-pset-replay", ""))
    if rep["stats"]:
        ck.add_vh(rep, distinct_key="distinct_cases", panics_only=True)
    # the case families of the in-memory specifications (merge, script builder and templates / from_script, taproot builder, PSET
    # views), replayed for panics only: these reach the fallible operations on structured arguments that byte mutation does not build
    from lib.common import tlc, tlc_must_pass
    w = ck.work
    fam, ks = os.path.join(w, "families.ndjson"), os.path.join(w, "keysources.ndjson")
    tlc_must_pass(tlc("Gen_PsetMerge", "Gen_PsetMerge.cfg", w, env={"GEN_TIER": ck.tier, "OUT": fam, "OUT_KS": ks}, workers=1, timeout=2400, xmx="16g"), "C10 merge gen")
    seq, num, tpl = (os.path.join(w, x) for x in ("seqs.ndjson", "nums.ndjson", "templates.ndjson"))
    tlc_must_pass(tlc("Gen_ScriptSpec", "Gen_ScriptSpec.cfg", w, env={"GEN_LEN": 2 if q else 3, "OUT_SEQ": seq, "OUT_NUM": num, "OUT_TPL": tpl}, workers=1, timeout=3000, xmx="24g"), "C10 script gen")
    tseq, tdeep, thuff = (os.path.join(w, x) for x in ("tapseqs.ndjson", "tapdeep.ndjson", "taphuff.ndjson"))
    tlc_must_pass(tlc("Gen_Taproot", "Gen_Taproot.cfg", w, env={"GEN_LEN": 4 if q else 5, "GEN_DEPTH": 3, "OUT": tseq, "OUT_DEEP": tdeep, "OUT_HUFF": thuff}, workers=1, timeout=3000, xmx="24g"), "C10 taproot gen")
    lock, hist = os.path.join(w, "lock.ndjson"), os.path.join(w, "hist.ndjson")
    tlc_must_pass(tlc("Gen_PsetView", "Gen_PsetView.cfg", w, env={"GEN_STEPS": 2, "OUT_LOCK": lock, "OUT_HIST": hist}, workers=1, timeout=1800, xmx="16g"), "C10 view gen")
    for args in (["psetmerge", "keysources", "--cases", ks], ["psetmerge", "replay", "--cases", fam, "--tables", tb],
                 ["script", "templates", "--cases", tpl], ["script", "sequences", "--cases", seq],
                 ["taproot", "replay", "--cases", tseq], ["taproot", "deep", "--cases", tdeep], ["taproot", "huffman", "--cases", thuff],
                 ["psetview", "locktime", "--cases", lock], ["psetview", "history", "--cases", hist],
                 ["psetcodec", "sized", "--cases", _sz, "--tables", tb]):
        rep = vh(args + ["--seed", ck.seed], timeout=7000, crash=(ck, "C10/crash/signal-in-%s-replay" % args[0], ""))
        if rep["stats"]:
            ck.add_vh(rep, distinct_key="distinct_cases", panics_only=True)
    ck.cov["rule"] = ("calls: every Decodable type, the slice parsers (control blocks, merkle branches, Schnorr signatures, commitments, blinding "
                      "factors, pegin witnesses), script iteration / assembly / predicates / from_script, all string parsers (addresses on "
                      "every network, the five blech32 constructors, hex ids, outpoints, blinding factors, sighash types, PSET base64, JSON "
                      "contracts, lock times) on the repository's hex vectors, generated encodings and PSETs and on 1-3 stacked byte / "
                      "character mutations of each (bit flips, boundary bytes, huge length fields, truncation, extension, splices) plus "
                      "random strings; the accessors of every decoded value (ids, sizes, weights, pegin / pegout data, minimum value), "
                      "verify_tx_amt_proofs, taproot sighash incl. out-of-range indices, from_tx, extract_tx, locktime, unique_id, merge, "
                      "blind_last / blind_non_last with absent or arbitrary secrets; degenerate in-memory arguments (blind with no / some / "
                      "all outputs marked x 0..2 secrets x non-standard scripts, zero and u64::MAX values, unblinded addresses, unblind of "
                      "non-confidential outputs, inconsistent PSET bookkeeping, empty / zero-weight Huffman trees); every call under "
                      "catch_unwind with a counting allocator; distinct = corpus items; systematic length blow-ups (every byte position of every corpus "
                      "item and every PSET pair replaced by each huge CompactSize); plus, for panics only, the case families of Wire, "
                      "PsetCodec (edits, sized), PsetMerge (families, key sources), ScriptSpec (sequences, templates incl. from_script), "
                      "Taproot (sequences, depth limit, Huffman) and PsetView (lock times, histories)")
    ck.assumptions += ["sampled inputs, no coverage feedback: absence of panics is explored, not proved",
                       "allocation bound 64 MiB + 256 bytes per input byte (covers MAX_VEC_SIZE and the 10 000-map cap)",
                       "documented panic conditions are not called (legacy / segwit sighash index out of range, insert_input / insert_output "
                       "position, remove_checksum on unvalidated data, uncompressed keys in p2wpkh)"]
