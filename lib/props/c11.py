"""C11: asset / token ids in every representation (Issuance.tla) and JSON contract hashes (JsonContract.tla)."""
import os
from lib.common import tlc, tlc_must_pass, vh

LEVEL = "model_checking"


def run(ck):
    q = ck.tier == "quick"
    w = ck.work
    r = tlc_must_pass(tlc("MC_Issuance", "MC_Issuance.cfg", w, workers=4, timeout=600), "C11 model")
    ck.add_tlc(r, "TxIn -> pset::Input -> extracted TxIn: same ids in every representation, all index/flag/nonce/amount classes")
    cases = os.path.join(w, "cases.ndjson")
    tlc_must_pass(tlc("Gen_Issuance", "Gen_Issuance.cfg", w, env={"OUT": cases}, workers=1, timeout=600), "C11 gen")
    rep = vh(["issuance", "replay", "--cases", cases, "--seed", ck.seed, "--k", 4 if q else 64])
    ck.add_vh(rep, distinct_key="distinct_cases")
    jc = os.path.join(w, "json.ndjson")
    r = tlc_must_pass(tlc("Gen_JsonContract", "Gen_JsonContract.cfg" if q else "Gen_JsonContract_thorough.cfg", w, env={"OUT": jc},
                          workers=1, timeout=1200), "C11 json gen")
    ck.add_tlc(r, "canonical-text definition; constant-level checks CanonIsAText / CanonInjective")
    rep = vh(["issuance", "json", "--cases", jc])
    ck.add_vh(rep, distinct_key="distinct_cases")
    ck.cov["rule"] = ("issuance: one case per (index class incl. 2^30-1 and the null index, pegin, nonce zero/non-zero, amount and key "
                      "kinds) = 128 abstract inputs, each with the id expressions of the specification, replayed with k random "
                      "txids/entropies through TxIn, pset::Input::from_txin, from_tx/extract_tx and the AssetId constructors; "
                      "json: one case per abstract contract (key subset x value kinds), every key permutation at both nesting levels "
                      "x 3 whitespace styles must hash to SHA-256 of the spec's canonical text; distinct = distinct abstract records")
    ck.cov["exhaustive"] = True
    ck.assumptions += ["SHA-256 / compression as free constructors in the model", "own SHA-256 in the harness",
                       "JSON values restricted to strings, integers, booleans, null, arrays and objects of those"]
