"""C12: size, weight, vsize, discount weight equal the real serialized sizes (Wire.tla)."""
from lib.common import vh
from lib.props import wire_common

LEVEL = "model_checking"


def run(ck):
    wire_common.mc(ck)
    p = wire_common.gen(ck)
    rep = vh(["wire", "base", "--cases", p["base"], "--seed", ck.seed, "--props", "C12"], timeout=7000)
    ck.add_vh(rep, distinct_key="distinct_classes")
    rep = vh(["wire", "block", "--cases", p["block"], "--seed", ck.seed])
    ck.add_vh(rep, distinct_key="distinct_classes")
    ck.cov["rule"] = ("per transaction shape the specification computes size = sum of token widths of the encoding, weight = 3 x stripped "
                      "+ full, vsize, discount weight / vsize, and TLC checks that a transcription of the hand-written scaled_size "
                      "arithmetic agrees with them on every emitted shape; the harness compares size(), weight(), vsize(), "
                      "discount_weight(), discount_vsize(), rangeproof_len(), surjectionproof_len(), Block::size/weight with those "
                      "numbers and with the measured lengths of the real full and witness-stripped serializations; distinct = classes")
    ck.assumptions += ["field contents random (seeded); lengths are those of the shape"]
