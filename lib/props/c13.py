"""C13: a sighash cache answers every query as a fresh one would, in any order (SighashCache.tla)."""
import os
from lib.common import tlc, tlc_must_pass, vh, validate_trace
from lib.props import c03

LEVEL = "model_checking"


def run(ck):
    q = ck.tier == "quick"
    w = ck.work
    r = tlc_must_pass(tlc("MC_SighashCache", "MC_SighashCache.cfg" if q else "MC_SighashCache_thorough.cfg", w, workers=8, timeout=2400),
                      "C13 model")
    ck.add_tlc(r, "all query / witness_mut sequences up to MaxSteps over the full alphabet: AnswersFresh, NoCacheOnWitness, OneSuffices")
    txcases, _ = c03.gen(ck)
    for glen, alpha in ([(2, "full"), (4, "reduced")] if q else [(2, "full"), (5, "reduced")]):
        cases = os.path.join(w, "seq_%d_%s.ndjson" % (glen, alpha))
        tlc_must_pass(tlc("Gen_SighashCache", "Gen_SighashCache.cfg", w, env={"GEN_LEN": glen, "GEN_ALPHA": alpha, "OUT": cases},
                          workers=1, timeout=2400, xmx="24g"), "C13 gen")
        rep = vh(["sighash", "cache-replay", "--cases", cases, "--txcases", txcases, "--seed", ck.seed, "--nin", 2], timeout=7000)
        ck.add_vh(rep, distinct_key="distinct_cases")
    trace = os.path.join(w, "trace.ndjson")
    rep = vh(["sighash", "cache-record", "--txcases", txcases, "--out", trace, "--seed", ck.seed, "--sessions", 300 if q else 6000,
              "--maxlen", 50, "--nin", 3])
    ck.add_vh(rep, eval_key="events")
    validate_trace(ck, "Trace_SighashCache", "Trace_SighashCache.cfg", trace, rep["stats"].get("traces", 0), "C13/trace-rejected",
                   rep["args"], timeout=3000, xmx="16g")
    ck.cov["rule"] = ("sequences: every sequence of 2 symbols over the full alphabet (82 symbols: legacy/segwit x index x 6 types, taproot x "
                      "index x 7 types x {All, All wrong length, One(i), One(j)}, witness_mut x index) and every sequence of 4-5 over a "
                      "reduced alphabet, replayed on ONE SighashCache<&mut Transaction>; each answer compared with a fresh cache, the "
                      "expected ok/error outcome, One-vs-All equality under ANYONECANPAY, and the hook's (common, segwit, taproot) fill "
                      "state compared with the specification's; traces: random sequences of length <= 50 over 3 inputs accepted by "
                      "Trace_SighashCache; distinct = distinct sequences")
    ck.assumptions += ["the transaction is otherwise unchanged between queries (the property's precondition)",
                       "the same true spent outputs are supplied in every query"]
