"""C14: merging PSETs never loses information, never panics, is order-insensitive (PsetMerge.tla)."""
import os
from lib.common import tlc, tlc_must_pass, vh
from lib.props import c07

LEVEL = "model_checking"


def run(ck):
    w = ck.work
    r = tlc_must_pass(tlc("MC_PsetMerge", "MC_PsetMerge.cfg", w, workers=12, timeout=2400, xmx="16g"), "C14 model")
    ck.add_tlc(r, "families of 3 descendants (<= 2 additions each, disjoint or identical) merged in every order: KeepsAll, NoInvention, "
                  "OrderFree, Commutes, Associates; key-source table: commutative, keeps the longest")
    _, _, tables, _sz = c07.gen(ck)
    cases, ks = os.path.join(w, "families.ndjson"), os.path.join(w, "keysources.ndjson")
    r = tlc_must_pass(tlc("Gen_PsetMerge", "Gen_PsetMerge.cfg", w, env={"GEN_TIER": ck.tier, "OUT": cases, "OUT_KS": ks}, workers=1,
                          timeout=2400, xmx="16g"), "C14 gen")
    ck.add_tlc(r, "family and key-source emission")
    rep = vh(["psetmerge", "replay", "--cases", cases, "--tables", tables, "--seed", ck.seed], timeout=7000)
    ck.add_vh(rep, distinct_key="distinct_cases")
    rep = vh(["psetmerge", "keysources", "--cases", ks, "--seed", ck.seed])
    ck.add_vh(rep, distinct_key="distinct_cases")
    ck.cov["rule"] = ("families: descendants of a 2-input / 2-output ancestor obtained by adding any optional field of any map at any "
                      "position (125 additions); every pair (A adds x, B adds y; quick: y from every 7th) merged both ways, and triples "
                      "with overlapping identical additions merged in all six orders; a PSET is projected to its set of wire pairs by an "
                      "own reader: the result must contain every pair of every operand, invent nothing, keep the unique id, and be the same "
                      "in every order; operands with different unique ids must be refused; key sources: all 196 ordered pairs over 14 "
                      "sources (equal, suffix either way, unrelated equal / different length, equal path / other fingerprint), both merge "
                      "directions, expected keep / conflict; distinct = distinct families / pairs")
    ck.assumptions += ["additions are disjoint or identical (the property's quantifier); conflicting values for one key are out of scope",
                       "tx_modifiable is OR-ed and the version maximised, as documented"]
