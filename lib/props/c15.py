"""C15: taproot script trees commit every leaf and nothing else (Taproot.tla)."""
import os
from lib.common import tlc, tlc_must_pass, vh

LEVEL = "model_checking"


def run(ck):
    q = ck.tier == "quick"
    w = ck.work
    r = tlc_must_pass(tlc("MC_Taproot", "MC_Taproot.cfg" if q else "MC_Taproot_thorough.cfg", w, workers=12, timeout=3000, xmx="16g"), "C15 model")
    ck.add_tlc(r, "builder stack machine vs reference tree for every op sequence in bounds (leaves and hidden nodes): BuilderIsReference, "
                  "PathsAndOrder, Refusals, PrefixClosed; Huffman: all weight vectors over 1..4, n <= 5")
    cases, deep, huff = (os.path.join(w, x) for x in ("seqs.ndjson", "deep.ndjson", "huff.ndjson"))
    r = tlc_must_pass(tlc("Gen_Taproot", "Gen_Taproot.cfg", w, env={"GEN_LEN": 5 if q else 6, "GEN_DEPTH": 3 if q else 4, "OUT": cases,
                                                                     "OUT_DEEP": deep, "OUT_HUFF": huff}, workers=1, timeout=3000, xmx="24g"), "C15 gen")
    ck.add_tlc(r, "sequence emission")
    for sub, f in (("replay", cases), ("deep", deep), ("huffman", huff)):
        rep = vh(["taproot", sub, "--cases", f, "--seed", ck.seed], timeout=7000)
        ck.add_vh(rep, distinct_key="distinct_cases")
    ck.cov["rule"] = ("one case per op sequence (leaf / hidden node at depth 0..3-4, length <= 5-6): every valid depth-first listing and every "
                      "sequence up to its first refused op; replayed on the real TaprootBuilder comparing Ok / error class and the occupancy "
                      "of the pending-node stack (through the builder's serde form) after every step and the finalize outcome; for valid "
                      "trees the specification's root and per-leaf path terms are evaluated with own TapLeaf / TapBranch / TapTweak tagged "
                      "hashes and compared with merkle_root, output key and parity, every control block (path, size, serialization, "
                      "verification) and the negative set (other script, leaf version, sibling flipped / removed / added, parity, internal "
                      "key, other output key); key-pair tweak, key-spend, duplicate scripts, depth 127/128/129 chains, Huffman cost / "
                      "monotonicity / fullness; distinct = distinct sequences / weight vectors")
    ck.assumptions += ["tagged hashes are free constructors in the model; own SHA-256 in the harness", "key tweaking is libsecp's add_tweak"]
