"""C16: scripts built by the builder parse back exactly; templates and addresses agree (ScriptSpec.tla, Templates.tla)."""
import os
from lib.common import tlc, tlc_must_pass, vh

LEVEL = "model_checking"


def run(ck):
    q = ck.tier == "quick"
    w = ck.work
    r = tlc_must_pass(tlc("MC_ScriptSpec", "MC_ScriptSpec.cfg" if q else "MC_ScriptSpec_thorough.cfg", w, workers=12, timeout=3000, xmx="16g"), "C16 model")
    ck.add_tlc(r, "builder register machine over all op sequences in bounds (36 symbols incl. every push-length boundary and script-number "
                  "corner): ParsesBack, MinimalOk, LastIsLast; NumRoundTrip on 24 script numbers")
    seq, num, tpl = (os.path.join(w, x) for x in ("seqs.ndjson", "nums.ndjson", "templates.ndjson"))
    r = tlc_must_pass(tlc("Gen_ScriptSpec", "Gen_ScriptSpec.cfg", w, env={"GEN_LEN": 3 if q else 5, "OUT_SEQ": seq, "OUT_NUM": num, "OUT_TPL": tpl},
                          workers=1, timeout=3000, xmx="24g"), "C16 gen")
    ck.add_tlc(r, "sequence / number / template emission; templates mutually exclusive")
    for sub, f in (("sequences", seq), ("numbers", num), ("templates", tpl)):
        rep = vh(["script", sub, "--cases", f, "--seed", ck.seed], timeout=7000)
        ck.add_vh(rep, distinct_key="distinct_cases")
    ck.cov["rule"] = ("sequences: every sequence of <= 3 builder operations (thorough: plus all sequences of 4 and 5 over a 9-symbol core alphabet) over 36 symbols (9 opcodes incl. the five verify-foldable ones, "
                      "push_int / push_scriptint over small, boundary and 4-byte values, push_slice of 0, 1 (zero / 1..16 / 0x81), 75, 76, "
                      "255, 256, 65535, 65536 bytes, push_verify): script bytes compared with the specification's items, instructions() and "
                      "instructions_minimal() with the intended list, script numbers read back; templates: 9157 scripts of length 0..45 "
                      "around every template (every length, 12 leading opcodes, 17 push-length bytes, p2pkh / p2sh / p2pk near misses): all "
                      "ten predicates, Address::from_script defined exactly on the specified domain on 3 networks with and without "
                      "blinder, script_pubkey() and text round trip; distinct = sequences / scripts")
    ck.assumptions += ["'minimal push' = shortest length prefix; push_slice / push_scriptint of a single byte 1..16 or 0x81 is the documented "
                       "explicit encoding and is not required to pass instructions_minimal"]
