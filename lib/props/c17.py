"""C17: checksum error detection (Checksum.tla)."""
import os
from lib.common import tlc, tlc_must_pass, vh

LEVEL = "model_checking"


def run(ck):
    q = ck.tier == "quick"
    w = ck.work
    for code in ("bech32", "blech32"):
        cfg = "MC_Checksum_%s.cfg" % code if q else "MC_Checksum_%s_thorough.cfg" % code
        r = tlc_must_pass(tlc("MC_Checksum", cfg, os.path.join(w, code), workers=1, timeout=3000), "C17 model " + code)
        ck.add_tlc(r, "%s: every 1- and 2-symbol error syndrome non-zero and != variant difference, all distances up to MaxLen" % code)
        cases = os.path.join(w, "lfsr_%s.ndjson" % code)
        tlc_must_pass(tlc("Gen_Checksum", "Gen_Checksum_%s.cfg" % code, os.path.join(w, code), env={"OUT": cases, "OUT_TABLES": os.path.join(w, "tables_%s.ndjson" % code)}, workers=1, timeout=600),
                      "C17 gen " + code)
        rep = vh(["checksum", "lfsr", "--cases", cases])
        ck.add_vh(rep, distinct_key="distinct_cases")
    args = ["checksum", "corrupt", "--seed", ck.seed, "--sampled", 100000 if q else 300000, "--threads", 8 if q else 16]
    if not q:
        args += ["--all-doubles-net", "all"]
    rep = vh(args, timeout=7000)
    ck.add_vh(rep, distinct_key="distinct_addresses")
    ck.cov["rule"] = ("model: syndromes of all 31 error values at every distance, with the history set of all earlier syndromes (covers every "
                      "pair); binding (i): 48 LFSR runs per code (32 impulse responses + 16 mixed strings) replayed step by step through "
                      "the library's checksum engines with /repo's constants; binding (ii): 30 representative addresses "
                      "({unblinded, blinded} x {v0-20, v0-32, v1-32, v16-2, v16-40} x 3 networks): all single replacements in the data "
                      "part (both letter cases), all 1- and 2-character hrp replacements, and %s double replacements, through from_str, "
                      "parse_with_params of every network and blech32::decode::SegwitHrpstring::new; distinct = distinct address classes "
                      "/ LFSR runs") % ("100000 sampled" if q else "ALL")
    ck.assumptions += ["GF(32) arithmetic by a 32x32 XOR table (Bitwise module)",
                       "the proof is for the generator written in Checksum.tla; the tie to /repo's constants is the step-trace replay"]
