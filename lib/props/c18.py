"""C18: fast_merkle_root is the definitional midstate tree (FastMerkle.tla)."""
import os
from lib.common import tlc, tlc_must_pass, vh, ToolError, validate_trace

LEVEL = "model_checking"


def run(ck):
    q = ck.tier == "quick"
    w = ck.work
    # 1. model level: algorithm == definition for every n <= MaxN, termination, inner-array invariant
    r = tlc_must_pass(tlc("MC_FastMerkle", "MC_FastMerkle.cfg" if q else "MC_FastMerkle_thorough.cfg", w, workers=8,
                          timeout=1500, coverage=True), "C18 model")
    ck.add_tlc(r, "algorithm = definition, every leaf count 0..MaxN, symbolic leaves")
    for act in ["EmptyA", "LeafA", "CarryA", "StoreA", "SkipA", "SweepStartA", "PromoteA", "CombineA", "DoneA"]:
        if ("<%s " % act) not in r["out"]:
            raise ToolError("coverage: action %s not reported" % act)
    # 2. direction A: root terms emitted by TLC, evaluated with an own compression function
    gen_n = 64 if q else 300
    cases = os.path.join(w, "cases.ndjson")
    r = tlc_must_pass(tlc("Gen_FastMerkle", "Gen_FastMerkle.cfg", w, env={"GEN_N": gen_n, "OUT": cases}, workers=1, timeout=600),
                      "C18 gen")
    rep = vh(["fmr", "replay", "--cases", cases, "--seed", ck.seed, "--k", 2 if q else 6])
    ck.add_vh(rep, distinct_key="distinct_n")
    rep = vh(["fmr", "big", "--seed", ck.seed, "--count", 40 if q else 1500, "--maxn", 5000 if q else 20000])
    ck.add_vh(rep, distinct_key="distinct_n")
    # 3. direction B: every step of the real algorithm (hook events) validated against the spec's actions
    trace = os.path.join(w, "trace.ndjson")
    extra = "100,127,129,1000" if q else ",".join(str(x) for x in list(range(65, 200)) + [255, 256, 257, 1000, 1023, 1025, 4097])
    rep = vh(["fmr", "record", "--out", trace, "--seed", ck.seed, "--maxn", 64, "--extra", extra])
    ck.add_vh(rep, eval_key="traces")
    n_traces = rep["stats"].get("traces", 0)
    validate_trace(ck, "Trace_FastMerkle", "Trace_FastMerkle.cfg", trace, n_traces, "C18/trace-rejected", rep["args"])
    ck.cov["rule"] = ("one case per leaf count n (all n in 0..%d via TLC-emitted root terms, plus sampled and boundary n up to %d); "
                      "distinct = distinct leaf counts; each evaluated on random leaves with an own SHA-256 compression function, "
                      "plus per-leaf edit and adjacent-swap sensitivity; traces = runs of the real function whose hook events "
                      "were accepted step by step by Trace_FastMerkle" % (gen_n, 5000 if q else 20000))
    ck.cov["exhaustive"] = False
    ck.assumptions += ["SHA-256 compression is modelled as a free constructor (collision-freeness)",
                       "own compression function in harness/src/sha256c.rs (self-tested against bitcoin_hashes)"]
