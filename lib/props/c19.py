"""C19: dynafed parameter roots (Dynafed.tla)."""
import os
from lib.common import tlc, tlc_must_pass, vh, validate_trace

LEVEL = "model_checking"


def run(ck):
    q = ck.tier == "quick"
    w = ck.work
    r = tlc_must_pass(tlc("MC_Dynafed", "MC_Dynafed.cfg" if q else "MC_Dynafed_thorough.cfg", w, workers=8, timeout=2400), "C19 model")
    ck.add_tlc(r, "header (current, proposed) over all kinds/length classes; compaction steps in any order keep every root")
    pc, hc = os.path.join(w, "params.ndjson"), os.path.join(w, "headers.ndjson")
    r = tlc_must_pass(tlc("Gen_Dynafed", "Gen_Dynafed.cfg" if q else "Gen_Dynafed_thorough.cfg", w,
                          env={"OUT_PARAMS": pc, "OUT_HEADERS": hc}, workers=1, timeout=900), "C19 gen")
    rep = vh(["dynafed", "params", "--cases", pc, "--seed", ck.seed, "--k", 1 if q else 4])
    ck.add_vh(rep, distinct_key="distinct_cases")
    rep = vh(["dynafed", "headers", "--cases", hc, "--seed", ck.seed])
    ck.add_vh(rep, distinct_key="distinct_cases")
    trace = os.path.join(w, "trace.ndjson")
    rep = vh(["dynafed", "record", "--out", trace, "--seed", ck.seed, "--sessions", 1500 if q else 40000])
    ck.add_vh(rep, eval_key="traces")
    validate_trace(ck, "Trace_Dynafed", "Trace_Dynafed.cfg", trace, rep["stats"].get("traces", 0), "C19/trace-rejected", rep["args"])
    ck.cov["rule"] = ("one case per abstract parameter set (kind x length class of every field x extension-space shape) and per header "
                      "pair of representatives, each emitted by TLC with its root expression; distinct = distinct abstract records; "
                      "the harness binds random field contents, evaluates the expression with its own SHA-256 and compares with "
                      "calculate_root (both code paths), into_compact, elided_root and the header root; plus per-field commitment "
                      "edits; traces = recorded compaction/wire sessions accepted by Trace_Dynafed")
    ck.assumptions += ["SHA-256 / compression as free constructors in the model", "field contents random (seeded)"]
