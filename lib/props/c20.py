"""C20: serde and textual forms round-trip in self-describing formats (SerdeShape.tla)."""
import os
from lib.common import tlc, tlc_must_pass, vh
from lib.props import wire_common

LEVEL = "model_checking"


def run(ck):
    q = ck.tier == "quick"
    w = ck.work
    shapes, strings, content = (os.path.join(w, x) for x in ("shapes.ndjson", "strings.ndjson", "content.ndjson"))
    r = tlc_must_pass(tlc("MC_SerdeShape", "MC_SerdeShape.cfg", w, env={"OUT": shapes, "OUT_STR": strings, "OUT_CONTENT": content}, workers=1, timeout=600), "C20 model")
    ck.add_tlc(r, "constant level, exhaustive over the shape table: AllDuplicateFree, SelectionRecovers, PrintInjective")
    p = wire_common.gen(ck)
    rep = vh(["serde", "replay", "--shapes", shapes, "--strings", strings, "--bases", p["base"], "--headers", p["header"], "--seed", ck.seed,
              "--stride", 9 if q else 1], timeout=7000)
    ck.add_vh(rep, distinct_key="distinct_classes")
    rep = vh(["serde", "content", "--cases", content, "--seed", ck.seed], timeout=3000)
    ck.add_vh(rep, distinct_key="distinct_cases")
    ck.cov["rule"] = ("model: field names per (type, variant) pairwise distinct, variant selection by present names recovers the variant, string "
                      "tables injective; binding: JSON and CBOR round trip (==) of Transaction / TxIn / TxOut / witnesses / AssetIssuance / "
                      "OutPoint / Script / Sequence / LockTime / confidential Asset, Value, Nonce over the Wire shape family (quick: every "
                      "9th), BlockHeader / ExtData / Params / Block over the header family, Address, blinding factors, TxOutSecrets, hash "
                      "newtypes, sighash types, and PSETs (minimal, fully populated, one per optional field of every map) incl. Input / "
                      "Output; emitted top-level field names compared with the specification (duplicates kept); Display / FromStr of "
                      "outpoints, ids, blinding factors, lock times, sequences, all ECDSA / Schnorr / PSET sighash types (named and raw), "
                      "addresses, PSET base64; byte-string fields x content classes (random, ASCII hex of even / odd length, ASCII text, UTF-8, zeros, "
                      "empty, 0xff): every (field, class) pair of the specification round-trips in JSON and CBOR; distinct = structural classes")
    ck.assumptions += ["fidelity inside a leaf codec (hex of 32 bytes etc.) is sampled, not modelled", "formats: serde_json 1.x and serde_cbor 0.8"]
