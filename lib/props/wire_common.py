"""Shared generation step for the Wire family (C01, C02, C12, and the C08 round trip)."""
import os
from lib.common import tlc, tlc_must_pass


def gen(ck):
    w = ck.work
    paths = {k: os.path.join(w, k + ".ndjson") for k in ("base", "wire", "header", "hwire", "block", "piece")}
    env = {"GEN_TIER": ck.tier, "OUT_BASE": paths["base"], "OUT_WIRE": paths["wire"], "OUT_HEADER": paths["header"],
           "OUT_HWIRE": paths["hwire"], "OUT_BLOCK": paths["block"], "OUT_PIECE": paths["piece"]}
    r = tlc_must_pass(tlc("Gen_Wire", "Gen_Wire.cfg", w, env=env, workers=1, timeout=3000, xmx="24g"), "Wire gen")
    ck.add_tlc(r, "case emission; constant-level RoundTrip / SizesAgree / IdsRelate / Canonical / HeaderRoundTrip / ClearKeepsHash "
                  "on exactly the emitted cases")
    return paths


def mc(ck):
    q = ck.tier == "quick"
    r = tlc_must_pass(tlc("MC_Wire", "MC_Wire.cfg" if q else "MC_Wire_thorough.cfg", ck.work, workers=12 if q else 16, timeout=3000,
                          xmx="24g"), "Wire model")
    ck.add_tlc(r, "WireSession: every token string reachable from an encoding by <= MaxDepth mutations; CanonInv, BaseInv, PartialInv")
