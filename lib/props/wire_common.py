"""Shared generation step for the Wire family (C01, C02, C12, and the C08 round trip)."""
import hashlib, json, os, shutil
from lib.common import tlc, tlc_must_pass, SPEC, VERIF


def _spec_digest(tier):
    h = hashlib.sha256(tier.encode())
    for f in ("Wire.tla", "WireShapes.tla", "PsetTx.tla", "Gen_Wire.tla", "Gen_Wire.cfg"):
        h.update(open(os.path.join(SPEC, f), "rb").read())
    return h.hexdigest()[:16]


def gen(ck):
    w = ck.work
    paths = {k: os.path.join(w, k + ".ndjson") for k in ("base", "wire", "header", "hwire", "block", "piece")}
    env = {"GEN_TIER": ck.tier, "OUT_BASE": paths["base"], "OUT_WIRE": paths["wire"], "OUT_HEADER": paths["header"],
           "OUT_HWIRE": paths["hwire"], "OUT_BLOCK": paths["block"], "OUT_PIECE": paths["piece"]}
    # the emission depends on the specification files and the tier only (never on /repo): it is shared between the checks that use
    # it (C01, C02, C08, C10, C12, C20) through a cache keyed by the digest of those files; a fresh tree regenerates it
    cache = os.path.join(VERIF, "work", "cache", "wire_" + _spec_digest(ck.tier))
    meta = os.path.join(cache, "tlc.json")
    if os.path.exists(meta) and all(os.path.exists(os.path.join(cache, k + ".ndjson")) for k in paths):
        for k, p in paths.items():
            shutil.copyfile(os.path.join(cache, k + ".ndjson"), p)
        r = json.load(open(meta))
        r["cached"] = "Gen_Wire emission reused from %s (TLC statistics are those of the generating run)" % os.path.relpath(cache, VERIF)
        r["out"] = ""
    else:
        r = tlc_must_pass(tlc("Gen_Wire", "Gen_Wire.cfg", w, env=env, workers=1, timeout=3000, xmx="24g"), "Wire gen")
        tmp = cache + ".tmp%d" % os.getpid()
        os.makedirs(tmp, exist_ok=True)
        for k, p in paths.items():
            shutil.copyfile(p, os.path.join(tmp, k + ".ndjson"))
        json.dump({k: v for k, v in r.items() if k != "out"}, open(os.path.join(tmp, "tlc.json"), "w"))
        shutil.rmtree(cache, ignore_errors=True)
        os.rename(tmp, cache)
    ck.add_tlc(r, "case emission; constant-level RoundTrip / SizesAgree / IdsRelate / Canonical / HeaderRoundTrip / ClearKeepsHash "
                  "on exactly the emitted cases")
    return paths


def mc(ck):
    q = ck.tier == "quick"
    r = tlc_must_pass(tlc("MC_Wire", "MC_Wire.cfg" if q else "MC_Wire_thorough.cfg", ck.work, workers=12 if q else 16, timeout=3000,
                          xmx="24g"), "Wire model")
    ck.add_tlc(r, "WireSession: every token string reachable from an encoding by <= MaxDepth mutations; CanonInv, BaseInv, PartialInv")
