#!/bin/bash
# seeded_all.sh [ids...] : every seeded change against the quick check of its own property (and the extra checks listed in
# seeded/<id>/also.txt if present); writes seeded/RESULTS.md.  /repo is restored after every change.
cd /verif
ids="$@"; [ -z "$ids" ] && ids=$(ls seeded | grep -E '^C[0-9][0-9]-')
mkdir -p work/seeded
for d in $ids; do
  prop=${d%%-*}
  also=""; [ -f seeded/$d/also.txt ] && also=$(cat seeded/$d/also.txt)
  lib/seeded_check.sh $d $prop $also 2>&1 | tee -a work/seeded_all.txt
done
python3 - <<'PY'
import re, os, json
rows = {}
for l in open('/verif/work/seeded_all.txt'):
    m = re.match(r'(C\d\d-\w+) (C\d\d) rc=(\d+) secs=(\d+) (\d+) viol-lines;(.*)', l)
    if m:
        keys = re.findall(r'key=(\S+)', m.group(6))
        rows[(m.group(1), m.group(2))] = (int(m.group(3)), int(m.group(5)), keys[:2])
out = ["# Seeded changes vs. quick checks (last run of lib/seeded_all.sh)", "",
       "| change | summary | check | exit | violation lines | first keys |", "|---|---|---|---|---|---|"]
for (d, c), (rc, n, keys) in sorted(rows.items()):
    try: summ = json.load(open('/verif/seeded/%s/meta.json' % d))['summary'][:110].replace('|', '/')
    except Exception: summ = ''
    out.append("| %s | %s | %s | %d | %d | %s |" % (d, summ, c, rc, n, ' '.join('`%s`' % k[:70] for k in keys)))
caught = len({d for (d, c), (rc, n, k) in rows.items() if rc == 1 and c == d.split('-')[0]})
total = len({d for (d, c) in rows})
out += ["", "%d of %d changes are reported by the quick check of their own property." % (caught, total)]
open('/verif/seeded/RESULTS.md', 'w').write("\n".join(out) + "\n")
print(out[-1])
PY
