#!/bin/bash
# seeded_check.sh <seeded dir> <Cxx> [<Cyy> ...]
# Applies /verif/seeded/<dir>/patch.diff to /repo, runs the quick checks named, and undoes the change straight afterwards.
# Prints "<dir> <Cxx> rc=<n> keys=<violation keys>" per check.  Never leaves /repo modified.
set -u
D=$1; shift
cd /verif
[ -z "$(git -C /repo status --porcelain --untracked-files=no)" ] || { echo "/repo not clean"; exit 2; }
trap 'git -C /repo checkout -q -- .' EXIT
git -C /repo apply /verif/seeded/$D/patch.diff || exit 2
mkdir -p work/seeded
for c in "$@"; do
  s=$(date +%s)
  ./check $c --tier ${TIER:-quick} > work/seeded/$D.$c.log 2>&1; rc=$?
  e=$(date +%s)
  keys=$(grep -h -o "^  key=[^ ]*" work/seeded/$D.$c.log | head -6 | tr "\n" " ")
  echo "$D $c rc=$rc secs=$((e-s)) $(grep -c '^VIOLATION ' work/seeded/$D.$c.log) viol-lines; $keys"
done
git -C /repo checkout -q -- .
trap - EXIT
