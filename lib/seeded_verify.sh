#!/bin/bash
# seeded_verify.sh <srcdir with patch.diff demo.rs meta.json> <name>
# Confirms in a scratch worktree (outside /repo and /verif) that the change compiles, the baseline suite still
# passes (105), and the demonstration fails with the change and passes without it.  Prints one summary line.
set -u
SRC=$1; NAME=$2
WT=/tmp/sv_wt
if [ ! -d $WT ]; then git -C /repo worktree add --detach $WT HEAD -q || exit 2; fi
cd $WT || exit 2
git checkout -q -- . ; git clean -fdq tests/ 2>/dev/null
FEAT="--features serde,base64,json-contract"
cp $SRC/demo.rs tests/demo_seed.rs
cargo test --offline $FEAT --test demo_seed > /tmp/sv_clean.log 2>&1; rc_clean=$?
git apply $SRC/patch.diff || { echo "$NAME APPLY-FAILED"; exit 2; }
cargo test --offline $FEAT --test demo_seed > /tmp/sv_mut.log 2>&1; rc_mut=$?
rm -f tests/demo_seed.rs
cargo nextest run --workspace --no-fail-fast --test-threads 8 --offline > /tmp/sv_base.log 2>&1
base=$(grep -E "tests run:" /tmp/sv_base.log | tail -1)
git checkout -q -- .
echo "$NAME demo_clean_rc=$rc_clean demo_mut_rc=$rc_mut baseline: $base"
