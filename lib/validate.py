#!/usr/bin/env python3
"""Validate MANIFEST.json and evidence files against the schemas (uses the tooling venv if needed)."""
import json, sys, glob
try:
    import jsonschema
except ImportError:
    sys.path.insert(0, glob.glob("/opt/veriftools/pyvenv/lib/python3*/site-packages")[0])
    import jsonschema
ok = True
def v(path, schema):
    global ok
    try:
        jsonschema.validate(json.load(open(path)), json.load(open(schema)))
        print("valid", path)
    except Exception as e:
        ok = False
        print("INVALID", path, str(e)[:400])
v("/verif/MANIFEST.json", "/root/.vp/MANIFEST.schema.json")
for f in sorted(glob.glob("/verif/evidence/*.json")):
    v(f, "/root/.vp/EVIDENCE.schema.json")
sys.exit(0 if ok else 1)
