-------------------------------- MODULE Addr --------------------------------
(***************************************************************************)
(* Elements addresses (src/address.rs, src/blech32), property C06.         *)
(*                                                                         *)
(* Abstract address: [net, form, ver, plen, blinded].  Abstract string:     *)
(*   base58:  [kind "b58", outer, inner, keylen, hashlen, cksum]            *)
(*            payload = outer [inner key] hash, version bytes by name        *)
(*   segwit:  [kind "seg", hrp, case, ver, keylen, plen, code, variant]      *)
(* Display and Parse are defined on these; bytes are bound by the harness    *)
(* whose encoders (base58check, bech32/bech32m/blech32/blech32m with the     *)
(* generator tables of Checksum.tla) are independent of the library.         *)
(***************************************************************************)
EXTENDS Naturals, Sequences, FiniteSets, TLC

Nets == {"liquid", "elements", "liquidtestnet"}
\* version bytes and human-readable parts of the three built-in networks
P2pkhByte(n)   == CASE n = "liquid" -> 57  [] n = "elements" -> 235 [] n = "liquidtestnet" -> 36
P2shByte(n)    == CASE n = "liquid" -> 39  [] n = "elements" -> 75  [] n = "liquidtestnet" -> 19
BlindedByte(n) == CASE n = "liquid" -> 12  [] n = "elements" -> 4   [] n = "liquidtestnet" -> 23
BechHrp(n)     == CASE n = "liquid" -> "ex" [] n = "elements" -> "ert" [] n = "liquidtestnet" -> "tex"
BlechHrp(n)    == CASE n = "liquid" -> "lq" [] n = "elements" -> "el"  [] n = "liquidtestnet" -> "tlq"
AllBytes == UNION { {P2pkhByte(n), P2shByte(n), BlindedByte(n)} : n \in Nets }
AllHrps  == UNION { {BechHrp(n), BlechHrp(n)} : n \in Nets }
\* the nine version bytes and the six hrps are pairwise distinct: a string names at most one network
PrefixesDistinct == Cardinality(AllBytes) = 9 /\ Cardinality(AllHrps) = 6

Addresses == [net : Nets, form : {"p2pkh", "p2sh"}, ver : {0}, plen : {20}, blinded : BOOLEAN]
             \cup [net : Nets, form : {"wit"}, ver : 0..16, plen : 0..42, blinded : BOOLEAN]
ValidAddr(a) == a.form # "wit" \/ (a.plen >= 2 /\ a.plen <= 40 /\ (a.ver = 0 => a.plen \in {20, 32}))

\* canonical (displayed) string of an address
Display(a) ==
  IF a.form = "wit"
  THEN [kind |-> "seg", hrp |-> IF a.blinded THEN BlechHrp(a.net) ELSE BechHrp(a.net), case |-> "lower", ver |-> a.ver,
        keylen |-> IF a.blinded THEN 33 ELSE 0, plen |-> a.plen, code |-> IF a.blinded THEN "blech" ELSE "bech",
        variant |-> IF a.ver = 0 THEN "plain" ELSE "m", pad |-> 0]
  ELSE [kind |-> "b58", outer |-> IF a.blinded THEN BlindedByte(a.net) ELSE (IF a.form = "p2pkh" THEN P2pkhByte(a.net) ELSE P2shByte(a.net)),
        inner |-> IF a.blinded THEN (IF a.form = "p2pkh" THEN P2pkhByte(a.net) ELSE P2shByte(a.net)) ELSE 0,
        keylen |-> IF a.blinded THEN 33 ELSE 0, hashlen |-> 20, cksum |-> "ok"]

Rejected == [ok |-> FALSE]
Accept(a) == [ok |-> TRUE, addr |-> a]

\* parsing under one network's parameters (Address::parse_with_params).  Parsing sees bytes, not the
\* structure a string was built with: only total lengths and the bytes at fixed offsets matter.
SegTotal(s) == s.keylen + s.plen
\* padding: the data bytes are regrouped into 5-bit symbols; the last symbol carries PadBits(total) zero bits.
\* s.pad = 0: clean; s.pad = k > 0: the k-th padding bit (from the least significant) is set, where there is one
PadBits(n) == (5 - ((8 * n) % 5)) % 5
PadDirty(s) == s.pad > 0 /\ s.pad <= PadBits(SegTotal(s))
SegWellFormed(s, code) == s.case # "mixed" /\ s.code = code /\ s.ver <= 16 /\ s.variant = (IF s.ver = 0 THEN "plain" ELSE "m") /\ ~PadDirty(s)
ProgOk(ver, plen) == plen >= 2 /\ plen <= 40 /\ (ver = 0 => plen \in {20, 32})
ParseSeg(s, n) ==
  IF s.hrp = BechHrp(n) THEN
       IF SegWellFormed(s, "bech") /\ ProgOk(s.ver, SegTotal(s))
       THEN Accept([net |-> n, form |-> "wit", ver |-> s.ver, plen |-> SegTotal(s), blinded |-> FALSE]) ELSE Rejected
  ELSE IF s.hrp = BlechHrp(n) THEN
       \* the first 33 bytes must be a valid public key (true when the string was built with one), the rest is the program
       IF SegWellFormed(s, "blech") /\ s.keylen = 33 /\ SegTotal(s) >= 33 /\ ProgOk(s.ver, SegTotal(s) - 33)
       THEN Accept([net |-> n, form |-> "wit", ver |-> s.ver, plen |-> SegTotal(s) - 33, blinded |-> TRUE]) ELSE Rejected
  ELSE Rejected
FormOf(b, n) == IF b = P2pkhByte(n) THEN "p2pkh" ELSE IF b = P2shByte(n) THEN "p2sh" ELSE "none"
B58Total(s) == 1 + (IF s.inner # 0 THEN 1 ELSE 0) + s.keylen + s.hashlen
ParseB58(s, n) ==
  IF s.cksum # "ok" THEN Rejected
  ELSE IF s.outer = BlindedByte(n) THEN
       IF B58Total(s) = 55 /\ s.inner # 0 /\ s.keylen = 33 /\ s.hashlen = 20 /\ FormOf(s.inner, n) # "none"
       THEN Accept([net |-> n, form |-> FormOf(s.inner, n), ver |-> 0, plen |-> 20, blinded |-> TRUE]) ELSE Rejected
  ELSE IF FormOf(s.outer, n) # "none" /\ B58Total(s) = 21
       THEN Accept([net |-> n, form |-> FormOf(s.outer, n), ver |-> 0, plen |-> 20, blinded |-> FALSE]) ELSE Rejected
\* strings whose verdict would depend on whether random bytes happen to form a valid public key are left out
Decidable(s) ==
  IF s.kind = "seg" THEN ~(s.hrp \in { BlechHrp(n) : n \in Nets } /\ s.keylen = 0 /\ SegTotal(s) >= 35)
  ELSE ~(s.outer \in { BlindedByte(n) : n \in Nets } /\ (s.inner = 0 \/ (B58Total(s) = 55 /\ s.keylen # 33)))
ParseWith(s, n) == IF s.kind = "seg" THEN ParseSeg(s, n) ELSE ParseB58(s, n)
\* FromStr: the network is chosen by the prefix
Parse(s) == LET hits == { n \in Nets : ParseWith(s, n).ok } IN
            IF hits = {} THEN Rejected ELSE ParseWith(s, CHOOSE n \in hits : TRUE)

---------------------------------------------------------------------------
(* strings near valid ones *)
\* human-readable parts that extend or truncate a built-in one: a checksum computed over them is valid, the network still is not named
NearHrps == {"exx", "e", "ertq", "er", "texx", "te", "lqq", "l", "elq", "tlqq", "tl", "exq", "lqel",
             "ex1", "lq1", "ert1", "el1x", "1ex"}     \* the separator is the LAST '1' of a string: these contain one themselves
SegStrings ==
  [kind : {"seg"}, hrp : AllHrps \cup {"bc", "xx"} \cup NearHrps, case : {"lower", "upper", "mixed"}, ver : {0, 1, 2, 16, 17},
   keylen : {0, 33}, plen : {0, 1, 2, 19, 20, 21, 31, 32, 33, 40, 41}, code : {"bech", "blech"}, variant : {"plain", "m", "bad"}, pad : {0}]
  \cup \* programs whose length is a valid one plus 256 (lengths are not bytes: no arithmetic modulo 256)
  [kind : {"seg"}, hrp : AllHrps, case : {"lower"}, ver : {0, 1, 16}, keylen : {0, 33}, plen : {258, 276, 288, 296}, code : {"bech", "blech"}, variant : {"plain", "m"}, pad : {0}]
  \cup \* non-zero padding bits under a correct checksum, for every number of padding bits (program lengths of every residue mod 5)
  { x \in [kind : {"seg"}, hrp : AllHrps, case : {"lower"}, ver : {0, 1, 16}, keylen : {0, 33}, plen : {2, 3, 4, 19, 20, 21, 22, 32, 39, 40},
           code : {"bech", "blech"}, variant : {"plain", "m"}, pad : 1..4] :
      PadDirty(x) /\ x.variant = (IF x.ver = 0 THEN "plain" ELSE "m") /\ (x.code = "blech" <=> x.keylen = 33) }
B58Strings ==
  [kind : {"b58"}, outer : AllBytes \cup {0, 5, 111}, inner : AllBytes \cup {0}, keylen : {0, 32, 33, 34}, hashlen : {19, 20, 21}, cksum : {"ok", "bad"}]

\* C06 at model level
RoundTrips   == \A a \in Addresses : ValidAddr(a) => Parse(Display(a)) = Accept(a)
BothCases    == \A a \in Addresses : (ValidAddr(a) /\ a.form = "wit") => Parse([Display(a) EXCEPT !.case = "upper"]) = Accept(a)
OneNetwork   == \A s \in SegStrings \cup B58Strings : Decidable(s) => Cardinality({ n \in Nets : ParseWith(s, n).ok }) <= 1
\* what a string looks like as text: hrp / version / total length / code / variant (resp. version bytes and total length)
Layout(s) == IF s.kind = "seg" THEN <<s.hrp, s.ver, SegTotal(s), s.code, s.variant, s.pad>> ELSE <<s.outer, B58Total(s), s.cksum>>
Canonical    == \A s \in SegStrings \cup B58Strings : (Decidable(s) /\ Parse(s).ok) => (ValidAddr(Parse(s).addr) /\ Layout(Display(Parse(s).addr)) = Layout(s))
FromStrAgrees == \A s \in SegStrings \cup B58Strings : \A n \in Nets : ParseWith(s, n).ok => Parse(s) = ParseWith(s, n)
=============================================================================
