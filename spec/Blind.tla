------------------------------- MODULE Blind -------------------------------
(***************************************************************************)
(* Confidential-transaction algebra (src/blind.rs): blinding (C04) and the *)
(* amount verifier with its tamper classes (C05).                           *)
(*                                                                         *)
(* Scalars live in Z_q (q = 5).  A value commitment is the triple           *)
(*   <<asset, value, r>>  with  r = value*abf + vbf  (explicit: r = 0),      *)
(* an asset generator is <<asset, abf>>.  Proofs are tokens that record what *)
(* they were made for: a range proof is bound to (commitment, script,        *)
(* generator), a surjection proof to (generator, input domain).              *)
(*                                                                         *)
(* An output is blinded in one of four modes: "expl" (nothing), "full"       *)
(* (asset and value), "value" (value committed under the unblinded           *)
(* generator of an explicit asset) and "asset" (explicit value under a       *)
(* blinded generator).  Transaction::blind produces "full" only; the other   *)
(* two are what wallets and issuance code produce with the lower-level       *)
(* constructors, and the verifier has to treat them all.                     *)
(***************************************************************************)
EXTENDS Naturals, Sequences, FiniteSets, TLC, SequencesExt

Q == 5
Zq == 0..(Q - 1)
Add(a, b) == (a + b) % Q
Sub(a, b) == (a + Q - (b % Q)) % Q
Mul(a, b) == (a * b) % Q
RR(v, abf, vbf) == Add(Mul(v, abf), vbf)

RECURSIVE SumF(_, _, _)
SumF(F(_), s, i) == IF i > Len(s) THEN 0 ELSE F(s[i]) + SumF(F, s, i + 1)

---------------------------------------------------------------------------
(* Transactions *)
\* input  : [asset, v, abf, vbf, mode]                   (the spent output and its secrets; mode as for outputs)
\* issue  : [on : input index (0 = none), v, vc, vb, tv, tc, tb]
\*          asset amount v of asset "N" (0 = Null), token amount tv of asset "T" (0 = Null); vc / tc: the amount is a
\*          commitment (under the unblinded generator) with blinder vb / tb
\* output : [asset, v, marked, want, fee, script, mode, abf, vbf, rp, sp]
NoProof == <<"none">>
VConf(o) == o.mode \in {"full", "value"}
AConf(o) == o.mode \in {"full", "asset"}
EAbf(o) == IF AConf(o) THEN o.abf ELSE 0
EVbf(o) == IF VConf(o) THEN o.vbf ELSE 0
ROut(o) == RR(o.v, EAbf(o), EVbf(o))
Commit(o)    == << o.asset, o.v, ROut(o) >>
GenOf(o)     == << o.asset, EAbf(o) >>
IVConf(i) == i.mode \in {"full", "value"}
IAConf(i) == i.mode \in {"full", "asset"}
RIn(i)       == RR(i.v, IF IAConf(i) THEN i.abf ELSE 0, IF IVConf(i) THEN i.vbf ELSE 0)
InCommit(i)  == << i.asset, i.v, RIn(i) >>
InGen(i)     == << i.asset, IF IAConf(i) THEN i.abf ELSE 0 >>
\* the pseudo-inputs an issuance contributes, in the documented order: issued asset, then reissuance token
Pseudo(iss) == (IF iss.v > 0 THEN << [asset |-> "N", v |-> iss.v, abf |-> 0, vbf |-> iss.vb, mode |-> IF iss.vc THEN "value" ELSE "expl"] >> ELSE << >>)
               \o (IF iss.tv > 0 THEN << [asset |-> "T", v |-> iss.tv, abf |-> 0, vbf |-> iss.tb, mode |-> IF iss.tc THEN "value" ELSE "expl"] >> ELSE << >>)
\* inputs interleaved with pseudo-inputs: inp_1, [inp_1 issuance, inp_1 tokens], inp_2, ...
RECURSIVE AllIns(_, _, _)
AllIns(ins, iss, k) ==
  IF k > Len(ins) THEN << >>
  ELSE << ins[k] >> \o (IF iss.on = k THEN Pseudo(iss) ELSE << >>) \o AllIns(ins, iss, k + 1)
DomainFrom(ins, iss, k) == LET a == AllIns(ins, iss, k) IN [j \in DOMAIN a |-> InGen(a[j])]
Domain(tx) == DomainFrom(tx.ins, tx.iss, 1)
MkRP(o) == <<"rp", Commit(o), o.script, GenOf(o)>>
MkSP(o, dom) == <<"sp", GenOf(o), dom>>

(***************************************************************************)
(* The verifier, check by check (Transaction::verify_tx_amt_proofs).       *)
(* utxos is what the caller presents as the spent outputs.                  *)
(***************************************************************************)
Assets(tx, utxos) == { utxos[k].asset : k \in DOMAIN utxos } \cup { tx.outs[k].asset : k \in DOMAIN tx.outs } \cup {"N", "T"}
ValIf(x, a) == IF x.asset = a THEN x.v ELSE 0
\* explicit zero values: skipped on provably unspendable scripts, an error otherwise (whatever the form of the asset)
\* provably unspendable: OP_RETURN first, the empty script (fee form), or longer than the maximal script size (10000 bytes)
Unspendable(sc) == sc \in {"unspendable", "empty", "big10001"}
ZeroSkipped(o) == ~VConf(o) /\ o.v = 0 /\ Unspendable(o.script)
ZeroIllegal(o) == ~VConf(o) /\ o.v = 0 /\ ~Unspendable(o.script)
Counted(tx)    == SelectSeq(tx.outs, LAMBDA o : ~ZeroSkipped(o))

Verify(tx, utxos) ==
  IF Len(utxos) # Len(tx.ins) THEN "UtxoInputLenMismatch"
  ELSE IF \E k \in DOMAIN tx.outs : ZeroIllegal(tx.outs[k]) THEN "NonUnspendableZeroValue"
  ELSE IF \E k \in DOMAIN tx.outs : LET o == tx.outs[k] IN ~ZeroSkipped(o) /\ VConf(o) /\ o.rp = NoProof THEN "RangeProofMissing"
  ELSE IF \E k \in DOMAIN tx.outs : LET o == tx.outs[k] IN ~ZeroSkipped(o) /\ VConf(o) /\ o.rp # MkRP(o) THEN "RangeProofError"
  ELSE IF \E k \in DOMAIN tx.outs : LET o == tx.outs[k] IN ~ZeroSkipped(o) /\ AConf(o) /\ o.sp = NoProof THEN "SurjectionProofMissing"
  ELSE IF \E k \in DOMAIN tx.outs : LET o == tx.outs[k] IN ~ZeroSkipped(o) /\ AConf(o) /\ o.sp # MkSP(o, DomainFrom(utxos, tx.iss, 1)) THEN "SurjectionProofVerificationError"
  ELSE LET all == AllIns(utxos, tx.iss, 1) IN
       IF \E a \in Assets(tx, utxos) : SumF(LAMBDA i : ValIf(i, a), all, 1) # SumF(LAMBDA o : ValIf(o, a), Counted(tx), 1) THEN "BalanceCheckFailed"
       ELSE IF SumF(RIn, all, 1) % Q # SumF(ROut, Counted(tx), 1) % Q THEN "BalanceCheckFailed"
       ELSE "OK"

---------------------------------------------------------------------------
(* Blinding machine: outputs are visited in order.  Transaction::blind is the machine restricted to want = "full";   *)
(* the other modes are the lower-level constructors (new_not_last_confidential with a zero blinder / hand-built).   *)
VARIABLES tx, pos, phase
vars == <<tx, pos, phase>>

Marked(t) == { k \in DOMAIN t.outs : t.outs[k].marked /\ ~t.outs[k].fee }
LastMarked(t) == CHOOSE k \in Marked(t) : \A j \in Marked(t) : j <= k

CONSTANT Skeletons      \* set of explicit, balanced transactions with a non-empty marked set

Init == tx \in Skeletons /\ pos = 1 /\ phase = "blind"

Prove(o, t) == [o EXCEPT !.rp = IF VConf(o) THEN MkRP(o) ELSE NoProof, !.sp = IF AConf(o) THEN MkSP(o, Domain(t)) ELSE NoProof]
SkipOut == /\ phase = "blind" /\ pos <= Len(tx.outs) /\ pos \notin Marked(tx)
           /\ pos' = pos + 1 /\ UNCHANGED <<tx, phase>>
\* TxOut::new_not_last_confidential: fresh random asset and value blinders
BlindNonLast == /\ phase = "blind" /\ pos \in Marked(tx) /\ pos # LastMarked(tx)
                /\ \E abf \in Zq, vbf \in Zq :
                     LET o1 == [tx.outs[pos] EXCEPT !.mode = tx.outs[pos].want, !.abf = abf, !.vbf = vbf]
                     IN tx' = [tx EXCEPT !.outs[pos] = Prove(o1, tx)]
                /\ pos' = pos + 1 /\ UNCHANGED phase
\* TxOut::new_last_confidential: the value blinder is solved from the balance equation (the last one commits its value)
BlindLast == /\ phase = "blind" /\ pos \in Marked(tx) /\ pos = LastMarked(tx)
             /\ \E abf \in Zq :
                  LET o0 == [tx.outs[pos] EXCEPT !.mode = tx.outs[pos].want, !.abf = abf, !.vbf = 0]
                      others == SumF(ROut, [k \in DOMAIN tx.outs |-> IF k = pos THEN o0 ELSE tx.outs[k]], 1)
                      vbf == Sub(SumF(RIn, AllIns(tx.ins, tx.iss, 1), 1) % Q, others % Q)
                      o1 == [o0 EXCEPT !.vbf = vbf]
                  IN tx' = [tx EXCEPT !.outs[pos] = Prove(o1, tx)]
             /\ pos' = pos + 1 /\ UNCHANGED phase
Finish == /\ phase = "blind" /\ pos > Len(tx.outs) /\ phase' = "done" /\ UNCHANGED <<tx, pos>>
Next == SkipOut \/ BlindNonLast \/ BlindLast \/ Finish
Spec == Init /\ [][Next]_vars

\* C04: whatever the random choices, the blinded transaction verifies against the spent outputs
BlindedVerifies == phase = "done" => Verify(tx, tx.ins) = "OK"
AllMarkedBlinded == phase = "done" => \A k \in DOMAIN tx.outs : (tx.outs[k].mode # "expl") <=> k \in Marked(tx)

---------------------------------------------------------------------------
(* Tampers (C05): single-location changes of a verifying (tx, utxos).      *)
OtherAsset(a) == IF a = "A" THEN "B" ELSE "A"
VC(t) == { j \in DOMAIN t.outs : VConf(t.outs[j]) }
AC(t) == { j \in DOMAIN t.outs : AConf(t.outs[j]) }
TamperedOutputs(t) ==
  \* explicit amount / asset changes
  { [t EXCEPT !.outs[k].v = @ + 1] : k \in DOMAIN t.outs \ VC(t) }
  \cup { [t EXCEPT !.outs[k].asset = OtherAsset(@)] : k \in { j \in DOMAIN t.outs \ AC(t) : ~ZeroSkipped(t.outs[j]) } }   \* (a skipped zero-value output carries no amount of any asset)
  \* commitment replaced (another blinder) / exchanged between two blinded outputs
  \cup { [t EXCEPT !.outs[k].vbf = Add(@, 1)] : k \in VC(t) }
  \cup { [t EXCEPT !.outs[k].abf = Add(@, 1)] : k \in AC(t) }
  \cup { [t EXCEPT !.outs[k].v = t.outs[j].v, !.outs[k].abf = t.outs[j].abf, !.outs[k].vbf = t.outs[j].vbf, !.outs[k].asset = t.outs[j].asset, !.outs[k].mode = t.outs[j].mode,
                   !.outs[j].v = t.outs[k].v, !.outs[j].abf = t.outs[k].abf, !.outs[j].vbf = t.outs[k].vbf, !.outs[j].asset = t.outs[k].asset, !.outs[j].mode = t.outs[k].mode]
         : k \in VC(t), j \in VC(t) }
  \* proofs removed, exchanged, corrupted
  \cup { [t EXCEPT !.outs[k].rp = NoProof] : k \in VC(t) }
  \cup { [t EXCEPT !.outs[k].sp = NoProof] : k \in AC(t) }
  \cup { [t EXCEPT !.outs[k].rp = <<"rp", "garbage">>] : k \in VC(t) }
  \cup { [t EXCEPT !.outs[k].sp = <<"sp", "garbage">>] : k \in AC(t) }
  \cup { [t EXCEPT !.outs[k].rp = t.outs[j].rp, !.outs[j].rp = t.outs[k].rp] : k \in VC(t), j \in VC(t) }
  \cup { [t EXCEPT !.outs[k].sp = t.outs[j].sp, !.outs[j].sp = t.outs[k].sp] : k \in AC(t), j \in AC(t) }
  \* script of an output with a committed value
  \cup { [t EXCEPT !.outs[k].script = "other"] : k \in VC(t) }
  \* issuance amounts: explicit ones changed, committed ones replaced
  \cup (IF t.iss.on # 0 /\ t.iss.v > 0 THEN { IF t.iss.vc THEN [t EXCEPT !.iss.vb = Add(@, 1)] ELSE [t EXCEPT !.iss.v = @ + 1] } ELSE {})
  \cup (IF t.iss.on # 0 /\ t.iss.tv > 0 THEN { IF t.iss.tc THEN [t EXCEPT !.iss.tb = Add(@, 1)] ELSE [t EXCEPT !.iss.tv = @ + 1] } ELSE {})
TamperedUtxos(u) ==
  { [u EXCEPT ![k].v = @ + 1] : k \in DOMAIN u } \cup { [u EXCEPT ![k].asset = OtherAsset(@)] : k \in DOMAIN u }
  \cup { [u EXCEPT ![k].vbf = Add(@, 1)] : k \in { j \in DOMAIN u : IVConf(u[j]) } }
  \cup { [u EXCEPT ![k].abf = Add(@, 1)] : k \in { j \in DOMAIN u : IAConf(u[j]) } }
  \cup { SubSeq(u, 1, Len(u) - 1), Append(u, u[1]) }
\* C05: from a verifying transaction every effective tamper is rejected
TampersRejected ==
  phase = "done" =>
    /\ \A t \in TamperedOutputs(tx) : t # tx => Verify(t, tx.ins) # "OK"
    /\ \A u \in TamperedUtxos(tx.ins) : u # tx.ins => Verify(tx, u) # "OK"
    /\ Verify(tx, SubSeq(tx.ins, 1, Len(tx.ins) - 1)) = "UtxoInputLenMismatch"
    /\ \A k \in VC(tx) : Verify([tx EXCEPT !.outs[k].rp = NoProof], tx.ins) = "RangeProofMissing"
    /\ \A k \in AC(tx) \ VC(tx) : Verify([tx EXCEPT !.outs[k].sp = NoProof], tx.ins) = "SurjectionProofMissing"
=============================================================================
