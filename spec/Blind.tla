------------------------------- MODULE Blind -------------------------------
(***************************************************************************)
(* Confidential-transaction algebra (src/blind.rs): blinding (C04) and the *)
(* amount verifier with its tamper classes (C05).                           *)
(*                                                                         *)
(* Scalars live in Z_q (q = 5).  A value commitment is the triple           *)
(*   <<asset, value, r>>  with  r = value*abf + vbf  (explicit: r = 0),      *)
(* an asset generator is <<asset, abf>>.  Proofs are tokens that record what *)
(* they were made for: a range proof is bound to (commitment, script,        *)
(* generator), a surjection proof to (generator, input domain).              *)
(***************************************************************************)
EXTENDS Naturals, Sequences, FiniteSets, TLC, SequencesExt

Q == 5
Zq == 0..(Q - 1)
Add(a, b) == (a + b) % Q
Sub(a, b) == (a + Q - (b % Q)) % Q
Mul(a, b) == (a * b) % Q
RR(v, abf, vbf) == Add(Mul(v, abf), vbf)

RECURSIVE SumF(_, _, _)
SumF(F(_), s, i) == IF i > Len(s) THEN 0 ELSE F(s[i]) + SumF(F, s, i + 1)

---------------------------------------------------------------------------
(* Transactions *)
\* input  : [asset, v, abf, vbf, conf]                   (the spent output and its secrets)
\* issue  : [on : input index (0 = no issuance), asset, v]   (explicit issuance pseudo-input, asset "N")
\* output : [asset, v, marked, fee, script, conf, abf, vbf, rp, sp]
NoProof == <<"none">>
Commit(o)    == << o.asset, o.v, IF o.conf THEN RR(o.v, o.abf, o.vbf) ELSE 0 >>
GenOf(o)     == << o.asset, IF o.conf THEN o.abf ELSE 0 >>
InCommit(i)  == << i.asset, i.v, IF i.conf THEN RR(i.v, i.abf, i.vbf) ELSE 0 >>
InGen(i)     == << i.asset, IF i.conf THEN i.abf ELSE 0 >>
\* surjection domain in the documented order: inp_1, [inp_1 issuance], inp_2, ...
RECURSIVE DomainFrom(_, _, _)
DomainFrom(ins, iss, k) ==
  IF k > Len(ins) THEN << >>
  ELSE << InGen(ins[k]) >> \o (IF iss.on = k THEN << <<iss.asset, 0>> >> ELSE << >>) \o DomainFrom(ins, iss, k + 1)
Domain(tx) == DomainFrom(tx.ins, tx.iss, 1)
MkRP(o) == <<"rp", Commit(o), o.script, GenOf(o)>>
MkSP(o, dom) == <<"sp", GenOf(o), dom>>

(***************************************************************************)
(* The verifier, check by check (Transaction::verify_tx_amt_proofs).       *)
(* utxos is what the caller presents as the spent outputs.                  *)
(***************************************************************************)
Assets(tx, utxos) == { utxos[k].asset : k \in DOMAIN utxos } \cup { tx.outs[k].asset : k \in DOMAIN tx.outs } \cup (IF tx.iss.on = 0 THEN {} ELSE {tx.iss.asset})
ValIf(x, a) == IF x.asset = a THEN x.v ELSE 0
RIn(i)  == IF i.conf THEN RR(i.v, i.abf, i.vbf) ELSE 0
ROut(o) == IF o.conf THEN RR(o.v, o.abf, o.vbf) ELSE 0
\* zero-value explicit outputs: skipped on provably unspendable scripts, an error otherwise
ZeroSkipped(o) == ~o.conf /\ o.v = 0 /\ o.script = "unspendable"
ZeroIllegal(o) == ~o.conf /\ o.v = 0 /\ o.script # "unspendable"
Counted(tx)    == SelectSeq(tx.outs, LAMBDA o : ~ZeroSkipped(o))

Verify(tx, utxos) ==
  IF Len(utxos) # Len(tx.ins) THEN "UtxoInputLenMismatch"
  ELSE IF \E k \in DOMAIN tx.outs : ZeroIllegal(tx.outs[k]) THEN "NonUnspendableZeroValue"
  ELSE IF \E k \in DOMAIN tx.outs : LET o == tx.outs[k] IN ~ZeroSkipped(o) /\ o.conf /\ o.rp = NoProof THEN "RangeProofMissing"
  ELSE IF \E k \in DOMAIN tx.outs : LET o == tx.outs[k] IN ~ZeroSkipped(o) /\ o.conf /\ o.rp # MkRP(o) THEN "RangeProofError"
  ELSE IF \E k \in DOMAIN tx.outs : LET o == tx.outs[k] IN ~ZeroSkipped(o) /\ o.conf /\ o.sp = NoProof THEN "SurjectionProofMissing"
  ELSE IF \E k \in DOMAIN tx.outs : LET o == tx.outs[k] IN ~ZeroSkipped(o) /\ o.conf /\ o.sp # MkSP(o, DomainFrom(utxos, tx.iss, 1)) THEN "SurjectionProofVerificationError"
  ELSE IF \E a \in Assets(tx, utxos) :
            LET vin  == SumF(LAMBDA i : ValIf(i, a), utxos, 1) + (IF tx.iss.on # 0 /\ tx.iss.asset = a THEN tx.iss.v ELSE 0)
                vout == SumF(LAMBDA o : ValIf(o, a), Counted(tx), 1)
            IN vin # vout THEN "BalanceCheckFailed"
  ELSE IF SumF(RIn, utxos, 1) % Q # SumF(ROut, Counted(tx), 1) % Q THEN "BalanceCheckFailed"
  ELSE "OK"

---------------------------------------------------------------------------
(* Blinding machine (Transaction::blind): outputs are visited in order.    *)
VARIABLES tx, pos, phase
vars == <<tx, pos, phase>>

Marked(t) == { k \in DOMAIN t.outs : t.outs[k].marked /\ ~t.outs[k].fee }
LastMarked(t) == CHOOSE k \in Marked(t) : \A j \in Marked(t) : j <= k

CONSTANT Skeletons      \* set of explicit, balanced transactions with a non-empty marked set

Init == tx \in Skeletons /\ pos = 1 /\ phase = "blind"

SkipOut == /\ phase = "blind" /\ pos <= Len(tx.outs) /\ pos \notin Marked(tx)
           /\ pos' = pos + 1 /\ UNCHANGED <<tx, phase>>
\* TxOut::new_not_last_confidential: fresh random asset and value blinders
BlindNonLast == /\ phase = "blind" /\ pos \in Marked(tx) /\ pos # LastMarked(tx)
                /\ \E abf \in Zq, vbf \in Zq :
                     LET o1 == [tx.outs[pos] EXCEPT !.conf = TRUE, !.abf = abf, !.vbf = vbf]
                         o2 == [o1 EXCEPT !.rp = MkRP(o1), !.sp = MkSP(o1, Domain(tx))]
                     IN tx' = [tx EXCEPT !.outs[pos] = o2]
                /\ pos' = pos + 1 /\ UNCHANGED phase
\* TxOut::new_last_confidential: the value blinder is solved from the balance equation
BlindLast == /\ phase = "blind" /\ pos \in Marked(tx) /\ pos = LastMarked(tx)
             /\ \E abf \in Zq :
                  LET others == SumF(ROut, [k \in DOMAIN tx.outs |-> IF k = pos THEN [tx.outs[k] EXCEPT !.conf = FALSE] ELSE tx.outs[k]], 1)
                      vbf == Sub(Sub(SumF(RIn, tx.ins, 1) % Q, others % Q), Mul(tx.outs[pos].v, abf))
                      o1 == [tx.outs[pos] EXCEPT !.conf = TRUE, !.abf = abf, !.vbf = vbf]
                      o2 == [o1 EXCEPT !.rp = MkRP(o1), !.sp = MkSP(o1, Domain(tx))]
                  IN tx' = [tx EXCEPT !.outs[pos] = o2]
             /\ pos' = pos + 1 /\ UNCHANGED phase
Finish == /\ phase = "blind" /\ pos > Len(tx.outs) /\ phase' = "done" /\ UNCHANGED <<tx, pos>>
Next == SkipOut \/ BlindNonLast \/ BlindLast \/ Finish
Spec == Init /\ [][Next]_vars

\* C04: whatever the random choices, the blinded transaction verifies against the spent outputs
BlindedVerifies == phase = "done" => Verify(tx, tx.ins) = "OK"
AllMarkedBlinded == phase = "done" => \A k \in DOMAIN tx.outs : tx.outs[k].conf <=> k \in Marked(tx)

---------------------------------------------------------------------------
(* Tampers (C05): single-location changes of a verifying (tx, utxos).      *)
OtherAsset(a) == IF a = "A" THEN "B" ELSE "A"
TamperedOutputs(t) ==
  \* explicit amount / asset changes
  { [t EXCEPT !.outs[k].v = @ + 1] : k \in { j \in DOMAIN t.outs : ~t.outs[j].conf } }
  \cup { [t EXCEPT !.outs[k].asset = OtherAsset(@)] : k \in { j \in DOMAIN t.outs : ~t.outs[j].conf /\ ~ZeroSkipped(t.outs[j]) } }   \* (a skipped zero-value output carries no amount of any asset)
  \* commitment replaced (another blinder) / exchanged between two blinded outputs
  \cup { [t EXCEPT !.outs[k].vbf = Add(@, 1)] : k \in { j \in DOMAIN t.outs : t.outs[j].conf } }
  \cup { [t EXCEPT !.outs[k].abf = Add(@, 1)] : k \in { j \in DOMAIN t.outs : t.outs[j].conf } }
  \cup { [t EXCEPT !.outs[k].v = t.outs[j].v, !.outs[k].abf = t.outs[j].abf, !.outs[k].vbf = t.outs[j].vbf, !.outs[k].asset = t.outs[j].asset,
                   !.outs[j].v = t.outs[k].v, !.outs[j].abf = t.outs[k].abf, !.outs[j].vbf = t.outs[k].vbf, !.outs[j].asset = t.outs[k].asset]
         : k \in { x \in DOMAIN t.outs : t.outs[x].conf }, j \in { x \in DOMAIN t.outs : t.outs[x].conf } }
  \* proofs removed, exchanged, corrupted
  \cup { [t EXCEPT !.outs[k].rp = NoProof] : k \in { j \in DOMAIN t.outs : t.outs[j].conf } }
  \cup { [t EXCEPT !.outs[k].sp = NoProof] : k \in { j \in DOMAIN t.outs : t.outs[j].conf } }
  \cup { [t EXCEPT !.outs[k].rp = <<"rp", "garbage">>] : k \in { j \in DOMAIN t.outs : t.outs[j].conf } }
  \cup { [t EXCEPT !.outs[k].sp = <<"sp", "garbage">>] : k \in { j \in DOMAIN t.outs : t.outs[j].conf } }
  \cup { [t EXCEPT !.outs[k].rp = t.outs[j].rp, !.outs[j].rp = t.outs[k].rp] : k \in { x \in DOMAIN t.outs : t.outs[x].conf }, j \in { x \in DOMAIN t.outs : t.outs[x].conf } }
  \cup { [t EXCEPT !.outs[k].sp = t.outs[j].sp, !.outs[j].sp = t.outs[k].sp] : k \in { x \in DOMAIN t.outs : t.outs[x].conf }, j \in { x \in DOMAIN t.outs : t.outs[x].conf } }
  \* script of a blinded output
  \cup { [t EXCEPT !.outs[k].script = "other"] : k \in { j \in DOMAIN t.outs : t.outs[j].conf } }
  \* issuance amount
  \cup (IF t.iss.on = 0 THEN {} ELSE { [t EXCEPT !.iss.v = @ + 1] })
TamperedUtxos(u) ==
  { [u EXCEPT ![k].v = @ + 1] : k \in DOMAIN u } \cup { [u EXCEPT ![k].asset = OtherAsset(@)] : k \in DOMAIN u }
  \cup { [u EXCEPT ![k].vbf = Add(@, 1)] : k \in { j \in DOMAIN u : u[j].conf } }
  \cup { [u EXCEPT ![k].abf = Add(@, 1)] : k \in { j \in DOMAIN u : u[j].conf } }
  \cup { SubSeq(u, 1, Len(u) - 1), Append(u, u[1]) }
\* C05: from a verifying transaction every effective tamper is rejected
TampersRejected ==
  phase = "done" =>
    /\ \A t \in TamperedOutputs(tx) : t # tx => Verify(t, tx.ins) # "OK"
    /\ \A u \in TamperedUtxos(tx.ins) : u # tx.ins => Verify(tx, u) # "OK"
    /\ Verify(tx, SubSeq(tx.ins, 1, Len(tx.ins) - 1)) = "UtxoInputLenMismatch"
    /\ \A k \in { j \in DOMAIN tx.outs : tx.outs[j].conf } : Verify([tx EXCEPT !.outs[k].rp = NoProof], tx.ins) = "RangeProofMissing"
=============================================================================
