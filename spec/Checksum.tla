------------------------------ MODULE Checksum ------------------------------
(***************************************************************************)
(* bech32 / bech32m / blech32 / blech32m checksums as an LFSR over GF(32)  *)
(* (src/blech32/mod.rs, the bech32 crate), property C17.                    *)
(*                                                                         *)
(* State = K symbols (5 bits each), most significant first.  One step      *)
(* shifts a symbol in and feeds the shifted-out symbol back through the     *)
(* five generator rows.  By linearity a corruption of a valid string is     *)
(* undetected iff its syndrome is 0 -- or D = target(b32) xor target(b32m)   *)
(* when the corruption also moves the witness-version character between 0   *)
(* and non-0, which switches the variant the decoder expects.               *)
(*                                                                         *)
(* The state machine walks the distance k of an error from the end of the   *)
(* string, carrying the syndromes of all 31 single-symbol errors at that    *)
(* distance and the set of all syndromes seen at smaller distances.         *)
(***************************************************************************)
EXTENDS Naturals, Sequences, FiniteSets, Bitwise, TLC

CONSTANTS Code,     \* "bech32" | "blech32"
          MaxLen    \* checksummed length explored (symbols, hrp expansion included)

K == IF Code = "bech32" THEN 6 ELSE 12

GenRows ==
  IF Code = "bech32"
  THEN << <<29, 22, 20, 21, 29, 18>>, <<19, 5, 1, 3, 19, 13>>, <<15, 10, 2, 6, 15, 26>>,
          <<30, 20, 4, 12, 30, 29>>, <<21, 1, 8, 24, 21, 19>> >>
  ELSE << <<0, 31, 10, 18, 31, 14, 18, 0, 23, 22, 4, 6>>, <<0, 23, 20, 13, 23, 28, 13, 0, 7, 5, 8, 12>>,
          <<0, 7, 1, 26, 7, 17, 26, 0, 14, 10, 16, 24>>, <<0, 14, 2, 29, 14, 11, 29, 0, 28, 20, 9, 25>>,
          <<0, 28, 4, 19, 28, 22, 19, 0, 17, 1, 18, 27>> >>

\* target residues: variant for witness version 0, and the "m" variant for versions 1..16
One == [i \in 1..K |-> IF i = K THEN 1 ELSE 0]
TargetM == IF Code = "bech32" THEN <<21, 28, 16, 12, 5, 3>>
           ELSE <<8, 21, 12, 23, 5, 8, 25, 21, 1, 29, 29, 1>>

XT == [a \in 0..31 |-> [b \in 0..31 |-> a ^^ b]]
XorV(u, v) == [i \in 1..K |-> XT[u[i]][v[i]]]
ZeroV == [i \in 1..K |-> 0]
D == XorV(One, TargetM)

BitOf(x, i) == (x \div (2^i)) % 2

\* one LFSR step: shift symbol v in, feed the shifted-out symbol back
RECURSIVE Feed(_, _, _)
Feed(acc, c0, i) == IF i > 4 THEN acc
                    ELSE Feed(IF BitOf(c0, i) = 1 THEN XorV(acc, GenRows[i + 1]) ELSE acc, c0, i + 1)
Step(s, v) == Feed([i \in 1..K |-> IF i = K THEN v ELSE s[i + 1]], s[1], 0)

RECURSIVE Run(_, _, _)
Run(s, syms, i) == IF i > Len(syms) THEN s ELSE Run(Step(s, syms[i]), syms, i + 1)
\* residue of a whole symbol string, as the code computes it (initial state 1)
Residue(syms) == Run(One, syms, 1)

---------------------------------------------------------------------------
VARIABLES k, syn, seen
vars == <<k, syn, seen>>

Init == /\ k = 0
        /\ syn = [e \in 1..31 |-> [i \in 1..K |-> IF i = K THEN e ELSE 0]]
        /\ seen = {}

Advance == /\ k < MaxLen
           /\ k' = k + 1
           /\ syn' = [e \in 1..31 |-> Step(syn[e], 0)]
           /\ seen' = seen \cup { syn[e] : e \in 1..31 }
Next == Advance
Spec == Init /\ [][Next]_vars

\* every single-symbol corruption is detected, also across a variant switch
SingleDetected == \A e \in 1..31 : syn[e] # ZeroV /\ syn[e] # D
\* every two-symbol corruption is detected: no two single-error syndromes coincide, nor differ by D
DoubleDetected == \A e \in 1..31 : syn[e] \notin seen /\ XorV(syn[e], D) \notin seen
SamePosition   == \A e, f \in 1..31 : e # f => syn[e] # syn[f] /\ XorV(syn[e], syn[f]) # D
=============================================================================
