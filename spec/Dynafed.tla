------------------------------ MODULE Dynafed ------------------------------
(***************************************************************************)
(* Dynamic-federation parameter roots (src/dynafed.rs, src/block.rs), C19. *)
(*                                                                         *)
(* A parameter set is abstract: kind + the *lengths* of its byte fields;   *)
(* contents are named field tokens <<"f", name>> bound by the harness.     *)
(* Roots are hash expressions over tokens (never evaluated in TLA+).       *)
(* The state machine is a dynafed header (current, proposed) on which      *)
(* compaction steps may be taken in any order; the header root must not    *)
(* move.                                                                    *)
(***************************************************************************)
EXTENDS MerkleDef, TLC

CONSTANTS SbsLens, FpLens, FpsLens, ExtLens, MaxExt, Limits

RECURSIVE SeqsUpTo(_, _)
SeqsUpTo(S, k) == IF k = 0 THEN { << >> }
                  ELSE SeqsUpTo(S, k - 1) \cup
                       { Append(s, x) : s \in { t \in SeqsUpTo(S, k - 1) : Len(t) = k - 1 }, x \in S }

Null == [kind |-> "null"]
FullSet == [kind : {"full"}, sbs : SbsLens, lim : Limits, fp : FpLens, fps : FpsLens,
            ext : SeqsUpTo(ExtLens, MaxExt)]
\* a compact set received from the wire: its elided root is an opaque 32-byte field
WireCompactSet == [kind : {"compact"}, sbs : SbsLens, lim : Limits, elided : {<<"wire">>}]
ParamsSet == {Null} \cup FullSet \cup WireCompactSet

---------------------------------------------------------------------------
(* Tokens: consensus encodings of the fields (prefix pfx names the slot)   *)
Cat(s)       == <<"cat", s>>
VI(k)        == <<"vi", k>>
F(pfx, nm)   == <<"f", pfx \o "." \o nm>>
EncBytes(pfx, nm, len) == Cat(<< VI(len), F(pfx, nm) >>)
EncU32(x)    == <<"u32", x>>
EncExt(pfx, ext) ==
  Cat(<< VI(Len(ext)) >> \o
      [i \in 1..Len(ext) |-> EncBytes(pfx, "ext" \o ToString(i), ext[i])])

LeafOf(tok) == <<"sha256d", tok>>

\* extra root of full parameters: fast merkle root of three leaves
ExtraFull(pfx, f) ==
  DefSeq(<< LeafOf(EncBytes(pfx, "fp", f.fp)),
            LeafOf(EncBytes(pfx, "fps", f.fps)),
            LeafOf(EncExt(pfx, f.ext)) >>)

ExtraOf(pfx, p) ==
  CASE p.kind = "null"    -> ZERO
    [] p.kind = "compact" -> IF p.elided = <<"wire">> THEN F(pfx, "elided") ELSE p.elided
    [] p.kind = "full"    -> ExtraFull(pfx, p)

SignRoot(pfx, p) == DefSeq(<< LeafOf(EncBytes(pfx, "sbs", p.sbs)), LeafOf(EncU32(p.lim)) >>)

\* Params::calculate_root
Root(pfx, p) == IF p.kind = "null" THEN ZERO
                ELSE DefSeq(<< SignRoot(pfx, p), ExtraOf(pfx, p) >>)

\* FullParams::calculate_root (a separate code path in the library)
RootDirect(pfx, f) == DefSeq(<< SignRoot(pfx, f), ExtraFull(pfx, f) >>)

\* into_compact: null has no compact form; compact is returned unchanged
HasCompact(p) == p.kind # "null"
CompactOf(pfx, p) ==
  IF p.kind = "full"
  THEN [kind |-> "compact", sbs |-> p.sbs, lim |-> p.lim, elided |-> ExtraFull(pfx, p)]
  ELSE p

HeaderRoot(c, p) == DefSeq(<< Root("c", c), Root("p", p) >>)

---------------------------------------------------------------------------
(* State machine: a dynafed header whose parameter sets get compacted      *)
VARIABLES cur, prop, root0
vars == <<cur, prop, root0>>

InitSet == ParamsSet

Init == /\ cur \in InitSet /\ prop \in InitSet
        /\ root0 = HeaderRoot(cur, prop)

CompactCur  == HasCompact(cur)  /\ cur' = CompactOf("c", cur)   /\ UNCHANGED <<prop, root0>>
CompactProp == HasCompact(prop) /\ prop' = CompactOf("p", prop) /\ UNCHANGED <<cur, root0>>
Next == CompactCur \/ CompactProp
Spec == Init /\ [][Next]_vars

\* C19: compaction never changes a root
RootStable   == HeaderRoot(cur, prop) = root0
StepStable   == [][Root("c", cur') = Root("c", cur) /\ Root("p", prop') = Root("p", prop)]_vars
\* the two code paths agree on full parameters
PathsAgree   == (cur.kind = "full" => RootDirect("c", cur) = Root("c", cur))
\* compaction is idempotent and yields a compact set
Idempotent   == HasCompact(cur) =>
                  /\ CompactOf("c", cur).kind = "compact"
                  /\ CompactOf("c", CompactOf("c", cur)) = CompactOf("c", cur)
NullZero     == Root("c", Null) = ZERO /\ ~HasCompact(Null)
\* the root commits to every field: two full sets differing in one length class differ in root
Committing   == \A q \in {cur} : q.kind = "full" =>
                  \A g \in FullSet : g # q => RootDirect("c", g) # RootDirect("c", q)
=============================================================================
