---------------------------- MODULE FastMerkle ----------------------------
(***************************************************************************)
(* elements::fast_merkle_root  (src/fast_merkle_root.rs), property C18.    *)
(*                                                                         *)
(* The incremental algorithm is transcribed step by step: one action per   *)
(* step of the real code (the hook `verif_fast_merkle_trace` emits exactly *)
(* one event per action).  Leaves and the SHA-256 compression function are *)
(* free constructors, so equality of terms is "same preimage tree" for     *)
(* every leaf content.                                                     *)
(***************************************************************************)
EXTENDS MerkleDef, TLC

CONSTANT MaxN            \* largest leaf count explored

Levels == 0..31
Bit(c, l) == (c \div (2^l)) % 2

VARIABLES n, inner, count, level, temp, result, pc
vars == <<n, inner, count, level, temp, result, pc>>

Init == /\ n \in 0..MaxN
        /\ inner = [l \in Levels |-> ZERO]
        /\ count = 0 /\ level = 0
        /\ temp = ZERO /\ result = ZERO
        /\ pc = "leaf"

\* `if leaves.is_empty() { return result_hash }`
EmptyA == /\ pc = "leaf" /\ n = 0
          /\ pc' = "done"
          /\ UNCHANGED <<n, inner, count, level, temp, result>>

\* `temp_hash = leaves[count]; count += 1; level = 0`
LeafA == /\ pc = "leaf" /\ count < n
         /\ temp' = Leaf(count + 1)
         /\ count' = count + 1
         /\ level' = 0
         /\ pc' = "carry"
         /\ UNCHANGED <<n, inner, result>>

\* `while count & (1 << level) == 0 { temp = H(inner[level], temp); level += 1 }`
CarryA == /\ pc = "carry" /\ Bit(count, level) = 0
          /\ temp' = Mid(inner[level], temp)
          /\ level' = level + 1
          /\ UNCHANGED <<n, inner, count, result, pc>>

\* `inner[level] = temp` ; then either the next leaf or the final sweep (level := 0)
StoreA == /\ pc = "carry" /\ Bit(count, level) = 1
          /\ inner' = [inner EXCEPT ![level] = temp]
          /\ IF count = n THEN pc' = "skip" /\ level' = 0
                          ELSE pc' = "leaf" /\ level' = level
          /\ UNCHANGED <<n, count, temp, result>>

\* `while count & (1 << level) == 0 { level += 1 }`
SkipA == /\ pc = "skip" /\ Bit(count, level) = 0
         /\ level' = level + 1
         /\ UNCHANGED <<n, inner, count, temp, result, pc>>

\* `result = inner[level]`
SweepStartA == /\ pc = "skip" /\ Bit(count, level) = 1
               /\ result' = inner[level]
               /\ pc' = "sweep"
               /\ UNCHANGED <<n, inner, count, level, temp>>

AtSweepTest == \/ pc = "sweep"
               \/ pc = "combine" /\ Bit(count, level) = 1

\* `count += 1 << level; level += 1`   (an unpaired node is promoted unchanged)
PromoteA == /\ AtSweepTest /\ count # 2^level
            /\ count' = count + 2^level
            /\ level' = level + 1
            /\ pc' = "combine"
            /\ UNCHANGED <<n, inner, temp, result>>

\* `while count & (1 << level) == 0 { result = H(inner[level], result); level += 1 }`
CombineA == /\ pc = "combine" /\ Bit(count, level) = 0
            /\ result' = Mid(inner[level], result)
            /\ level' = level + 1
            /\ UNCHANGED <<n, inner, count, temp, pc>>

DoneA == /\ AtSweepTest /\ count = 2^level
         /\ pc' = "done"
         /\ UNCHANGED <<n, inner, count, level, temp, result>>

Next == EmptyA \/ LeafA \/ CarryA \/ StoreA \/ SkipA \/ SweepStartA
        \/ PromoteA \/ CombineA \/ DoneA

Spec == Init /\ [][Next]_vars /\ WF_vars(Next)

---------------------------------------------------------------------------
(* Properties *)

TypeOK == /\ n \in 0..MaxN /\ count \in Nat /\ level \in Levels
          /\ pc \in {"leaf", "carry", "skip", "sweep", "combine", "done"}

\* C18: the result is the definitional tree, for every leaf count.
Correct == pc = "done" => result = Def(n)

\* Design invariant of the incremental part: between leaves, inner[l] holds the
\* complete subtree of 2^l leaves for every set bit l of count.
InnerInv ==
  pc = "leaf" =>
    \A l \in 0..7 : Bit(count, l) = 1 =>
        inner[l] = Block((count \div 2^(l+1)) * 2^(l+1), l)

\* Every leaf occurs in the result exactly in order (dependence on every leaf / order).
RECURSIVE LeavesOf(_)
LeavesOf(t) == IF t[1] = "L" THEN << t[2] >>
               ELSE IF t[1] = "Z" THEN << >>
               ELSE LeavesOf(t[2]) \o LeavesOf(t[3])
AllLeavesInOrder == pc = "done" => LeavesOf(result) = [i \in 1..n |-> i]

Termination == <>(pc = "done")
===========================================================================
