-------------------------------- MODULE Fees --------------------------------
(***************************************************************************)
(* Fee outputs (transaction.rs: TxOut::is_fee, Transaction::fee_in,         *)
(* Transaction::all_fees).  An output is a fee exactly when its script is    *)
(* empty and both its asset and its value are explicit; the fee in an asset  *)
(* is the sum over the fee outputs of that asset; all_fees lists exactly the *)
(* assets that have a fee output (even of value 0).                          *)
(***************************************************************************)
EXTENDS Naturals, Sequences, FiniteSets, TLC

Assets == {"A", "B", "C"}
\* output: [script: "empty" | "std", asset: name, aform: "expl" | "conf", vform: "expl" | "conf" | "null", v]
IsFee(o) == o.script = "empty" /\ o.aform = "expl" /\ o.vform = "expl"
RECURSIVE SumFee(_, _, _)
SumFee(outs, a, i) == IF i > Len(outs) THEN 0 ELSE (IF IsFee(outs[i]) /\ outs[i].asset = a THEN outs[i].v ELSE 0) + SumFee(outs, a, i + 1)
FeeIn(outs, a) == SumFee(outs, a, 1)
FeeAssets(outs) == { outs[k].asset : k \in { j \in DOMAIN outs : IsFee(outs[j]) } }
AllFees(outs) == [a \in FeeAssets(outs) |-> FeeIn(outs, a)]
\* consistency of the two views
ViewsAgree(outs) == /\ \A a \in Assets : (a \in FeeAssets(outs) => AllFees(outs)[a] = FeeIn(outs, a)) /\ (a \notin FeeAssets(outs) => FeeIn(outs, a) = 0)
\* order of outputs is irrelevant
OrderFree(outs) == \A i, j \in DOMAIN outs : LET sw == [outs EXCEPT ![i] = outs[j], ![j] = outs[i]] IN \A a \in Assets : FeeIn(sw, a) = FeeIn(outs, a)
=============================================================================
