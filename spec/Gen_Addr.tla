---- MODULE Gen_Addr ----
EXTENDS MC_Addr, Json, IOUtils, FiniteSetsExt, SequencesExt
Verdicts(s) == [n \in Nets |-> ParseWith(s, n).ok]
StrCase(s) == [s |-> s, ok |-> Parse(s).ok, addr |-> IF Parse(s).ok THEN Parse(s).addr ELSE [net |-> "none"], per_net |-> Verdicts(s)]
ValidCases == { [a |-> a, s |-> Display(a)] : a \in { x1 \in Addresses : ValidAddr(x1) } }
ASSUME ndJsonSerialize(IOEnv.OUT_VALID, SetToSeq(ValidCases))
ASSUME ndJsonSerialize(IOEnv.OUT_STR, SetToSeq({ StrCase(s) : s \in { t \in SegStrings \cup B58Strings : Decidable(t) } }))
ASSUME PrintT(<<"EMITTED", Cardinality(ValidCases), Cardinality(SegStrings) + Cardinality(B58Strings), Cardinality({ s \in SegStrings \cup B58Strings : Parse(s).ok })>>)
====
