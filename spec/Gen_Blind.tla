------------------------------ MODULE Gen_Blind ------------------------------
(* Direction A for C04 / C05: skeletons (structure only; the implementation draws its own       *)
(* randomness), the tamper list of each blinded skeleton with the error class where the          *)
(* specification fixes one, and the table of small all-explicit transactions with Verify's verdict. *)
EXTENDS MC_Blind, Json, IOUtils, FiniteSetsExt

Shape(sk) == [ins |-> [k \in DOMAIN sk.ins |-> [asset |-> sk.ins[k].asset, v |-> sk.ins[k].v, mode |-> sk.ins[k].mode]],
              iss_on |-> sk.iss.on, iss_v |-> sk.iss.v, iss_vc |-> sk.iss.vc, iss_tv |-> sk.iss.tv, iss_tc |-> sk.iss.tc, manual |-> sk.manual,
              outs |-> [k \in DOMAIN sk.outs |-> [asset |-> sk.outs[k].asset, v |-> sk.outs[k].v, marked |-> sk.outs[k].marked, want |-> sk.outs[k].want,
                                                  fee |-> sk.outs[k].fee, burn |-> (sk.outs[k].v = 0)]]]
MarkedOuts(sk) == { k \in DOMAIN sk.outs : sk.outs[k].marked /\ ~sk.outs[k].fee }
VOuts(sk) == { k \in MarkedOuts(sk) : sk.outs[k].want \in {"full", "value"} }       \* value committed: range proof
AOuts(sk) == { k \in MarkedOuts(sk) : sk.outs[k].want \in {"full", "asset"} }       \* asset committed: surjection proof
ExplV(sk) == DOMAIN sk.outs \ VOuts(sk)
ExplA(sk) == DOMAIN sk.outs \ AOuts(sk)
T(kind, k, j, err) == [kind |-> kind, k |-> k, j |-> j, err |-> err]
Tampers(sk) ==
  { T("out_amount", k, 0, "BalanceCheckFailed") : k \in ExplV(sk) }
  \cup { T("out_asset", k, 0, IF k \in VOuts(sk) THEN "any" ELSE "BalanceCheckFailed") : k \in { x \in ExplA(sk) : sk.outs[x].v > 0 } }
  \cup { T(kind, k, 0, "any") : kind \in {"replace_value_commit", "corrupt_rp", "change_script"}, k \in VOuts(sk) }
  \cup { T(kind, k, 0, "any") : kind \in {"replace_asset_commit", "corrupt_sp"}, k \in AOuts(sk) }
  \cup { T("drop_rp", k, 0, "RangeProofMissing") : k \in VOuts(sk) }
  \cup { T("drop_sp", k, 0, IF k \in VOuts(sk) THEN "SurjectionProofMissing" ELSE "SurjectionProofMissing") : k \in AOuts(sk) }
  \cup { T(kind, p[1], p[2], "any") : kind \in {"swap_commitments", "swap_rp"}, p \in { q \in VOuts(sk) \X VOuts(sk) : q[2] > q[1] } }
  \cup { T("swap_sp", p[1], p[2], "any") : p \in { q \in AOuts(sk) \X AOuts(sk) : q[2] > q[1] } }
  \cup (IF sk.iss.on # 0 /\ sk.iss.v > 0 THEN { T("issuance_amount", 0, 0, IF sk.iss.vc THEN "any" ELSE "BalanceCheckFailed") } ELSE {})
  \cup (IF sk.iss.on # 0 /\ sk.iss.tv > 0 THEN { T("issuance_tokens", 0, 0, IF sk.iss.tc THEN "any" ELSE "BalanceCheckFailed") } ELSE {})
  \cup { T(kind, i, 0, "any") : kind \in {"utxo_value", "utxo_asset"}, i \in DOMAIN sk.ins }
  \cup { T("utxo_vbf", i, 0, "any") : i \in { x \in DOMAIN sk.ins : IVConf(sk.ins[x]) } }
  \cup { T("utxo_abf", i, 0, "any") : i \in { x \in DOMAIN sk.ins : IAConf(sk.ins[x]) } }
  \cup { T("utxo_drop_last", 0, 0, "UtxoInputLenMismatch"), T("utxo_extra", 0, 0, "UtxoInputLenMismatch") }
BlindCases == { [sk |-> Shape(sk), tampers |-> SetToSeq(Tampers(sk))] : sk \in Sk }

\* all-explicit table ---------------------------------------------------------------------------
ExplMax == atoi(IOEnv.GEN_EXPL_OUTS)
EIns  == UNION { [1..n -> [asset : {"A", "B"}, v : 1..2]] : n \in 1..2 }
\* zero values are tried on every script class: standard, OP_RETURN, empty, exactly the maximal size (still spendable), one byte more,
\* and scripts whose first opcode merely makes execution fail (OP_RESERVED 0x50, an undefined opcode 0xba): not "provably unspendable"
EOutKinds == [asset : {"A", "B", "N", "T"}, v : 1..2, script : {"std", "unspendable"}]
             \cup [asset : {"A", "B", "N", "T"}, v : {0}, script : {"std", "unspendable", "empty", "big10000", "big10001", "resv50", "resvba"}]
EOuts == UNION { [1..n -> EOutKinds] : n \in 1..(IF ExplMax > 2 THEN 2 ELSE ExplMax) }
\* three outputs (thorough): one input, without the second plain asset, to stay below TLC's bound on the size of an enumerated set
\* (and, for zero values, the three script classes that decide the rule: standard, OP_RETURN, exactly the maximal size)
EOuts3 == IF ExplMax > 2 THEN [1..3 -> { k \in EOutKinds : k.asset # "B" /\ k.script \in {"std", "unspendable", "big10000"} }] ELSE {}
EIns1 == { i \in EIns : Len(i) = 1 }
MkE(ins, outs, isson) ==
  [ins |-> [k \in DOMAIN ins |-> I(ins[k].asset, ins[k].v, "expl", 0, 0)],
   iss |-> IF isson = 0 THEN NoIss ELSE IF isson = 1 THEN Iss(1, FALSE, 0, 0, FALSE, 0) ELSE IF isson = 2 THEN Iss(0, FALSE, 0, 1, FALSE, 0) ELSE Iss(1, FALSE, 0, 1, FALSE, 0),
   outs |-> [k \in DOMAIN outs |-> [O(outs[k].asset, outs[k].v) EXCEPT !.script = outs[k].script]]]
ECase(i, o, n) == LET t == MkE(i, o, n) IN [ins |-> i, outs |-> o, iss |-> n, verdict |-> Verify(t, t.ins)]
ExplicitCases == { ECase(i, o, n) : i \in EIns, o \in EOuts, n \in 0..3 } \cup { ECase(i, o, n) : i \in EIns1, o \in EOuts3, n \in 0..3 }

GInit == tx = (CHOOSE s \in Sk : TRUE) /\ pos = 1 /\ phase = "x"
GNext == UNCHANGED vars
ASSUME ndJsonSerialize(IOEnv.OUT_BLIND, SetToSeq(BlindCases))
ASSUME ndJsonSerialize(IOEnv.OUT_EXPL, SetToSeq(ExplicitCases))
ASSUME PrintT(<<"EMITTED", Cardinality(BlindCases), Cardinality(ExplicitCases), Cardinality({ c \in ExplicitCases : c.verdict = "OK" }), Cardinality({ c \in BlindCases : c.sk.manual })>>)
=============================================================================
