------------------------------ MODULE Gen_Blind ------------------------------
(* Direction A for C04 / C05: skeletons (structure only; the implementation draws its own       *)
(* randomness), the tamper list of each blinded skeleton with the error class where the          *)
(* specification fixes one, and the table of small all-explicit transactions with Verify's verdict. *)
EXTENDS MC_Blind, Json, IOUtils, FiniteSetsExt

Shape(sk) == [ins |-> [k \in DOMAIN sk.ins |-> [asset |-> sk.ins[k].asset, v |-> sk.ins[k].v, conf |-> sk.ins[k].conf]],
              iss_on |-> sk.iss.on, iss_v |-> sk.iss.v,
              outs |-> [k \in DOMAIN sk.outs |-> [asset |-> sk.outs[k].asset, v |-> sk.outs[k].v, marked |-> sk.outs[k].marked,
                                                  fee |-> sk.outs[k].fee, burn |-> (sk.outs[k].v = 0)]]]
ConfOuts(sk) == { k \in DOMAIN sk.outs : sk.outs[k].marked /\ ~sk.outs[k].fee }
ExplOuts(sk) == DOMAIN sk.outs \ ConfOuts(sk)
T(kind, k, j, err) == [kind |-> kind, k |-> k, j |-> j, err |-> err]
Tampers(sk) ==
  { T("out_amount", k, 0, "BalanceCheckFailed") : k \in ExplOuts(sk) }
  \cup { T("out_asset", k, 0, "BalanceCheckFailed") : k \in { x \in ExplOuts(sk) : sk.outs[x].v > 0 } }
  \cup { T(kind, k, 0, "any") : kind \in {"replace_value_commit", "replace_asset_commit", "corrupt_rp", "corrupt_sp", "change_script"}, k \in ConfOuts(sk) }
  \cup { T("drop_rp", k, 0, "RangeProofMissing") : k \in ConfOuts(sk) }
  \cup { T("drop_sp", k, 0, "SurjectionProofMissing") : k \in ConfOuts(sk) }
  \cup { T(kind, p[1], p[2], "any") : kind \in {"swap_commitments", "swap_rp", "swap_sp"}, p \in { q \in ConfOuts(sk) \X ConfOuts(sk) : q[2] > q[1] } }
  \cup (IF sk.iss.on # 0 THEN { T("issuance_amount", 0, 0, "BalanceCheckFailed") } ELSE {})
  \cup { T(kind, i, 0, "any") : kind \in {"utxo_value", "utxo_asset"}, i \in DOMAIN sk.ins }
  \cup { T(kind, i, 0, "any") : kind \in {"utxo_vbf", "utxo_abf"}, i \in { x \in DOMAIN sk.ins : sk.ins[x].conf } }
  \cup { T("utxo_drop_last", 0, 0, "UtxoInputLenMismatch"), T("utxo_extra", 0, 0, "UtxoInputLenMismatch") }
BlindCases == { [sk |-> Shape(sk), tampers |-> SetToSeq(Tampers(sk))] : sk \in Sk }

\* all-explicit table ---------------------------------------------------------------------------
ExplMax == atoi(IOEnv.GEN_EXPL_OUTS)
EIns  == UNION { [1..n -> [asset : {"A", "B"}, v : 1..2]] : n \in 1..2 }
EOuts == UNION { [1..n -> [asset : {"A", "B", "N"}, v : 0..2, script : {"std", "unspendable"}]] : n \in 1..ExplMax }
MkE(ins, outs, isson) ==
  [ins |-> [k \in DOMAIN ins |-> I(ins[k].asset, ins[k].v, FALSE, 0, 0)],
   iss |-> IF isson THEN [on |-> 1, asset |-> "N", v |-> 1] ELSE NoIss,
   outs |-> [k \in DOMAIN outs |-> [O(outs[k].asset, outs[k].v) EXCEPT !.script = outs[k].script]]]
ExplicitCases == { LET t == MkE(i, o, n) IN [ins |-> i, outs |-> o, iss |-> n, verdict |-> Verify(t, t.ins)] : i \in EIns, o \in EOuts, n \in BOOLEAN }

GInit == tx = (CHOOSE s \in Sk : TRUE) /\ pos = 1 /\ phase = "x"
GNext == UNCHANGED vars
ASSUME ndJsonSerialize(IOEnv.OUT_BLIND, SetToSeq(BlindCases))
ASSUME ndJsonSerialize(IOEnv.OUT_EXPL, SetToSeq(ExplicitCases))
ASSUME PrintT(<<"EMITTED", Cardinality(BlindCases), Cardinality(ExplicitCases), Cardinality({ c \in ExplicitCases : c.verdict = "OK" })>>)
=============================================================================
