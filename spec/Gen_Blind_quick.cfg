INIT GInit
NEXT GNext
CONSTANTS
  Tier = "quick"
  Skeletons <- Sk
CHECK_DEADLOCK FALSE
