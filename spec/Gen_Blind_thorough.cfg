INIT GInit
NEXT GNext
CONSTANTS
  Tier = "thorough"
  Skeletons <- Sk
CHECK_DEADLOCK FALSE
