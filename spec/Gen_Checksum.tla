---- MODULE Gen_Checksum ----
(* Direction A (i): LFSR runs of the specification -- the residue after every symbol -- *)
(* to be replayed through the library's checksum engine with /repo's constants.         *)
EXTENDS Checksum, Json, IOUtils, SequencesExt

RECURSIVE States(_, _, _)
States(s, syms, i) == IF i > Len(syms) THEN << >>
                      ELSE LET t == Step(s, syms[i]) IN << t >> \o States(t, syms, i + 1)

Impulse(e, n) == [i \in 1..n |-> IF i = 1 THEN e ELSE 0]
Lcg(seed, n)  == [i \in 1..n |-> ((seed * 7 + i * 13 + (i * i * (seed + 3))) % 32)]
Strings == { Impulse(e, K + 8) : e \in 0..31 } \cup { Lcg(sd, 60) : sd \in 0..15 }
Cases == { [code |-> Code, syms |-> s, states |-> States(One, s, 1), targetm |-> TargetM] : s \in Strings }

GInit == k = 0 /\ syn = << >> /\ seen = {}
GNext == UNCHANGED vars
ASSUME ndJsonSerialize(IOEnv.OUT, SetToSeq(Cases))
ASSUME ndJsonSerialize(IOEnv.OUT_TABLES, << [code |-> Code, k |-> K, genrows |-> GenRows, targetm |-> TargetM] >>)
ASSUME PrintT(<<"EMITTED", Cardinality(Cases)>>)
====
