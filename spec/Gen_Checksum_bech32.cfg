INIT GInit
NEXT GNext
CONSTANTS
  Code = "bech32"
  MaxLen = 1
CHECK_DEADLOCK FALSE
