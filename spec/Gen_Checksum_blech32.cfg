INIT GInit
NEXT GNext
CONSTANTS
  Code = "blech32"
  MaxLen = 1
CHECK_DEADLOCK FALSE
