---- MODULE Gen_Dynafed ----
(* Direction A: every parameter set of the configured classes with the root   *)
(* expressions the specification assigns; header cases over representatives.  *)
EXTENDS Dynafed, Json, IOUtils, SequencesExt, FiniteSetsExt

ParamCase(p) ==
  [p |-> p,
   root |-> Root("x", p),
   direct |-> IF p.kind = "full" THEN RootDirect("x", p) ELSE <<"none">>,
   extra |-> ExtraOf("x", p),
   hascompact |-> HasCompact(p),
   croot |-> IF HasCompact(p) THEN Root("x", CompactOf("x", p)) ELSE <<"none">>]

ParamCases == { ParamCase(p) : p \in ParamsSet }

\* representatives for header pairs: every kind, extreme and mixed lengths
Reps == {Null} \cup WireCompactSet \cup
        { f \in FullSet : /\ Len(f.ext) \in {0, MaxExt}
                          /\ f.lim = "ffffffff"
                          /\ \/ (f.sbs = 0 /\ f.fp = 0 /\ f.fps = 0)
                             \/ (f.sbs = 33 /\ f.fp = 22 /\ f.fps = 253)
                             \/ (f.sbs = 1 /\ f.fp = 34 /\ f.fps = 1) }
HeaderCases == { [c |-> c, p |-> p, root |-> HeaderRoot(c, p),
                  ccroot |-> HeaderRoot(IF HasCompact(c) THEN CompactOf("c", c) ELSE c,
                                        IF HasCompact(p) THEN CompactOf("p", p) ELSE p)]
                 : c \in Reps, p \in Reps }

GInit == cur = Null /\ prop = Null /\ root0 = ZERO
GNext == UNCHANGED vars

ASSUME ndJsonSerialize(IOEnv.OUT_PARAMS, SetToSeq(ParamCases))
ASSUME ndJsonSerialize(IOEnv.OUT_HEADERS, SetToSeq(HeaderCases))
ASSUME PrintT(<<"EMITTED", Cardinality(ParamCases), Cardinality(HeaderCases)>>)
====
