INIT GInit
NEXT GNext
CONSTANTS
  SbsLens = {0, 1, 33, 253}
  FpLens = {0, 22, 34}
  FpsLens = {0, 1, 253}
  ExtLens = {0, 1, 33, 253}
  MaxExt = 3
  Limits = {"0", "ffffffff", "64"}
CHECK_DEADLOCK FALSE
