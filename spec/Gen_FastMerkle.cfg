SPECIFICATION Spec
CONSTANT MaxN = 0
CHECK_DEADLOCK FALSE
