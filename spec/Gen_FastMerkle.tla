--------------------------- MODULE Gen_FastMerkle ---------------------------
(* Direction A: emit, for every n, the term the specification assigns to the *)
(* root (TLC has checked that the modelled algorithm produces exactly it).   *)
EXTENDS FastMerkle, Json, IOUtils, SequencesExt
GenN == atoi(IOEnv.GEN_N)
Cases == [k \in 1..(GenN + 1) |-> [n |-> k - 1, term |-> Def(k - 1)]]
ASSUME ndJsonSerialize(IOEnv.OUT, Cases)
ASSUME PrintT(<<"EMITTED", Len(Cases)>>)
=============================================================================
