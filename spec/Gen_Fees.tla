---- MODULE Gen_Fees ----
EXTENDS Fees, Json, IOUtils, FiniteSetsExt, SequencesExt
VARIABLE dummy
Outs == [script : {"empty", "std"}, asset : {"A", "B"}, aform : {"expl", "conf"}, vform : {"expl", "conf", "null"}, v : {0, 1, 2}]
\* outputs that differ in a way the fee functions can see: all forms with an empty script, one representative with a script
Kinds == { o \in Outs : (o.script = "std" => o.aform = "expl" /\ o.vform = "expl" /\ o.v = 1) /\ (o.vform # "expl" => o.v = 1) }
MaxN == atoi(IOEnv.GEN_LEN)
Txs == UNION { [1..n -> Kinds] : n \in 0..MaxN }
Case(outs) == [outs |-> outs, fee_a |-> FeeIn(outs, "A"), fee_b |-> FeeIn(outs, "B"), fee_c |-> FeeIn(outs, "C"), assets |-> SetToSeq(FeeAssets(outs))]
ASSUME \A t \in Txs : ViewsAgree(t) /\ OrderFree(t)
ASSUME ndJsonSerialize(IOEnv.OUT, SetToSeq({ Case(t) : t \in Txs }))
ASSUME PrintT(<<"EMITTED", Cardinality(Kinds), Cardinality(Txs)>>)
GInit == dummy = 0
GNext == UNCHANGED dummy
====
