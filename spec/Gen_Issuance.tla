---- MODULE Gen_Issuance ----
EXTENDS Issuance, Json, IOUtils, SequencesExt, FiniteSetsExt
Case(i) == [inp |-> i,
            asset |-> AssetId(i, PlainHex(i.base)), token |-> TokenId(i, PlainHex(i.base)),
            entropy |-> Entropy(i, PlainHex(i.base)),
            pset_index |-> StoredHex(Stored(i, "pset")),
            plain_index |-> PlainHex(i.base),
            token_both |-> TokenId([i EXCEPT !.amount = "both"], PlainHex(i.base)),
            collides |-> Collides(i)]
Cases == { Case(i) : i \in Inputs }
GInit == inp = (CHOOSE i \in Inputs : TRUE) /\ rep = "extracted" /\ idx = "0" /\ ids0 = <<>>
GNext == UNCHANGED vars
ASSUME ndJsonSerialize(IOEnv.OUT, SetToSeq(Cases))
ASSUME PrintT(<<"EMITTED", Cardinality(Cases)>>)
====
