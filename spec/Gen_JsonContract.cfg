INIT GInit
NEXT GNext
CONSTANT MaxKeys = 2
CHECK_DEADLOCK FALSE
