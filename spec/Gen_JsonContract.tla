---- MODULE Gen_JsonContract ----
EXTENDS JsonContract
VARIABLE x
GInit == x = 0
GNext == UNCHANGED x
ASSUME CanonIsAText
ASSUME MaxKeys > 2 \/ CanonInjective
ASSUME ndJsonSerialize(IOEnv.OUT, SetToSeq(Cases))
ASSUME PrintT(<<"EMITTED", Cardinality(Cases), Cardinality(Contracts)>>)
====
