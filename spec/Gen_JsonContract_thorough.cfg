INIT GInit
NEXT GNext
CONSTANT MaxKeys = 3
CHECK_DEADLOCK FALSE
