INIT GInit
NEXT GNext
CHECK_DEADLOCK FALSE
