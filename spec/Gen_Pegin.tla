---- MODULE Gen_Pegin ----
EXTENDS Pegin, Json, IOUtils, FiniteSetsExt, SequencesExt
VARIABLE dummy
Six == { <<a, b, c, d, e, f>> : a \in {7, 8, 9}, b \in {31, 32, 33}, c \in {31, 32, 33}, d \in {0, 22}, e \in {0, 60}, f \in {0, 79, 80, 81, 300} }
Shapes == Six \cup { <<8, 32, 32, 22, 60>>, <<8, 32, 32, 22, 60, 80, 0>>, << >>, <<8>> }
Cases == { [w |-> w, pegin |-> p, ok |-> ParseOk(w), err |-> FirstError(w), data |-> PeginData(p, w)] : w \in Shapes, p \in BOOLEAN }
ASSUME Agree(Shapes)
ASSUME ndJsonSerialize(IOEnv.OUT, SetToSeq(Cases))
ASSUME PrintT(<<"EMITTED", Cardinality(Cases), Cardinality({ c \in Cases : c.ok })>>)
GInit == dummy = 0
GNext == UNCHANGED dummy
====
