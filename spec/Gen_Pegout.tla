---- MODULE Gen_Pegout ----
(* Direction A: every script of up to GEN_LEN items over the item kinds, three heads, three value kinds. *)
EXTENDS Pegout, Json, IOUtils, FiniteSetsExt, SequencesExt
VARIABLE dummy
GenLen == atoi(IOEnv.GEN_LEN)
Kinds == { <<"push", n>> : n \in {0, 1, 20, 31, 32, 33, 75, 76, 300} } \cup { <<"num">>, <<"reserved">>, <<"op">> }
RECURSIVE Seqs(_)
Seqs(n) == IF n = 0 THEN { << >> } ELSE LET p == Seqs(n - 1) IN p \cup { Append(s, k) : s \in { x \in p : Len(x) = n - 1 }, k \in Kinds }
WithTrunc == Seqs(GenLen) \cup { Append(s, <<"trunc">>) : s \in { x \in Seqs(GenLen) : Len(x) < GenLen } }
Scripts == { [head |-> h, items |-> it] : h \in {"return", "other"}, it \in WithTrunc } \cup { [head |-> "empty", items |-> << >>] }
Values == {"explicit", "conf", "null"}
Case(s, v) == [head |-> s.head, items |-> s.items, value |-> v, nulldata |-> IsNullData(s), pegout |-> PegoutOk(s, v),
               extra |-> IF PegoutOk(s, v) THEN PegoutData(s).extra ELSE << >>, fee |-> IsFee(s, v, "explicit")]
Cases == { Case(s, v) : s \in Scripts, v \in Values }
ASSUME PegoutIsNullData(Scripts, Values) /\ RuleA(Scripts, Values) /\ RuleB(Scripts, Values) /\ FeeDisjoint(Scripts, Values)
ASSUME ndJsonSerialize(IOEnv.OUT, SetToSeq(Cases))
ASSUME PrintT(<<"EMITTED", Cardinality(Cases), Cardinality({ c \in Cases : c.pegout }), Cardinality({ c \in Cases : c.nulldata })>>)
GInit == dummy = 0
GNext == UNCHANGED dummy
====
