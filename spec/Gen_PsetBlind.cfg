INIT GInit
NEXT GNext
CONSTANTS
  MaxParties = 3
  MaxOutsPerParty = 2
CHECK_DEADLOCK FALSE
