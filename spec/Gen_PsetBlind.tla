---- MODULE Gen_PsetBlind ----
(* Direction A: structural scenarios (who owns which inputs of which asset, confidential or not, *)
(* which outputs each party blinds) x every choice of the last blinder x every order of the      *)
(* others x with / without a wire hop between steps, with the projected state after each step.    *)
EXTENDS PsetBlind, Json, IOUtils
I(a, c) == [asset |-> a, conf |-> c, iss |-> "none"]
\* an input carrying an explicit issuance: "amt" (asset only), "amt+tok", "tok" (reissuance tokens only, no asset amount);
\* the issued asset / tokens are the outputs "N" / "T" of the issuing party
J(a, c, iss) == [asset |-> a, conf |-> c, iss |-> iss]
Templates ==
  { [ins |-> << I("A", TRUE) >>, outs |-> << "A" >>],
    [ins |-> << I("A", TRUE) >>, outs |-> << "A", "A" >>],
    [ins |-> << I("A", FALSE) >>, outs |-> << "A" >>],
    [ins |-> << I("A", TRUE), I("B", TRUE) >>, outs |-> << "A", "B" >>],
    [ins |-> << I("B", TRUE), I("A", FALSE) >>, outs |-> << "B" >>],
    [ins |-> << I("A", TRUE), I("A", TRUE) >>, outs |-> << "A" >>],
    [ins |-> << J("A", TRUE, "amt") >>, outs |-> << "A", "N" >>],
    [ins |-> << J("A", TRUE, "tok") >>, outs |-> << "A", "T" >>],
    [ins |-> << J("A", FALSE, "amt+tok") >>, outs |-> << "N", "T" >>],
    [ins |-> << I("B", TRUE), J("A", TRUE, "tok") >>, outs |-> << "T" >>],
    \* more inputs than outputs, the blinder index beyond the number of outputs
    [ins |-> << I("A", TRUE), I("A", FALSE), I("B", TRUE) >>, outs |-> << "B" >>] }
MaxP == atoi(IOEnv.GEN_PARTIES)
Structs == UNION { [1..n -> Templates] : n \in 1..MaxP }
Orders(n, lp) == { o \in [1..n -> 1..n] : (\A i, j \in 1..n : i # j => o[i] # o[j]) /\ o[n] = lp }
RECURSIVE Proj(_, _, _, _, _)
Proj(st, o, k, ns, bl) ==
  IF k > Len(o) THEN << >>
  ELSE LET p == o[k]
           islast == k = Len(o)
           nb == bl \cup { <<p, j>> : j \in DOMAIN st[p].outs }
           nsn == IF islast THEN 0 ELSE ns + 1
       IN << [party |-> p, role |-> IF islast THEN "last" ELSE "nonlast", nscalars |-> nsn, blinded |-> SetToSeq(nb)] >>
          \o Proj(st, o, k + 1, nsn, nb)
Cases == UNION { UNION { { [parties |-> st, order |-> o, hop |-> h, nexpl |-> e, steps |-> Proj(st, o, 1, 0, {})]
                           : o \in Orders(Len(st), lp), h \in BOOLEAN, e \in 0..1 } : lp \in DOMAIN st } : st \in Structs }
GInit == sc = << >> /\ lastp = 0 /\ ran = {} /\ rout = 0 /\ nblinded = << >> /\ scalars = << >> /\ phase = "done" /\ onwire = FALSE
GNext == UNCHANGED vars
ASSUME ndJsonSerialize(IOEnv.OUT, SetToSeq(Cases))
ASSUME PrintT(<<"EMITTED", Cardinality(Structs), Cardinality(Cases)>>)
====
