INIT GInit
NEXT GNext
CONSTANTS
  Kind = "input"
  Bases = {}
  MaxEdits = 0
CHECK_DEADLOCK FALSE
