---- MODULE Gen_PsetCodec ----
(* Direction A for C07: (1) field-subset cases per map kind, (2) edits of a fully populated map with   *)
(* the verdict of the specification's decoder, (3) the wire-type tables (single source of truth).      *)
EXTENDS PsetCodec, Json, IOUtils
Tier == IOEnv.GEN_TIER
Opt(kind) == Fields(kind) \ (Mandatory(kind) \cup (IF kind = "output" THEN {"amount", "amount_comm", "asset", "asset_comm", "blinding_key", "blinder_index"} ELSE {}))
Singles(S) == { {x} : x \in S }
Pairs(S)   == { {x, y} : x \in S, y \in S }
Strided(kind) == { { TableOf(kind)[i][1] : i \in { j \in DOMAIN TableOf(kind) : j % s = r } } \cap Opt(kind) : s \in {3, 5, 7}, r \in 0..2 }
Subsets(kind) == Singles(Opt(kind)) \cup { {}, Opt(kind) } \cup Strided(kind) \cup (IF Tier = "quick" /\ kind = "input" THEN {} ELSE Pairs(Opt(kind)))
SubsetCases ==
  { [kind |-> "global", fields |-> SetToSeq(s), outkind |-> "explicit", nin |-> n[1], nout |-> n[2]] : s \in Subsets("global"), n \in {<<1, 1>>, <<0, 0>>, <<3, 2>>} }
  \cup { [kind |-> "input", fields |-> SetToSeq(s), outkind |-> "explicit", nin |-> 2, nout |-> 1] : s \in Subsets("input") }
  \cup { [kind |-> "output", fields |-> SetToSeq(s), outkind |-> k, nin |-> 1, nout |-> 2] : s \in Subsets("output"), k \in {"explicit", "commit", "mixed-a", "mixed-v", "marked", "blinded"} }   \* mixed-a: explicit amount, committed asset; mixed-v: the reverse

\* fully populated bases; instance counts of keyed fields as the harness's setters produce them
Inst(kind, f) == IF ~IsKeyed(kind, f) THEN {0} ELSE IF f = "scalars" THEN {1, 2, 3} ELSE IF f = "proprietary" /\ kind # "output" THEN {1, 2}
                 ELSE IF kind = "input" /\ f \in {"partial_sigs", "bip32_derivation"} THEN {1, 2}      \* a compressed and an uncompressed key
                 ELSE {1}
FullBase(kind) == UNION { { P(f, k) : k \in Inst(kind, f) } : f \in (IF kind = "output" THEN Fields(kind) \ {"amount", "asset"} ELSE Fields(kind)) }
Edits(kind) ==
  { [op |-> "drop", f |-> p[1], k |-> p[2]] : p \in FullBase(kind) }
  \cup { [op |-> "dup", f |-> p[1], k |-> p[2]] : p \in FullBase(kind) }
  \cup { [op |-> "tofront", f |-> p[1], k |-> p[2]] : p \in FullBase(kind) }
  \cup { [op |-> "reverse", f |-> "", k |-> 0] }
  \cup { [op |-> "badhash", f |-> f, k |-> 1] : f \in { x \in {"ripemd160_preimages", "sha256_preimages", "hash160_preimages", "hash256_preimages"} : kind = "input" } }
ApplyEdit(kind, e) ==
  LET s == Enc(kind, FullBase(kind)) IN
  CASE e.op = "drop"    -> SelectSeq(s, LAMBDA p : ~(p[1] = e.f /\ p[2] = e.k))
    [] e.op = "dup"     -> Append(s, <<e.f, e.k, "ok">>)
    [] e.op = "tofront" -> << <<e.f, e.k, "ok">> >> \o SelectSeq(s, LAMBDA p : ~(p[1] = e.f /\ p[2] = e.k))
    [] e.op = "reverse" -> Reverse(s)
    [] e.op = "badhash" -> [i \in DOMAIN s |-> IF s[i][1] = e.f /\ s[i][2] = e.k THEN <<e.f, e.k, "badhash">> ELSE s[i]]
EditCases == UNION { { LET d == Dec(kind, ApplyEdit(kind, e)) IN
                       [kind |-> kind, edit |-> e, ok |-> d.ok, why |-> d.why,
                        \* the scalar list is an ordered list in the API: reordering it is observable, equality is not demanded
                        same |-> IF ~(d.ok /\ d.val = FullBase(kind)) THEN "no"
                                 ELSE IF kind = "global" /\ (e.op = "reverse" \/ (e.op = "tofront" /\ e.f = "scalars")) THEN "any" ELSE "yes"]
                       : e \in Edits(kind) } : kind \in {"global", "input", "output"} }
TopCases == { [kind |-> "top", edit |-> [op |-> o, f |-> "", k |-> 0], ok |-> FALSE, why |-> o, same |-> "no"]
              : o \in {"input_count+1", "input_count-1", "output_count+1", "output_count-1", "bad_magic", "bad_separator", "drop_last_map", "extra_empty_map", "truncate_1", "trailing_byte"} }
Tables == [g |-> GlobalTable, i |-> InputTable, o |-> OutputTable,
           base |-> [k \in {"global", "input", "output"} |-> SetToSeq({ <<p[1], p[2]>> : p \in FullBase(k) })]]

ASSUME \A kind \in {"global", "input", "output"} : WellFormed(kind, FullBase(kind)) /\ Dec(kind, Enc(kind, FullBase(kind))).val = FullBase(kind)
GInit == str = << >> /\ edits = 0
GNext == UNCHANGED vars
ASSUME ndJsonSerialize(IOEnv.OUT_SUBSETS, SetToSeq(SubsetCases))
ASSUME ndJsonSerialize(IOEnv.OUT_EDITS, SetToSeq(EditCases \cup TopCases))
ASSUME ndJsonSerialize(IOEnv.OUT_TABLES, << Tables >>)
ASSUME FramingInjective
ASSUME ndJsonSerialize(IOEnv.OUT_SIZED, SetToSeq(SizedCases))
ASSUME PrintT(<<"EMITTED", Cardinality(SubsetCases), Cardinality(EditCases) + Cardinality(TopCases)>>)
====
