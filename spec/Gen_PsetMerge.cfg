INIT GInit
NEXT GNext
CONSTANTS
  Additions = {}
  MaxAdds = 0
  NDesc = 1
CHECK_DEADLOCK FALSE
