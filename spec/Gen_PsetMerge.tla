---- MODULE Gen_PsetMerge ----
(* Direction A for C14: families of descendants (each a set of (position, field) additions), merge      *)
(* orders and groupings; the key-source table.                                                          *)
EXTENDS PsetMerge, PsetCodecTables, Json, IOUtils, FiniteSetsExt
Tier == IOEnv.GEN_TIER
Adds ==
  { <<"g", f>> : f \in GlobalOpt } \cup { <<p, f>> : p \in {"i1", "i2"}, f \in InputOpt } \cup { <<p, f>> : p \in {"o1", "o2"}, f \in OutputOpt }
AddSeq == SetToSeq(Adds)
Stride == IF Tier = "quick" THEN 7 ELSE 1
BSide == { AddSeq[i] : i \in { j \in DOMAIN AddSeq : j % Stride = 0 } }
PairCases == { [descs |-> << <<a>>, <<b>> >>, orders |-> << <<1, 2>>, <<2, 1>> >>] : a \in Adds, b \in BSide }
\* three descendants, two additions each (disjoint or identical), all six orders
T3 == { AddSeq[i] : i \in { j \in DOMAIN AddSeq : j % 11 = 3 } }
TripleCases == { [descs |-> << <<a, b>>, <<b, c>>, <<c>> >>,
                  orders |-> << <<1, 2, 3>>, <<1, 3, 2>>, <<2, 1, 3>>, <<2, 3, 1>>, <<3, 1, 2>>, <<3, 2, 1>> >>] : a \in T3, b \in T3, c \in T3 }
KsCases == { [a |-> [fp |-> a[1], path |-> a[2]], b |-> [fp |-> b[1], path |-> b[2]],
              want |-> KeySourceMerge(a, b)[1],
              keep |-> IF KeySourceMerge(a, b)[1] = "ok" THEN (IF KeySourceMerge(a, b)[2] = a THEN "a" ELSE "b") ELSE "none"]
            : a \in KeySources, b \in KeySources }
GInit == fam = << >> /\ acc = {} /\ merged = {} /\ order = << >>
GNext == UNCHANGED vars
ASSUME ndJsonSerialize(IOEnv.OUT, SetToSeq(PairCases \cup TripleCases))
ASSUME ndJsonSerialize(IOEnv.OUT_KS, SetToSeq(KsCases))
ASSUME PrintT(<<"EMITTED", Cardinality(Adds), Cardinality(PairCases), Cardinality(TripleCases), Cardinality(KsCases)>>)
====
