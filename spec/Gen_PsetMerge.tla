---- MODULE Gen_PsetMerge ----
(* Direction A for C14: families of descendants (each a set of (position, field) additions), merge      *)
(* orders and groupings; the key-source table.                                                          *)
EXTENDS PsetMerge, PsetCodecTables, Json, IOUtils, FiniteSetsExt
Tier == IOEnv.GEN_TIER
\* ancestor shapes <<inputs, outputs>>; additions go to the first and the last map of each kind
Shapes == { <<2, 2>>, <<1, 3>>, <<3, 1>>, <<1, 1>> }
In(k) == "i" \o ToString(k)
Out(k) == "o" \o ToString(k)
AddsOf(sh) ==
  { <<"g", f>> : f \in GlobalOpt } \cup { <<p, f>> : p \in {In(1), In(sh[1])}, f \in InputOpt } \cup { <<p, f>> : p \in {Out(1), Out(sh[2])}, f \in OutputOpt }
Adds == AddsOf(<<2, 2>>)
AddSeq == SetToSeq(Adds)
Stride == IF Tier = "quick" THEN 7 ELSE 1
BSide == { AddSeq[i] : i \in { j \in DOMAIN AddSeq : j % Stride = 0 } }
PairCases == { [shape |-> <<2, 2>>, descs |-> << <<a>>, <<b>> >>, orders |-> << <<1, 2>>, <<2, 1>> >>] : a \in Adds, b \in BSide }
\* the other shapes: every addition at a last position against a strided partner and against nothing
LastAdds(sh) == { a \in AddsOf(sh) : a[1] \in {In(sh[1]), Out(sh[2])} }
Strided(S, m) == LET q == SetToSeq(S) IN { q[i] : i \in { j \in DOMAIN q : j % m = 1 } }
ShapeCases == UNION { { [shape |-> sh, descs |-> << <<a>>, <<b>> >>, orders |-> << <<1, 2>>, <<2, 1>> >>] : a \in LastAdds(sh), b \in Strided(AddsOf(sh), IF Tier = "quick" THEN 29 ELSE 5) }
                      \cup { [shape |-> sh, descs |-> << <<a>>, << >> >>, orders |-> << <<1, 2>>, <<2, 1>> >>] : a \in AddsOf(sh) }
                      : sh \in Shapes \ { <<2, 2>> } }
\* required lock times can only be merged when they do not move the transaction's lock time (the unique id): the ancestor's last
\* input already requires the maximal height (resp. time), a descendant adds a lower one of the same kind on the first input
LockCases == { [shape |-> <<2, 2>>, anc |-> k[1], descs |-> << << <<"i1", k[2]>> >>, d >>, orders |-> << <<1, 2>>, <<2, 1>> >>]
               : k \in { <<"hlock", "required_height_locktime">>, <<"tlock", "required_time_locktime">> },
                 d \in { << >>, << <<"i1", "sequence">> >>, << <<"o2", "redeem_script">> >>, << <<"g", "proprietary">> >> } }
\* the same addition made by both descendants (identical contents): the merge is either of them, nothing is doubled
SamePairs == { [shape |-> <<2, 2>>, descs |-> << <<a>>, <<a>> >>, orders |-> << <<1, 2>>, <<2, 1>> >>] : a \in Adds }
\* one descendant holds both forms of the spent output on an input, the other adds something else (or nothing)
BothUtxo == { [shape |-> <<2, 2>>, descs |-> << << <<"i1", "non_witness_utxo">>, <<"i1", "witness_utxo">> >>, d >>, orders |-> << <<1, 2>>, <<2, 1>> >>]
              : d \in { << >>, << <<"i1", "sequence">> >>, << <<"i2", "partial_sigs">> >>, << <<"g", "proprietary">> >> } }
\* a finalized input in one descendant, any other input field on the same input in the other (nothing may be dropped because of it)
FinalPairs == { [shape |-> <<2, 2>>, descs |-> << << <<"i1", fin>> >>, << <<"i1", f>> >> >>, orders |-> << <<1, 2>>, <<2, 1>> >>]
                : fin \in {"final_script_sig", "final_script_witness"}, f \in InputOpt \ {"final_script_sig", "final_script_witness", "required_time_locktime", "required_height_locktime"} }
\* three descendants, two additions each (disjoint or identical), all six orders
T3 == { AddSeq[i] : i \in { j \in DOMAIN AddSeq : j % 11 = 3 } }
TripleCases == { [shape |-> <<2, 2>>, descs |-> << <<a, b>>, <<b, c>>, <<c>> >>,
                  orders |-> << <<1, 2, 3>>, <<1, 3, 2>>, <<2, 1, 3>>, <<2, 3, 1>>, <<3, 1, 2>>, <<3, 2, 1>> >>] : a \in T3, b \in T3, c \in T3 }
KsCases == { [a |-> [fp |-> a[1], path |-> a[2]], b |-> [fp |-> b[1], path |-> b[2]],
              want |-> KeySourceMerge(a, b)[1],
              keep |-> IF KeySourceMerge(a, b)[1] = "ok" THEN (IF KeySourceMerge(a, b)[2] = a THEN "a" ELSE "b") ELSE "none"]
            : a \in KeySources, b \in KeySources }
GInit == fam = << >> /\ acc = {} /\ merged = {} /\ order = << >>
GNext == UNCHANGED vars
ASSUME ndJsonSerialize(IOEnv.OUT, SetToSeq(PairCases \cup ShapeCases \cup FinalPairs \cup SamePairs \cup BothUtxo \cup TripleCases) \o SetToSeq(LockCases))
ASSUME ndJsonSerialize(IOEnv.OUT_KS, SetToSeq(KsCases))
ASSUME PrintT(<<"EMITTED", Cardinality(Adds), Cardinality(PairCases) + Cardinality(ShapeCases), Cardinality(TripleCases), Cardinality(KsCases)>>)
====
