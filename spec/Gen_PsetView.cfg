SPECIFICATION Spec
CONSTANTS
  NIn = 2
  NOut = 2
  MaxSteps = 0
CHECK_DEADLOCK FALSE
