---- MODULE Gen_PsetView ----
(* Direction A: (1) every lock-time assignment with the outcome BIP370 prescribes;        *)
(* (2) every history of <= GenSteps actions with, per step, whether the unique id must     *)
(* still equal the initial one and what the lock time must be.                             *)
EXTENDS PsetView, Json, IOUtils, SequencesExt, FiniteSetsExt

GenSteps == atoi(IOEnv.GEN_STEPS)
Reqs == [rt : {None} \cup TVals, rh : {None} \cup HVals, extras : {{}}]
AllIns == UNION { [1..k -> Reqs] : k \in 0..3 }
LockCases == { [ins |-> [i \in DOMAIN i_ |-> [rt |-> i_[i].rt, rh |-> i_[i].rh]], fb |-> f_, want |-> Bip370(i_, f_)]
               : i_ \in AllIns, f_ \in Fallbacks }

RECURSIVE Hists(_)
Hists(k) == IF k = 0 THEN { << >> }
            ELSE LET prev == Hists(k - 1) IN prev \cup { Append(h, a) : h \in { x \in prev : Len(x) = k - 1 }, a \in Actions }

RECURSIVE Annot(_, _, _)
Annot(p, h, i) ==
  IF i > Len(h) THEN << >>
  ELSE LET q == Apply(p, h[i]) IN
       << [op |-> h[i].op, pos |-> h[i].pos, f |-> h[i].f,
           same |-> (IdData(q) = IdData(P0)), lock |-> LockTime(q.ins, q.fb)] >> \o Annot(q, h, i + 1)
HistCases == { [steps |-> Annot(P0, h, 1)] : h \in { x \in Hists(GenSteps) : Len(x) = GenSteps } }

ASSUME ndJsonSerialize(IOEnv.OUT_LOCK, SetToSeq(LockCases))
ASSUME ndJsonSerialize(IOEnv.OUT_HIST, SetToSeq(HistCases))
ASSUME PrintT(<<"EMITTED", Cardinality(LockCases), Cardinality(HistCases)>>)
====
