INIT GInit
NEXT GNext
CONSTANTS
  Alphabet <- Ops
  MaxOps = 0
CHECK_DEADLOCK FALSE
