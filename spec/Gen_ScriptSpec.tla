---- MODULE Gen_ScriptSpec ----
(* Direction A for C16: builder op sequences with the items and intended instructions; the template family. *)
EXTENDS MC_ScriptSpec, Json, IOUtils, FiniteSetsExt
T == INSTANCE Templates
GenLen == atoi(IOEnv.GEN_LEN)
RECURSIVE Seqs(_)
Seqs(k) == IF k = 0 THEN { << >> } ELSE Seqs(k - 1) \cup { Append(h, a) : h \in { x \in Seqs(k - 1) : Len(x) = k - 1 }, a \in Ops }
RECURSIVE Fold(_, _, _)
Fold(s, h, i) == IF i > Len(h) THEN s ELSE Fold(Apply(s, h[i]), h, i + 1)
SeqCase(h) == LET s == Fold(St0, h, 1) IN
  [ops |-> h, items |-> s.items, intended |-> Expected(s.intended), nums |-> [k \in DOMAIN s.intended |-> IF s.intended[k][1] = "num" THEN s.intended[k][2] ELSE 0],
   numbytes |-> [k \in DOMAIN s.intended |-> IF s.intended[k][1] = "num" THEN ScriptNumBytes(s.intended[k][2]) ELSE << >>],
   minimal_ok |-> ~HasExplicitSmall(s.intended)]
\* beyond three operations the full alphabet is out of reach (36^4); longer sequences run over a core alphabet: a foldable and a
\* plain opcode, a small and a large integer, an empty, a one-byte and a PUSHDATA1 slice, push_verify
CoreOps == { [k |-> "opcode", b |-> OP_CHECKSIG], [k |-> "opcode", b |-> OP_DUP], [k |-> "int", v |-> 1], [k |-> "int", v |-> 128], [k |-> "scriptint", v |-> 0],
             [k |-> "slice", n |-> 0, cls |-> "other"], [k |-> "slice", n |-> 1, cls |-> "small"], [k |-> "slice", n |-> 76, cls |-> "other"], [k |-> "verify"] }
RECURSIVE CoreSeqs(_)
CoreSeqs(k) == IF k = 0 THEN { << >> } ELSE { Append(h, a) : h \in CoreSeqs(k - 1), a \in CoreOps }
FullLen == IF GenLen > 3 THEN 3 ELSE GenLen
SeqCases == { SeqCase(h) : h \in { x \in Seqs(FullLen) : Len(x) >= 1 } } \cup (IF GenLen > 3 THEN { SeqCase(h) : h \in UNION { CoreSeqs(k) : k \in 4..GenLen } } ELSE {})
NumCases == { [v |-> v, bytes |-> ScriptNumBytes(v)] : v \in Nums }
ASSUME \A b \in T!Family : T!Exclusive(b)
GInit == st = St0 /\ n = 0
GNext == UNCHANGED vars
ASSUME ndJsonSerialize(IOEnv.OUT_SEQ, SetToSeq(SeqCases))
ASSUME ndJsonSerialize(IOEnv.OUT_NUM, SetToSeq(NumCases))
ASSUME ndJsonSerialize(IOEnv.OUT_TPL, SetToSeq({ T!Case(b) : b \in T!Family }))
ASSUME PrintT(<<"EMITTED", Cardinality(SeqCases), Cardinality(NumCases), Cardinality(T!Family), Cardinality({ b \in T!Family : T!AddressDefined(b) })>>)
====
