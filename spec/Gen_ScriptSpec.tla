---- MODULE Gen_ScriptSpec ----
(* Direction A for C16: builder op sequences with the items and intended instructions; the template family. *)
EXTENDS MC_ScriptSpec, Json, IOUtils, FiniteSetsExt
T == INSTANCE Templates
GenLen == atoi(IOEnv.GEN_LEN)
RECURSIVE Seqs(_)
Seqs(k) == IF k = 0 THEN { << >> } ELSE Seqs(k - 1) \cup { Append(h, a) : h \in { x \in Seqs(k - 1) : Len(x) = k - 1 }, a \in Ops }
RECURSIVE Fold(_, _, _)
Fold(s, h, i) == IF i > Len(h) THEN s ELSE Fold(Apply(s, h[i]), h, i + 1)
SeqCase(h) == LET s == Fold(St0, h, 1) IN
  [ops |-> h, items |-> s.items, intended |-> Expected(s.intended), nums |-> [k \in DOMAIN s.intended |-> IF s.intended[k][1] = "num" THEN s.intended[k][2] ELSE 0],
   numbytes |-> [k \in DOMAIN s.intended |-> IF s.intended[k][1] = "num" THEN ScriptNumBytes(s.intended[k][2]) ELSE << >>],
   minimal_ok |-> ~HasExplicitSmall(s.intended)]
SeqCases == { SeqCase(h) : h \in { x \in Seqs(GenLen) : Len(x) >= 1 } }
NumCases == { [v |-> v, bytes |-> ScriptNumBytes(v)] : v \in Nums }
ASSUME \A b \in T!Family : T!Exclusive(b)
GInit == st = St0 /\ n = 0
GNext == UNCHANGED vars
ASSUME ndJsonSerialize(IOEnv.OUT_SEQ, SetToSeq(SeqCases))
ASSUME ndJsonSerialize(IOEnv.OUT_NUM, SetToSeq(NumCases))
ASSUME ndJsonSerialize(IOEnv.OUT_TPL, SetToSeq({ T!Case(b) : b \in T!Family }))
ASSUME PrintT(<<"EMITTED", Cardinality(SeqCases), Cardinality(NumCases), Cardinality(T!Family), Cardinality({ b \in T!Family : T!AddressDefined(b) })>>)
====
