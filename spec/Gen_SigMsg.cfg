INIT GInit
NEXT GNext
CONSTANTS
  RpLen = 100
  SpLen = 67
CHECK_DEADLOCK FALSE
