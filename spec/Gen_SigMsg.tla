------------------------------ MODULE Gen_SigMsg ------------------------------
EXTENDS SigShapes, Json, IOUtils, FiniteSetsExt
Tier == IOEnv.GEN_TIER
InVs  == {"plain", "pegin", "issue", "issueC", "reissue"}
OutVs == {"expl", "conf", "confnw"}
Txs == IF Tier = "quick"
       THEN { MkSigTx(iv, ov) : iv \in { <<"plain">>, <<"issueC">>, <<"pegin", "issue">>, <<"reissue", "plain">>, <<"issue", "pegin", "plain">>, <<"coinb">> },
                                ov \in { << >>, <<"conf">>, <<"expl", "conf">>, <<"confnw", "expl", "fee">> } }
       \* (every single input kind, ten pairs, two triples x every output list of length <= 1, four pairs, a triple: the full
       \* product of all pairs with all pairs takes TLC's constant evaluator hours without adding a new kind of position)
       ELSE { MkSigTx(iv, ov) : iv \in SeqsOf(InVs, 1, 1) \cup { <<"plain", "plain">>, <<"pegin", "issue">>, <<"issue", "pegin">>, <<"reissue", "plain">>, <<"plain", "reissue">>,
                                                          <<"issueC", "issueC">>, <<"issueC", "plain">>, <<"pegin", "pegin">>, <<"issue", "reissue">>, <<"reissue", "issueC">>,
                                                          <<"issue", "pegin", "plain">>, <<"reissue", "issueC", "pegin">>, <<"coinb">> },
                                ov \in SeqsOf(OutVs, 0, 1) \cup { <<"expl", "conf">>, <<"conf", "expl">>, <<"confnw", "conf">>, <<"conf", "conf">>, <<"confnw", "expl", "fee">> } }
TapV == IF Tier = "quick" THEN TapFew ELSE TapAll
QueryCase(st, q) ==
  LET o == Outcome(st.tx, st.prevs, q) IN
  [tx |-> st.tx, prevs |-> st.prevs, q |-> q, res |-> o.res, errs |-> SetToSeq(o.errs), msg |-> o.msg,
   names |-> SetToSeq(IF o.res = "ok" THEN MsgNames(o.msg) ELSE {})]
Cases == UNION { { QueryCase(st, q) : q \in Queries(st, EcdsaTypes, SchnorrTypes, TapV) } : st \in Txs }

\* sensitivity: for a sub-family, every touch of every field, with the verdict of the specification
SensTxs == IF Tier = "quick"
           THEN { MkSigTx(iv, ov) : iv \in { <<"pegin", "issueC">>, <<"reissue", "plain">> }, ov \in { <<"expl", "conf">> } }
           ELSE { MkSigTx(iv, ov) : iv \in { <<"pegin", "issueC">>, <<"reissue", "plain">>, <<"issue", "pegin", "plain">>, <<"plain">> },
                                    ov \in { << >>, <<"expl", "conf">>, <<"conf", "confnw", "expl">> } }
SensQueries(st) == { q \in Queries(st, EcdsaTypes, SchnorrTypes, {<<"all", TRUE, TRUE>>, <<"one", FALSE, FALSE>>}) :
                       Outcome(st.tx, st.prevs, q).res = "ok" }
SensCase(st, q) == [tx |-> st.tx, prevs |-> st.prevs, q |-> q,
                    touches |-> SetToSeq({ [d |-> d, changes |-> Sensitive(st, q, d)] : d \in Touches(st) }),
                    names |-> SetToSeq(MsgNames(Outcome(st.tx, st.prevs, q).msg))]
SensCases == UNION { { SensCase(st, q) : q \in SensQueries(st) } : st \in SensTxs }

\* model-level sanity on everything emitted
ASSUME \A st \in Txs : \A q \in Queries(st, EcdsaTypes, SchnorrTypes, TapV) :
          AcpIsolated(st.tx, st.prevs, q) /\ NoneHasNoOutputs(st.tx, st.prevs, q)
ASSUME \A st \in Txs : \A q \in Queries(st, {"ALL"}, {"ALL"}, {<<"all", FALSE, FALSE>>}) :
          LET qs == [q EXCEPT !.ht = "SINGLE"]  qn == [q EXCEPT !.ht = "NONE"] IN
          OutNames(st.tx, st.prevs, qn) \subseteq OutNames(st.tx, st.prevs, qs) /\ (OutNames(st.tx, st.prevs, qs) \subseteq OutNames(st.tx, st.prevs, q) \/ Outcome(st.tx, st.prevs, q).res # "ok")

VARIABLE x
GInit == x = 0
GNext == UNCHANGED x
ASSUME ndJsonSerialize(IOEnv.OUT, SetToSeq(Cases))
ASSUME ndJsonSerialize(IOEnv.OUT_SENS, SetToSeq(SensCases))
ASSUME PrintT(<<"EMITTED", Cardinality(Txs), Cardinality(Cases), Cardinality(SensCases)>>)
=============================================================================
