INIT GInit
NEXT GNext
CONSTANTS
  NIn = 2
  MaxSteps = 0
CHECK_DEADLOCK FALSE
