---- MODULE Gen_SighashCache ----
(* Direction A: query sequences with, per step, whether the specification expects an error and *)
(* which caches are filled afterwards.                                                           *)
EXTENDS SighashCache, Json, IOUtils, SequencesExt, FiniteSetsExt
GenLen == atoi(IOEnv.GEN_LEN)
Reduced == { s \in Symbols : \/ s.op = "witness_mut" /\ s.i = 1
                             \/ s.op = "legacy" /\ s.i = 1 /\ s.ht = "ALL"
                             \/ s.op = "segwit" /\ s.i = 2 /\ s.ht \in {"ALL", "NONE|ACP", "ALL|ACP"}
                             \/ s.op = "taproot" /\ s.i = 1 /\ s.ht \in {"DEFAULT", "NONE|ACP", "ALL|ACP"} /\ s.pv \in {"all", "one"} }
Alphabet == IF IOEnv.GEN_ALPHA = "full" THEN Symbols ELSE Reduced
RECURSIVE Seqs(_)
Seqs(k) == IF k = 0 THEN { << >> } ELSE { Append(h, a) : h \in Seqs(k - 1), a \in Alphabet }
RECURSIVE Annot(_, _, _)
Annot(st, h, i) ==
  IF i > Len(h) THEN << >>
  ELSE LET n == Apply(st, h[i]) IN
       << [s |-> h[i], err |-> (h[i].op = "taproot" /\ TaprootError(h[i])), fill |-> FillOf(n)] >> \o Annot(n, h, i + 1)
Cases == { [steps |-> Annot(St0, h, 1)] : h \in Seqs(GenLen) }
GInit == Init
GNext == UNCHANGED vars
ASSUME ndJsonSerialize(IOEnv.OUT, SetToSeq(Cases))
ASSUME PrintT(<<"EMITTED", Cardinality(Alphabet), Cardinality(Cases)>>)
====
