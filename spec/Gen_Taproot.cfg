INIT GInit
NEXT GNext
CONSTANTS
  MaxOps = 0
  MaxDepth = 0
  Kinds = {"leaf"}
CHECK_DEADLOCK FALSE
