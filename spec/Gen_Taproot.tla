---- MODULE Gen_Taproot ----
(* Direction A for C15: every op sequence up to GenLen (valid listings and every first-failure), with the  *)
(* builder's outcome after each step, the finalize outcome, the root term and every leaf's path; deep       *)
(* chains around the 128-level limit; Huffman weight vectors with the optimal cost.                         *)
EXTENDS MC_Taproot, Json, IOUtils, FiniteSetsExt
GenLen == atoi(IOEnv.GEN_LEN)
GenDepth == atoi(IOEnv.GEN_DEPTH)
OpsAt(n) == { [kind |-> k, depth |-> d, id |-> n] : k \in {"leaf", "hidden"}, d \in 0..GenDepth }
\* runs: [ops, branch, steps, failed]
RECURSIVE Runs(_)
Runs(n) ==
  IF n = 0 THEN { [ops |-> << >>, branch |-> << >>, steps |-> << >>, failed |-> FALSE] }
  ELSE LET prev == Runs(n - 1) IN
       prev \cup
       { LET r == Insert(p.branch, IF o.kind = "leaf" THEN LeafNode(o.id) ELSE HiddenNode(o.id), o.depth) IN
         [ops |-> Append(p.ops, o),
          branch |-> IF r.err = "" THEN r.branch ELSE p.branch,
          steps |-> Append(p.steps, [err |-> r.err, occ |-> IF r.err = "" THEN Occupancy(r.branch) ELSE Occupancy(p.branch)]),
          failed |-> r.err # ""]
         : p \in { x \in prev : Len(x.ops) = n - 1 /\ ~x.failed }, o \in OpsAt(n) }
Case(run) ==
  LET f == IF run.failed THEN [err |-> "n/a", root |-> NoneNode] ELSE Finalize(run.branch) IN
  [ops |-> run.ops, steps |-> run.steps, fin |-> f.err,
   root |-> IF f.err = "" THEN f.root.hash ELSE << >>,
   leaves |-> IF f.err = "" THEN f.root.leaves ELSE << >>,
   refok |-> RefTree(run.ops).ok]
Cases == { Case(r) : r \in { x \in Runs(GenLen) : Len(x.ops) >= 1 } }
\* deep chains: two nodes at depth n (both leaves, or both hidden), siblings all the way up (hidden under leaves, leaves under hidden)
Chain(n, bk) == << [kind |-> bk, depth |-> n, id |-> 1], [kind |-> bk, depth |-> n, id |-> 2] >>
                \o [k \in 1..(n - 1) |-> [kind |-> IF bk = "leaf" THEN "hidden" ELSE "leaf", depth |-> n - k, id |-> k + 2]]
RECURSIVE FoldOps(_, _, _)
FoldOps(br, os, i) == IF i > Len(os) THEN [err |-> "", branch |-> br, at |-> 0]
                      ELSE LET r == Insert(br, IF os[i].kind = "leaf" THEN LeafNode(os[i].id) ELSE HiddenNode(os[i].id), os[i].depth) IN
                           IF r.err # "" THEN [err |-> r.err, branch |-> br, at |-> i] ELSE FoldOps(r.branch, os, i + 1)
DeepCases == { LET r == FoldOps(<< >>, Chain(n, bk), 1) IN
               [n |-> n, bottom |-> bk, ops |-> Chain(n, bk), err |-> r.err, at |-> r.at, fin |-> IF r.err = "" THEN Finalize(r.branch).err ELSE "n/a"]
               : n \in {127, 128, 129}, bk \in {"leaf", "hidden"} }
\* Huffman: weights and the optimal cost sum(w * depth)
HuffCost(ws) == LET ds == HuffDepths(ws) IN FoldLeft(LAMBDA a, b : WAdd(a, b), W(0), [i \in DOMAIN ws |-> WMul(ws[i], (CHOOSE l \in ds : l[1] = i)[2])])
HuffCases == { [ws |-> ws, cost |-> HuffCost(ws)] : ws \in UNION { [1..n -> { W(k) : k \in 1..4 }] : n \in 1..5 } \cup UNION { [1..n -> BigWeights] : n \in 1..5 } }
GInit == branch = << >> /\ ops = << >> /\ failed = ""
GNext == UNCHANGED vars
ASSUME ndJsonSerialize(IOEnv.OUT, SetToSeq(Cases))
ASSUME ndJsonSerialize(IOEnv.OUT_DEEP, SetToSeq(DeepCases))
ASSUME ndJsonSerialize(IOEnv.OUT_HUFF, SetToSeq(HuffCases))
ASSUME PrintT(<<"EMITTED", Cardinality(Cases), Cardinality({ c \in Cases : c.fin = "" }), Cardinality(HuffCases)>>)
====
