------------------------------ MODULE Gen_Wire ------------------------------
(* Direction A: cases for C01 / C02 / C12 emitted as NDJSON.                  *)
EXTENDS PsetTx, Json, IOUtils, FiniteSetsExt

Tier == IOEnv.GEN_TIER

BaseSet == IF Tier = "quick"
           THEN FamIn({0, 253}, {{}, {"arp", "sw"}, {"krp", "pw"}, {"arp", "krp", "sw", "pw"}}) \cup FamOut({22}, OutWitMasks) \cup FamCounts \cup FamLock
                \cup { tx \in FamWit : \E i \in 1..2 : tx.ins[i].wit.arp.len = 0 /\ tx.ins[i].wit.krp.len = 0 } \cup FamWide
           ELSE FamIn({0, 1, 253}, InWitMasks) \cup FamOut({0, 22, 253}, OutWitMasks) \cup FamWit \cup FamCounts \cup FamLock \cup FamWide

BaseCase(tx) ==
  [tx |-> tx, toks |-> EncTx(tx), txidpre |-> TxidPre(tx), haswit |-> HasWitness(tx),
   size |-> Size(tx), weight |-> Weight(tx), vsize |-> VSize(tx),
   dweight |-> DiscountWeight(tx), dvsize |-> DiscountVSize(tx), fields |-> SetToSeq(Fields(tx)),
   wf |-> WellFormedTx(tx), expl_nonce |-> HasExplicitNonce(tx)]

\* mutants are emitted for a subset of the bases (all of the small families)
MutBases == IF Tier = "quick"
            THEN FamIn({0}, {{}, {"arp", "krp", "sw", "pw"}}) \cup FamOut({22}, {{}, {"sp", "rp"}}) \cup FamCounts
            ELSE FamIn({0, 253}, {{}, {"arp", "sw"}, {"krp", "pw"}, {"arp", "krp", "sw", "pw"}}) \cup FamOut({22}, OutWitMasks) \cup FamCounts
                 \cup { tx \in FamWit : \E i \in 1..2 : tx.ins[i].wit.arp.len = 0 /\ tx.ins[i].wit.krp.len = 0 }

WireCase(t) ==
  LET r == DecTx(t) IN
  [toks |-> t, ok |-> (r.ok /\ Len(r.rest) = 0), pok |-> r.ok,
   consumed |-> IF r.ok THEN Consumed(t, r) ELSE 0,
   val |-> IF r.ok THEN NormTx(r.val) ELSE << >>]

WireStrings == UNION { Mutants(EncTx(tx)) : tx \in MutBases }
               \cup { EncTx(tx) : tx \in FamNullIss }
               \cup { EmptyWitnessForm(tx) : tx \in { x \in MutBases : ~HasWitness(x) } }
               \cup UNION { WidenMutants(EncTx(tx)) : tx \in BoundaryBases } \cup { EncTx(tx) : tx \in BoundaryBases } \cup { EncTx(tx) : tx \in OverMaxBases }
               \cup UNION { HiMutants(EncTx(tx)) : tx \in FamCounts \cup FamIn({0}, {{"arp", "krp", "sw", "pw"}}) }
Depth2 == IF Tier = "quick" THEN {} ELSE UNION { Mutants(m) : m \in UNION { Mutants(EncTx(tx)) : tx \in FamCounts } }

\* constant-level restatement of the model-level claims on exactly what is emitted
ASSUME \A tx \in BaseSet : RoundTrip(tx) /\ SizesAgree(tx) /\ IdsRelate(tx) /\ ViewsAgree(tx) /\ LossOnlyIfIllFormed(tx)
ASSUME \A t \in WireStrings \cup Depth2 : Canonical(t)

\* headers, blocks, parameters, stand-alone pieces ---------------------------------------------
HeaderSet == (IF Tier = "quick" THEN { h \in FamHeader : h.version # "1" \/ h.ext.kind = "proof" } ELSE FamHeader) \cup FamHeaderWide
HeaderCase(h) == [h |-> h, canonical |-> (h \notin FamHeaderMarked), toks |-> EncHeader(h), hashpre |-> BlockHashPre(h), cleared |-> EncHeader(ClearWitness(h)),
                  fields |-> SetToSeq(HeaderFields(h))]
HeaderWire(t) == LET r == DecHeader(t) IN
  [ty |-> "BlockHeader", toks |-> t, ok |-> (r.ok /\ Len(r.rest) = 0), pok |-> r.ok, consumed |-> IF r.ok THEN Consumed(t, r) ELSE 0,
   val |-> IF r.ok THEN NormHeader(r.val) ELSE << >>]
HeaderStrings == UNION { Mutants(EncHeader(h)) : h \in { x \in HeaderSet \ FamHeaderWide : x.version = "20000000" } }
BlockCase(b) == [b |-> b, toks |-> EncBlock(b), htoks |-> EncHeader(b.header), size |-> BlockSize(b), weight |-> BlockWeight(b), hashpre |-> BlockHashPre(b.header)]
ParamSet == { MkP("c", d) : d \in ParamKinds }
ParamWire(t) == LET r == DecParams(t) IN
  [ty |-> "Params", toks |-> t, ok |-> (r.ok /\ Len(r.rest) = 0), pok |-> r.ok, consumed |-> IF r.ok THEN Consumed(t, r) ELSE 0,
   val |-> IF r.ok THEN NormParams(r.val) ELSE << >>]
ParamStrings == { EncParams(q) : q \in ParamSet } \cup UNION { Mutants(EncParams(q)) : q \in ParamSet }
\* stand-alone inputs / outputs / witnesses (the input and output codecs exclude the witness)
PieceBases == FamIn({0}, {{}, {"arp", "krp", "sw", "pw"}}) \cup FamOut({22}, {{}, {"sp", "rp"}})
StripIn(t) == [t EXCEPT !.wit = EmptyInWit]
StripOut(o) == [o EXCEPT !.wit = EmptyOutWit]
PieceCases ==
  UNION { { [ty |-> "TxIn", toks |-> EncTxIn(tx.ins[1]), val |-> NormIn(StripIn(tx.ins[1]))],
            [ty |-> "TxInWitness", toks |-> EncInWit(tx.ins[1].wit), val |-> NormIn(tx.ins[1])],
            [ty |-> "TxOut", toks |-> EncTxOut(tx.outs[1]), val |-> NormOut(StripOut(tx.outs[1]))],
            [ty |-> "TxOutWitness", toks |-> EncOutWit(tx.outs[1].wit), val |-> NormOut(tx.outs[1])] } : tx \in PieceBases }
ASSUME \A h \in HeaderSet : HeaderRoundTrip(h) /\ ClearKeepsHash(h)
ASSUME \A t \in HeaderStrings : HeaderCanonical(t)

VARIABLE x
GInit == x = 0
GNext == UNCHANGED x
ASSUME ndJsonSerialize(IOEnv.OUT_BASE, SetToSeq({ BaseCase(tx) : tx \in BaseSet }))
ASSUME ndJsonSerialize(IOEnv.OUT_WIRE, SetToSeq({ WireCase(t) : t \in WireStrings \cup Depth2 }))
ASSUME ndJsonSerialize(IOEnv.OUT_HEADER, SetToSeq({ HeaderCase(h) : h \in HeaderSet \cup FamHeaderMarked }))
ASSUME ndJsonSerialize(IOEnv.OUT_HWIRE, SetToSeq({ HeaderWire(t) : t \in HeaderStrings } \cup { ParamWire(t) : t \in ParamStrings }))
ASSUME ndJsonSerialize(IOEnv.OUT_BLOCK, SetToSeq({ BlockCase(b) : b \in FamBlock \cup FamBlockWide }))
ASSUME ndJsonSerialize(IOEnv.OUT_PIECE, SetToSeq(PieceCases))
ASSUME PrintT(<<"EMITTED2", Cardinality(HeaderSet), Cardinality(HeaderStrings), Cardinality(ParamStrings), Cardinality(FamBlock \cup FamBlockWide), Cardinality(PieceCases)>>)
ASSUME PrintT(<<"EMITTED", Cardinality(BaseSet), Cardinality(WireStrings \cup Depth2),
                Cardinality({ t \in WireStrings : DecTx(t).ok })>>)
=============================================================================
