------------------------------ MODULE Issuance ------------------------------
(***************************************************************************)
(* Asset / reissuance-token id derivation (src/issuance.rs,                *)
(* TxIn::issuance_ids, pset::Input::issuance_ids), property C11.           *)
(*                                                                         *)
(* An issuing input travels through three representations                  *)
(*   TxIn  --ToPset-->  pset::Input  --Extract-->  TxIn                    *)
(* The PSET stores the outpoint index *with* the pegin / issuance flag bits *)
(* (except for the null index 0xffffffff); ids are derived from the plain  *)
(* index in every representation.                                          *)
(***************************************************************************)
EXTENDS MerkleDef, TLC

Bases    == {"zero", "small", "max30", "null"}   \* plain outpoint index classes
Amounts  == {"null", "expl", "conf"}
Nonces   == {"zero", "nonzero"}

\* an issuing input (the quantifier of C11: inputs that carry an issuance)
Inputs == { i \in [base : Bases, pegin : BOOLEAN, nonce : Nonces, amount : Amounts, keys : Amounts] :
              i.amount # "null" \/ i.keys # "null" }

PlainHex(b) == CASE b = "zero" -> "0" [] b = "small" -> "7"
                 [] b = "max30" -> "3fffffff" [] b = "null" -> "ffffffff"

\* index as stored: [base, peg, iss] ; the null index never carries flags
Stored(i, rep) ==
  IF rep = "pset" /\ i.base # "null"
  THEN [base |-> i.base, peg |-> i.pegin, iss |-> TRUE]
  ELSE [base |-> i.base, peg |-> FALSE, iss |-> FALSE]

\* hex of the stored 32-bit index (for the harness to cross-check the PSET field)
StoredHex(s) ==
  CASE s.base = "null" -> "ffffffff"
    [] s.base = "zero"  -> IF s.iss THEN (IF s.peg THEN "c0000000" ELSE "80000000") ELSE (IF s.peg THEN "40000000" ELSE "0")
    [] s.base = "small" -> IF s.iss THEN (IF s.peg THEN "c0000007" ELSE "80000007") ELSE (IF s.peg THEN "40000007" ELSE "7")
    [] s.base = "max30" -> IF s.iss THEN (IF s.peg THEN "ffffffff" ELSE "bfffffff") ELSE (IF s.peg THEN "7fffffff" ELSE "3fffffff")

\* what a reader of the stored index recovers: flags stripped, except for 0xffffffff
PlainOfStoredHex(h) ==
  CASE h = "ffffffff" -> "ffffffff"
    [] h \in {"0", "40000000", "80000000", "c0000000"} -> "0"
    [] h \in {"7", "40000007", "80000007", "c0000007"} -> "7"
    [] h \in {"3fffffff", "7fffffff", "bfffffff"} -> "3fffffff"

\* Hash expressions -----------------------------------------------------------
Cat(s) == <<"cat", s>>
OutpointTok(plainhex) == Cat(<< <<"f", "txid">>, <<"u32", plainhex>> >>)   \* flags stripped
EntropyNew(plainhex)  == Mid(<<"sha256d", OutpointTok(plainhex)>>, <<"f", "entropy">>)  \* contract hash field
Entropy(i, plainhex)  == IF i.nonce = "zero" THEN EntropyNew(plainhex) ELSE <<"f", "entropy">>
AssetId(i, ph)  == Mid(Entropy(i, ph), <<"z32">>)
\* "both": a PSET input that holds the explicit amount and its commitment (what a blinder leaves behind): the issuance is blinded
IsConf(a) == a \in {"conf", "both"}
TokenId(i, ph)  == Mid(Entropy(i, ph), IF IsConf(i.amount) THEN <<"c32", 2>> ELSE <<"c32", 1>>)
Ids(i, ph)      == << AssetId(i, ph), TokenId(i, ph) >>

\* The one corner of the PSET format where the stored index is ambiguous: index 2^30-1 of a
\* pegin that also issues is bit-identical to the null index.  Excluded from the state machine
\* (FormatCollision documents it); the harness reports it under its own key.
Collides(i) == i.base = "max30" /\ i.pegin

---------------------------------------------------------------------------
VARIABLES inp, rep, idx, ids0        \* idx: the index as stored in the current representation (hex)
vars == <<inp, rep, idx, ids0>>

Init == /\ inp \in { i \in Inputs : ~Collides(i) } /\ rep = "txin"
        /\ idx = PlainHex(inp.base)
        /\ ids0 = Ids(inp, PlainHex(inp.base))
\* Input::from_txin : OR the flag bits into the index
ToPset  == /\ rep = "txin" /\ rep' = "pset"
           /\ idx' = StoredHex(Stored(inp, "pset"))
           /\ UNCHANGED <<inp, ids0>>
\* extract_tx : strip the flag bits unless the index is 0xffffffff
Extract == /\ rep = "pset" /\ rep' = "extracted"
           /\ idx' = PlainOfStoredHex(idx)
           /\ UNCHANGED <<inp, ids0>>
\* a blinder commits the issuance amount in the PSET and keeps the explicit field next to it: from here on the
\* issuance is a blinded one (the token id changes with it, by definition), and extraction emits the commitment
AddCommitment == /\ rep = "pset" /\ inp.amount = "expl"
                 /\ inp' = [inp EXCEPT !.amount = "both"]
                 /\ ids0' = Ids(inp', PlainHex(inp.base))
                 /\ UNCHANGED <<rep, idx>>
Next == ToPset \/ AddCommitment \/ Extract
Spec == Init /\ [][Next]_vars

\* C11: the same pair of ids in every representation (ids always derive from the plain index)
SameIds == Ids(inp, PlainOfStoredHex(idx)) = ids0
RoundTrip == rep = "extracted" => idx = PlainHex(inp.base)
\* what extraction emits for the amount: the commitment whenever one is present
ExtractedAmount(a) == IF a = "both" THEN "conf" ELSE a
ExtractKeepsBlinding == IsConf(ExtractedAmount(inp.amount)) <=> IsConf(inp.amount)
\* new issuance and reissuance never coincide; asset and token ids differ
Distinct == /\ AssetId(inp, PlainOfStoredHex(idx)) # TokenId(inp, PlainOfStoredHex(idx))
            /\ \A j \in Inputs : (j.nonce # inp.nonce) => Ids(j, PlainHex(j.base)) # Ids(inp, PlainHex(inp.base))
FormatCollision ==
  \A i \in Inputs : Collides(i) <=> (StoredHex(Stored(i, "pset")) = "ffffffff" /\ i.base # "null")
=============================================================================
