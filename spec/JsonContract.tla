---------------------------- MODULE JsonContract ----------------------------
(***************************************************************************)
(* ContractHash::from_json_contract (C11, second part): the contract hash  *)
(* is SHA-256 of the canonical text = keys sorted byte-lexicographically at *)
(* every nesting level, compact separators.  The specification defines the *)
(* canonical text and the family of equivalent texts (key permutations at   *)
(* every level, insignificant whitespace).                                  *)
(***************************************************************************)
EXTENDS Naturals, Sequences, FiniteSets, TLC, SequencesExt, FiniteSetsExt, Json, IOUtils

CONSTANTS MaxKeys            \* top-level objects have 1..MaxKeys keys

\* keys in byte-lexicographic order (upper case < lower case; prefix first)
KeysSorted == << "B", "a", "ab", "b" >>
Keys == { KeysSorted[i] : i \in 1..Len(KeysSorted) }
Rank(k) == CHOOSE i \in 1..Len(KeysSorted) : KeysSorted[i] = k

Q(s) == "\"" \o s \o "\""
LeafTexts == { Q("x"), "12", "0", "true", "null", Q("") }

\* values: leaf literal | array of two literals | nested object {"a":..,"b":..}
Values == { <<"leaf", t>> : t \in {Q("x"), "12", "null"} }
          \cup { <<"arr", <<"0", Q("x")>> >> }
          \cup { <<"obj", ta, tb>> : ta \in {"true"}, tb \in {Q(""), "12"} }

Contracts == UNION { [K -> Values] : K \in { S \in SUBSET Keys : Cardinality(S) \in 1..MaxKeys } }

\* whitespace styles: none / spaces / newline+tab
WS == { "", " ", "\n\t " }

RenderValue(v, rev, w) ==
  CASE v[1] = "leaf" -> v[2]
    [] v[1] = "arr"  -> "[" \o w \o v[2][1] \o w \o "," \o w \o v[2][2] \o w \o "]"
    [] v[1] = "obj"  ->
         IF rev THEN "{" \o w \o Q("b") \o w \o ":" \o w \o v[3] \o w \o "," \o w \o Q("a") \o w \o ":" \o w \o v[2] \o w \o "}"
                ELSE "{" \o w \o Q("a") \o w \o ":" \o w \o v[2] \o w \o "," \o w \o Q("b") \o w \o ":" \o w \o v[3] \o w \o "}"

RECURSIVE Join(_, _, _, _, _)
Join(c, ks, i, rev, w) ==
  IF i > Len(ks) THEN ""
  ELSE (IF i > 1 THEN "," \o w ELSE "") \o Q(ks[i]) \o w \o ":" \o w \o RenderValue(c[ks[i]], rev, w) \o w
       \o Join(c, ks, i + 1, rev, w)

\* whitespace is insignificant around the whole document as well (a contract read from a file starts and ends with it)
Render(c, ks, rev, w) == w \o "{" \o w \o Join(c, ks, 1, rev, w) \o "}" \o w

SortedKeys(c) == SortSeq(SetToSeq(DOMAIN c), LAMBDA x, y : Rank(x) < Rank(y))
KeyOrders(c)  == { s \in [1..Cardinality(DOMAIN c) -> DOMAIN c] : \A i, j \in DOMAIN s : i # j => s[i] # s[j] }

Canon(c) == Render(c, SortedKeys(c), FALSE, "")
Texts(c) == { Render(c, ks, rev, w) : ks \in KeyOrders(c), rev \in BOOLEAN, w \in WS }

\* model-level sanity: the canonical text is one of the equivalent texts; different
\* contracts have different canonical texts (the hash commits to the content)
CanonIsAText   == \A c \in Contracts : Canon(c) \in Texts(c)
CanonInjective == \A c, d \in Contracts : c # d => Canon(c) # Canon(d)

Cases == { [canon |-> Canon(c), texts |-> SetToSeq(Texts(c)), nkeys |-> Cardinality(DOMAIN c)] : c \in Contracts }
=============================================================================
