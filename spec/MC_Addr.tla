---- MODULE MC_Addr ----
EXTENDS Addr
VARIABLE x
Init == x = 0
Next == UNCHANGED x
ASSUME PrefixesDistinct
ASSUME RoundTrips /\ BothCases
ASSUME OneNetwork /\ Canonical /\ FromStrAgrees
====
