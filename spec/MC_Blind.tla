------------------------------ MODULE MC_Blind ------------------------------
EXTENDS Blind
CONSTANT Tier
I(a, v, c, abf, vbf) == [asset |-> a, v |-> v, abf |-> abf, vbf |-> vbf, conf |-> c]
O(a, v) == [asset |-> a, v |-> v, marked |-> FALSE, fee |-> FALSE, script |-> "std", conf |-> FALSE, abf |-> 0, vbf |-> 0, rp |-> NoProof, sp |-> NoProof]
Fee(a, v) == [O(a, v) EXCEPT !.fee = TRUE, !.script = "unspendable"]
Burn(a) == [O(a, 0) EXCEPT !.script = "unspendable"]          \* explicit zero on OP_RETURN
NoIss == [on |-> 0, asset |-> "N", v |-> 0]
InsSets == { << I("A", 3, TRUE, 2, 1) >>, << I("A", 3, FALSE, 0, 0) >>,
             << I("A", 2, TRUE, 1, 4), I("B", 1, TRUE, 3, 2) >>, << I("A", 2, TRUE, 4, 0), I("A", 2, FALSE, 0, 0) >> }
TotalOf(ins, a) == SumF(LAMBDA i : ValIf(i, a), ins, 1)
\* output multisets balancing the inputs (fee 1 of asset A), as sequences in a base order
BaseOuts(ins, iss) ==
  LET a == TotalOf(ins, "A")  b == TotalOf(ins, "B") IN
  { (IF a - 1 >= 2 THEN alt ELSE << O("A", a - 1) >>) \o << Fee("A", 1) >> \o (IF b > 0 THEN << O("B", b) >> ELSE << >>)
      \o (IF iss.on # 0 THEN << O("N", iss.v) >> ELSE << >>) \o extra
    : alt \in { << O("A", a - 1) >>, << O("A", 1), O("A", a - 2) >> }, extra \in { << >>, << Burn("A") >> } }
Perms(s) == { [k \in DOMAIN s |-> s[p[k]]] : p \in Permutations(DOMAIN s) }
Rotations(s) == { [k \in DOMAIN s |-> s[((k + r - 1) % Len(s)) + 1]] : r \in 0..(Len(s) - 1) }
Arrangements(s) == IF Tier = "quick" THEN Rotations(s) ELSE Perms(s)
MarkSets(s) == { m \in SUBSET { k \in DOMAIN s : ~s[k].fee /\ s[k].v > 0 } : m # {} }
Mark(s, m) == [k \in DOMAIN s |-> IF k \in m THEN [s[k] EXCEPT !.marked = TRUE] ELSE s[k]]
Sk == UNION { UNION { UNION { { [ins |-> ins, iss |-> iss, outs |-> Mark(arr, m)] : m \in MarkSets(arr) }
                               : arr \in Arrangements(base) } : base \in BaseOuts(ins, iss) }
              : ins \in InsSets, iss \in { NoIss, [on |-> 1, asset |-> "N", v |-> 2] } }
=============================================================================
