------------------------------ MODULE MC_Blind ------------------------------
EXTENDS Blind
CONSTANT Tier
I(a, v, c, abf, vbf) == [asset |-> a, v |-> v, abf |-> abf, vbf |-> vbf, mode |-> c]
O(a, v) == [asset |-> a, v |-> v, marked |-> FALSE, want |-> "full", fee |-> FALSE, script |-> "std", mode |-> "expl", abf |-> 0, vbf |-> 0, rp |-> NoProof, sp |-> NoProof]
Fee(a, v) == [O(a, v) EXCEPT !.fee = TRUE, !.script = "unspendable"]
Burn(a) == [O(a, 0) EXCEPT !.script = "unspendable"]          \* explicit zero on OP_RETURN
Iss(v, vc, vb, tv, tc, tb) == [on |-> 1, v |-> v, vc |-> vc, vb |-> vb, tv |-> tv, tc |-> tc, tb |-> tb]
NoIss == [on |-> 0, v |-> 0, vc |-> FALSE, vb |-> 0, tv |-> 0, tc |-> FALSE, tb |-> 0]
\* issuance shapes: amount only, amount and tokens, tokens only (Null amount), and the (partially) blinded forms
IssSet == { NoIss, Iss(2, FALSE, 0, 0, FALSE, 0), Iss(2, FALSE, 0, 1, FALSE, 0), Iss(0, FALSE, 0, 1, FALSE, 0),
            Iss(2, TRUE, 3, 1, TRUE, 1), Iss(2, TRUE, 2, 1, FALSE, 0), Iss(2, FALSE, 0, 1, TRUE, 4) }
InsSets == { << I("A", 3, "full", 2, 1) >>, << I("A", 3, "expl", 0, 0) >>,
             << I("A", 2, "full", 1, 4), I("B", 1, "full", 3, 2) >>, << I("A", 2, "full", 4, 0), I("A", 2, "expl", 0, 0) >> }
TotalOf(ins, a) == SumF(LAMBDA i : ValIf(i, a), ins, 1)
\* output multisets balancing the inputs (fee 1 of asset A), as sequences in a base order
BaseOuts(ins, iss) ==
  LET a == TotalOf(ins, "A")  b == TotalOf(ins, "B") IN
  { (IF a - 1 >= 2 THEN alt ELSE << O("A", a - 1) >>) \o << Fee("A", 1) >> \o (IF b > 0 THEN << O("B", b) >> ELSE << >>)
      \o (IF iss.v > 0 THEN << O("N", iss.v) >> ELSE << >>) \o (IF iss.tv > 0 THEN << O("T", iss.tv) >> ELSE << >>) \o extra
    : alt \in { << O("A", a - 1) >>, << O("A", 1), O("A", a - 2) >> }, extra \in { << >>, << Burn("A") >> } }
Perms(s) == { [k \in DOMAIN s |-> s[p[k]]] : p \in Permutations(DOMAIN s) }
Rotations(s) == { [k \in DOMAIN s |-> s[((k + r - 1) % Len(s)) + 1]] : r \in 0..(Len(s) - 1) }
\* thorough: the rotations of the base order and of its reversal, and the base order with each adjacent pair exchanged (all
\* permutations of up to seven outputs times all factor choices is out of reach: 5040 orders x 25^k)
Rev(s) == [k \in DOMAIN s |-> s[Len(s) + 1 - k]]
SwapAdj(s, i) == [k \in DOMAIN s |-> IF k = i THEN s[i + 1] ELSE IF k = i + 1 THEN s[i] ELSE s[k]]
Arrangements(s) == IF Tier = "quick" THEN Rotations(s)
                   ELSE Rotations(s) \cup Rotations(Rev(s)) \cup { SwapAdj(s, i) : i \in 1..(Len(s) - 1) }
MarkSets(s) == { m \in SUBSET { k \in DOMAIN s : ~s[k].fee /\ s[k].v > 0 } : m # {} }
Mark(s, m) == [k \in DOMAIN s |-> IF k \in m THEN [s[k] EXCEPT !.marked = TRUE] ELSE s[k]]
Build(InsS, IssS) ==
  UNION { UNION { UNION { { [ins |-> ins, iss |-> iss, outs |-> Mark(arr, m), manual |-> FALSE] : m \in MarkSets(arr) }
                               : arr \in Arrangements(base) } : base \in BaseOuts(ins, iss) }
              : ins \in InsS, iss \in IssS }
NMarked(sk) == Cardinality({ j \in DOMAIN sk.outs : sk.outs[j].marked })
PlainIss == { NoIss, Iss(2, FALSE, 0, 0, FALSE, 0) }
SmallIns == { << I("A", 3, "full", 2, 1) >>, << I("A", 3, "expl", 0, 0) >> }
\* spent outputs that are themselves half-blinded: value committed under the unblinded generator, or explicit value under a blinded generator
HalfIns == { << I("A", 3, "value", 0, 3) >>, << I("A", 3, "asset", 4, 0) >>, << I("A", 2, "value", 0, 2), I("A", 2, "full", 1, 1) >> }
\* Transaction::blind: every marked output fully blinded.  The plain issuance shapes go with every input set; the token /
\* blinded-issuance shapes with the single-input sets (quick: at most two marked outputs)
SkFull == Build(InsSets, PlainIss) \cup { sk \in Build(HalfIns, { NoIss }) : NMarked(sk) <= (IF Tier = "quick" THEN 2 ELSE 3) }
          \cup { sk \in Build(SmallIns, IssSet \ PlainIss) : NMarked(sk) <= (IF Tier = "quick" THEN 2 ELSE 3) }
\* hand-blinded: exactly one marked output in a partial mode (the last marked one must commit its value)
MaxOf(m) == CHOOSE k \in m : \A j \in m : j <= k
PartialOf(sk) == { [sk EXCEPT !.outs[k].want = w, !.manual = TRUE]
                   : k \in { j \in DOMAIN sk.outs : sk.outs[j].marked }, w \in {"value", "asset"} }
WantOk(sk) == LET m == { j \in DOMAIN sk.outs : sk.outs[j].marked } IN sk.outs[MaxOf(m)].want # "asset"
SkPartial == { p \in UNION { PartialOf(sk) : sk \in { s \in Build(SmallIns, { NoIss, Iss(2, FALSE, 0, 1, FALSE, 0) }) : NMarked(s) <= (IF Tier = "quick" THEN 2 ELSE 3) } } : WantOk(p) }
Sk == SkFull \cup SkPartial
=============================================================================
