SPECIFICATION Spec
CONSTANTS
  Tier = "quick"
  Skeletons <- Sk
INVARIANTS BlindedVerifies AllMarkedBlinded TampersRejected
CHECK_DEADLOCK FALSE
