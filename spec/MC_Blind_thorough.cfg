SPECIFICATION Spec
CONSTANTS
  Tier = "thorough"
  Skeletons <- Sk
INVARIANTS BlindedVerifies AllMarkedBlinded TampersRejected
CHECK_DEADLOCK FALSE
