---- MODULE MC_Checksum ----
EXTENDS Checksum
====
