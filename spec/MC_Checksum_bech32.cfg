SPECIFICATION Spec
CONSTANTS
  Code = "bech32"
  MaxLen = 150
INVARIANTS SingleDetected DoubleDetected SamePosition
CHECK_DEADLOCK FALSE
