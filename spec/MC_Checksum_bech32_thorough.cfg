SPECIFICATION Spec
CONSTANTS
  Code = "bech32"
  MaxLen = 190
INVARIANTS SingleDetected DoubleDetected SamePosition
CHECK_DEADLOCK FALSE
