SPECIFICATION Spec
CONSTANTS
  Code = "blech32"
  MaxLen = 150
INVARIANTS SingleDetected DoubleDetected SamePosition
CHECK_DEADLOCK FALSE
