SPECIFICATION Spec
CONSTANTS
  Code = "blech32"
  MaxLen = 600
INVARIANTS SingleDetected DoubleDetected SamePosition
CHECK_DEADLOCK FALSE
