SPECIFICATION Spec
CONSTANTS
  SbsLens = {0, 33}
  FpLens = {22}
  FpsLens = {0, 253}
  ExtLens = {0, 33}
  MaxExt = 2
  Limits = {"0", "ffffffff"}
INVARIANTS RootStable PathsAgree Idempotent NullZero Committing
PROPERTY StepStable
CHECK_DEADLOCK FALSE
