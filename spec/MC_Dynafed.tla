---- MODULE MC_Dynafed ----
EXTENDS Dynafed
====
