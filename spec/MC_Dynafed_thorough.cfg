SPECIFICATION Spec
CONSTANTS
  SbsLens = {0, 1, 33}
  FpLens = {0, 22, 34}
  FpsLens = {0, 1, 253}
  ExtLens = {0, 1, 33}
  MaxExt = 2
  Limits = {"0", "ffffffff"}
INVARIANTS RootStable PathsAgree Idempotent NullZero
PROPERTY StepStable
CHECK_DEADLOCK FALSE
