SPECIFICATION Spec
CONSTANT MaxN = 64
INVARIANTS TypeOK Correct InnerInv AllLeavesInOrder
PROPERTY Termination
CHECK_DEADLOCK FALSE
