SPECIFICATION Spec
CONSTANT MaxN = 300
INVARIANTS TypeOK Correct InnerInv AllLeavesInOrder
PROPERTY Termination
CHECK_DEADLOCK FALSE
