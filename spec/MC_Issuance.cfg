SPECIFICATION Spec
INVARIANTS SameIds RoundTrip Distinct FormatCollision
CHECK_DEADLOCK FALSE
