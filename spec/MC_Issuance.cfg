SPECIFICATION Spec
INVARIANTS SameIds RoundTrip Distinct FormatCollision ExtractKeepsBlinding
CHECK_DEADLOCK FALSE
