---- MODULE MC_Issuance ----
EXTENDS Issuance
====
