---- MODULE MC_PsetBlind ----
EXTENDS PsetBlind
====
