SPECIFICATION Spec
CONSTANTS
  MaxParties = 3
  MaxOutsPerParty = 2
INVARIANTS Balanced Carry ScalarCount
PROPERTIES Finishes LastRunsLast
VIEW View
CHECK_DEADLOCK FALSE
