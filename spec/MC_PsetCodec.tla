---- MODULE MC_PsetCodec ----
EXTENDS PsetCodec
\* bases: the mandatory pairs plus a handful of optional ones (keyed fields with two instances)
GlobalBases == { {P("tx_version", 0), P("input_count", 0), P("output_count", 0), P("version", 0)} \cup x :
                 x \in { {}, {P("xpub", 1), P("xpub", 2), P("scalars", 1)}, {P("fallback_locktime", 0), P("proprietary", 1), P("unknown", 1)} } }
InputBases == { {P("previous_txid", 0), P("output_index", 0)} \cup x :
                x \in { {}, {P("partial_sigs", 1), P("partial_sigs", 2), P("sha256_preimages", 1), P("sequence", 0)},
                        {P("witness_utxo", 0), P("tap_key_sig", 0), P("hash160_preimages", 1), P("issuance_value_amount", 0), P("unknown", 1)} } }
OutputBases == { {P("script", 0), P("amount", 0), P("asset", 0)},
                 {P("script", 0), P("amount_comm", 0), P("asset_comm", 0), P("bip32_derivation", 1), P("bip32_derivation", 2)},
                 {P("script", 0), P("amount", 0), P("asset", 0), P("blinding_key", 0), P("blinder_index", 0)},
                 {P("script", 0), P("amount", 0), P("asset", 0), P("blinding_key", 0), P("blinder_index", 0), P("amount_comm", 0), P("asset_comm", 0),
                  P("value_rangeproof", 0), P("asset_surjection_proof", 0), P("ecdh_pubkey", 0), P("blind_value_proof", 0), P("blind_asset_proof", 0)} }
====
