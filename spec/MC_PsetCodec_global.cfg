SPECIFICATION Spec
CONSTANTS
  Kind = "global"
  Bases <- GlobalBases
  MaxEdits = 2
INVARIANTS RoundTrip Fixpoint OrderInsensitive Refusals
CHECK_DEADLOCK FALSE
