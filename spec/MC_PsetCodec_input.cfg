SPECIFICATION Spec
CONSTANTS
  Kind = "input"
  Bases <- InputBases
  MaxEdits = 2
INVARIANTS RoundTrip Fixpoint OrderInsensitive Refusals
CHECK_DEADLOCK FALSE
