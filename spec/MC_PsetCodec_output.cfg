SPECIFICATION Spec
CONSTANTS
  Kind = "output"
  Bases <- OutputBases
  MaxEdits = 2
INVARIANTS RoundTrip Fixpoint OrderInsensitive Refusals
CHECK_DEADLOCK FALSE
