SPECIFICATION Spec
CONSTANTS
  Additions <- Adds
  MaxAdds = 2
  NDesc = 3
INVARIANTS KeepsAll NoInvention OrderFree Commutes Associates
CHECK_DEADLOCK FALSE
