---- MODULE MC_PsetMerge ----
EXTENDS PsetMerge
Adds == { <<p, f, 1>> : p \in {"g", "i1", "o1"}, f \in {"x", "y"} } \cup { <<"i1", "sigs", k>> : k \in 1..2 }
ASSUME KeySourceCommutes /\ KeySourceKeepsLongest
====
