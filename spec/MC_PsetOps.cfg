SPECIFICATION Spec
CONSTANTS
  MaxLen = 3
  MaxOps = 5
INVARIANT CountsAgree
INVARIANT IdsDistinct
INVARIANT OwnerStable
CHECK_DEADLOCK FALSE
