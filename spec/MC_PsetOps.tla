---- MODULE MC_PsetOps ----
EXTENDS PsetOps
====
