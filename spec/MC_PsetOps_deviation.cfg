SPECIFICATION Spec
CONSTANTS
  MaxLen = 3
  MaxOps = 4
INVARIANT NoStaleMisdirection
CHECK_DEADLOCK FALSE
