SPECIFICATION Spec
CONSTANTS
  MaxLen = 4
  MaxOps = 7
INVARIANT CountsAgree
INVARIANT IdsDistinct
INVARIANT OwnerStable
CHECK_DEADLOCK FALSE
