---- MODULE MC_PsetView ----
EXTENDS PsetView
\* all assignments of {none,time,height,both} x values to 0..3 inputs, every fallback (constant level)
Reqs == [rt : {None} \cup TVals, rh : {None} \cup HVals, extras : {{}}]
AllIns == UNION { [1..k -> Reqs] : k \in 0..3 }
ASSUME \A i_ \in AllIns, f_ \in Fallbacks : LockTime(i_, f_) = Bip370(i_, f_)
\* order of inputs is irrelevant
ASSUME \A i_ \in [1..2 -> Reqs], f_ \in Fallbacks : LockTime(i_, f_) = LockTime(<<i_[2], i_[1]>>, f_)
====
