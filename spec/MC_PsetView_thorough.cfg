SPECIFICATION Spec
CONSTANTS
  NIn = 2
  NOut = 2
  MaxSteps = 4
INVARIANT FoldIsBip370
PROPERTY ExtrasKeepId
VIEW View
CHECK_DEADLOCK FALSE
