SPECIFICATION Spec
CONSTANTS
  Alphabet <- Ops
  MaxOps = 3
INVARIANTS ParsesBack MinimalOk LastIsLast
CHECK_DEADLOCK FALSE
