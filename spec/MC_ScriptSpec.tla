---- MODULE MC_ScriptSpec ----
EXTENDS ScriptSpec
Nums == {0, 1, -1, 16, 17, -17, 127, 128, -127, -128, 255, 256, -255, -256, 32767, 32768, -32767, -32768, 8388607, 8388608, -8388607, -8388608,
         2147483647, -2147483647}
Ops == { [k |-> "opcode", b |-> x] : x \in {OP_DUP, OP_EQUAL, OP_NUMEQUAL, OP_CHECKSIG, OP_CHECKMULTISIG, OP_CHECKSIGFROMSTACK, OP_VERIFY, OP_RETURN, OP_HASH160} }
       \cup { [k |-> "int", v |-> v] : v \in {0, 1, -1, 16, 17, 128, -128, 32768} }
       \cup { [k |-> "scriptint", v |-> v] : v \in {0, 1, 16, -1, 255, -32768, 2147483647} }
       \cup { [k |-> "slice", n |-> x, cls |-> "other"] : x \in {0, 1, 75, 76, 255, 256, 65535, 65536} }
       \cup { [k |-> "slice", n |-> 1, cls |-> c] : c \in {"zero", "small", "neg1"} }
       \cup { [k |-> "verify"] }
ASSUME NumRoundTrip(Nums)
====
