SPECIFICATION Spec
CONSTANTS
  Alphabet <- Ops
  MaxOps = 4
INVARIANTS ParsesBack MinimalOk LastIsLast
CHECK_DEADLOCK FALSE
