---- MODULE MC_SerdeShape ----
EXTENDS SerdeShape, Json, IOUtils
VARIABLE x
Init == x = 0
Next == UNCHANGED x
ASSUME SelectionRecovers /\ PrintInjective /\ AllDuplicateFree
\* the model itself reports which shapes cannot round-trip in a self-describing format
DupShapes == { <<s[1], s[2]>> : s \in { y \in Shapes : ~NoDup(y[3]) } }
ASSUME PrintT(<<"DUPLICATE-KEY-SHAPES", DupShapes>>)
ASSUME ndJsonSerialize(IOEnv.OUT, SetToSeq({ [ty |-> s[1], variant |-> s[2], keys |-> s[3], dupfree |-> NoDup(s[3])] : s \in Shapes }))
ASSUME ndJsonSerialize(IOEnv.OUT_STR, SetToSeq({ [table |-> s[1], value |-> s[2], text |-> s[3]] : s \in Strings }))
ASSUME ndJsonSerialize(IOEnv.OUT_CONTENT, SetToSeq({ [ty |-> c[1][1], field |-> c[1][2], class |-> c[2]] : c \in ContentCases }))
====
