------------------------------ MODULE MC_SigMsg ------------------------------
(* State machine over (transaction shape, query): one step = touching one field.  TLC explores *)
(* every (shape, query, touch) and checks what the touch may and may not do to the answer.      *)
EXTENDS SigShapes
CONSTANT Tier
InVs  == {"plain", "pegin", "issue", "issueC", "reissue"}
OutVs == {"expl", "conf", "confnw"}
Txs == IF Tier = "quick"
       THEN { MkSigTx(iv, ov) : iv \in { <<"pegin", "issueC">>, <<"reissue", "plain">>, <<"issue">> }, ov \in { << >>, <<"expl", "conf">> } }
       ELSE { MkSigTx(iv, ov) : iv \in SeqsOf(InVs, 1, 2), ov \in SeqsOf(OutVs, 0, 2) }
VARIABLES st, q, d
vars == <<st, q, d>>
NoTouch == <<"none", 0, "none">>
Init == /\ st \in Txs
        /\ q \in Queries(st, EcdsaTypes, SchnorrTypes, {<<"all", TRUE, TRUE>>, <<"one", FALSE, FALSE>>})
        /\ d = NoTouch
TouchStep == /\ d = NoTouch
             /\ \E t \in Touches(st) : d' = t /\ st' = ApplyTouch(st, t)
             /\ UNCHANGED q
Next == TouchStep
Spec == Init /\ [][Next]_vars

Out(s) == Outcome(s.tx, s.prevs, q)
Structural == AcpIsolated(st.tx, st.prevs, q) /\ NoneHasNoOutputs(st.tx, st.prevs, q)
\* script and pegin witnesses are never signed; scriptSigs are never signed by segwit / taproot
WitnessUnsigned == [][ (d'[3] \in {"sw", "pw"}) => Out(st') = Out(st) ]_vars
ScriptSigUnsigned == [][ (d'[3] = "ss" /\ q.kind # "legacy") => Out(st') = Out(st) ]_vars
\* under ANYONECANPAY nothing about another input or its spent output matters
AcpIsolation == [][ (Acp(q.ht) /\ d'[1] \in {"in", "prev"} /\ d'[2] # q.i) => Out(st') = Out(st) ]_vars
\* NONE signs no output; SINGLE signs only the output with the input's index
NoneIgnoresOutputs == [][ (BaseOf(q.ht) = "NONE" /\ d'[1] = "out") => Out(st') = Out(st) ]_vars
SingleIgnoresOthers == [][ (BaseOf(q.ht) = "SINGLE" /\ d'[1] = "out" /\ d'[2] # q.i /\ ~(q.kind = "legacy" /\ d'[2] < q.i)) => Out(st') = Out(st) ]_vars
\* every non-witness field of the signed input itself is always committed (when there is an answer)
OwnInputCommitted ==
  [][ (Out(st).res = "ok" /\ d'[1] = "in" /\ d'[2] = q.i /\ d'[3] \in {"txid", "vout", "seq", "nonce", "entropy", "amount", "keys"})
      => Out(st') # Out(st) ]_vars
\* version and lock time are always committed
GlobalsCommitted == [][ (Out(st).res = "ok" /\ d'[1] = "tx") => Out(st') # Out(st) ]_vars
\* taproot commits to the spent output of the signed input, always
SpentCommitted == [][ (Out(st).res = "ok" /\ q.kind = "taproot" /\ d'[1] = "prev" /\ d'[2] = q.i) => Out(st') # Out(st) ]_vars
=============================================================================
