SPECIFICATION Spec
CONSTANTS
  RpLen = 100
  SpLen = 67
  Tier = "quick"
INVARIANT Structural
PROPERTIES WitnessUnsigned ScriptSigUnsigned AcpIsolation NoneIgnoresOutputs SingleIgnoresOthers OwnInputCommitted GlobalsCommitted SpentCommitted
CHECK_DEADLOCK FALSE
