SPECIFICATION Spec
CONSTANTS
  NIn = 2
  MaxSteps = 4
INVARIANTS AnswersFresh NoCacheOnWitness SegwitImpliesCommon OneSuffices
CHECK_DEADLOCK FALSE
