---- MODULE MC_SighashCache ----
EXTENDS SighashCache
====
