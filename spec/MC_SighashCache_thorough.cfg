SPECIFICATION Spec
CONSTANTS
  NIn = 3
  MaxSteps = 8
INVARIANTS AnswersFresh NoCacheOnWitness SegwitImpliesCommon OneSuffices
CHECK_DEADLOCK FALSE
