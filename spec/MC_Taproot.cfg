SPECIFICATION Spec
CONSTANTS
  MaxOps = 5
  MaxDepth = 3
  Kinds = {"leaf", "hidden"}
INVARIANTS BuilderIsReference PathsAndOrder Refusals PrefixClosed
CHECK_DEADLOCK FALSE
