---- MODULE MC_Taproot ----
EXTENDS Taproot
\* Huffman: every weight vector over 1..4 with up to 5 leaves
Pow2(n) == 2 ^ n
HuffOk(ws) ==
  LET ds == HuffDepths(ws)
      D(i) == (CHOOSE l \in ds : l[1] = i)[2]
      maxd == CHOOSE m \in { l[2] : l \in ds } : \A l \in ds : l[2] <= m
  IN /\ \A i, j \in DOMAIN ws : ws[i] > ws[j] => D(i) <= D(j)
     /\ (Len(ws) > 1 => LET s == [i \in DOMAIN ws |-> Pow2(maxd - D(i))] IN FoldLeft(LAMBDA a, b : a + b, 0, s) = Pow2(maxd))
ASSUME \A n \in 1..5 : \A ws \in [1..n -> 1..4] : HuffOk(ws)
====
