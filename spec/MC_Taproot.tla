---- MODULE MC_Taproot ----
EXTENDS Taproot
\* Huffman: every weight vector over 1..4, and over the boundary weights, with up to 5 leaves
Pow2(n) == 2 ^ n
HuffOk(ws) ==
  LET ds == HuffDepths(ws)
      D(i) == (CHOOSE l \in ds : l[1] = i)[2]
      maxd == CHOOSE m \in { l[2] : l \in ds } : \A l \in ds : l[2] <= m
  IN /\ \A i, j \in DOMAIN ws : ~WLe(ws[i], ws[j]) => D(i) <= D(j)
     /\ (Len(ws) > 1 => LET s == [i \in DOMAIN ws |-> Pow2(maxd - D(i))] IN FoldLeft(LAMBDA a, b : a + b, 0, s) = Pow2(maxd))
\* small weights, and weights at and next to u32::MAX (sums leave 32 bits), half of it, and 1
BigWeights == { WMax, << 65535, 65534 >>, << 32768, 0 >>, << 32767, 65535 >>, W(1) }
ASSUME \A n \in 1..5 : \A ws \in [1..n -> { W(k) : k \in 1..4 }] : HuffOk(ws)
ASSUME \A n \in 1..5 : \A ws \in [1..n -> BigWeights] : HuffOk(ws)
====
