SPECIFICATION Spec
CONSTANTS
  MaxOps = 6
  MaxDepth = 5
  Kinds = {"leaf", "hidden"}
INVARIANTS BuilderIsReference PathsAndOrder Refusals PrefixClosed
CHECK_DEADLOCK FALSE
