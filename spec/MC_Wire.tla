------------------------------ MODULE MC_Wire ------------------------------
(* WireSession: the API-call state machine over token strings.  A state is a  *)
(* token string reached from the encoding of a shape by <= MaxDepth mutations; *)
(* in every state the decoder's verdict must be canonical.                     *)
EXTENDS WireShapes

CONSTANTS MaxDepth, Tier

Bases == IF Tier = "quick"
         THEN FamIn({0, 253}, {{}, {"arp", "sw"}, {"krp", "pw"}}) \cup FamOut({22}, {{}, {"sp", "rp"}}) \cup FamCounts \cup FamNullIss
              \cup { tx \in FamWit : \E i \in 1..2 : tx.ins[i].wit.arp.len = 0 /\ tx.ins[i].wit.krp.len = 0 }
         ELSE FamIn({0, 1, 253}, InWitMasks) \cup FamOut({0, 22, 253}, OutWitMasks) \cup FamWit \cup FamCounts \cup FamNullIss

VARIABLES toks, depth, src
vars == <<toks, depth, src>>

Init == \E tx \in Bases :
          /\ toks \in {EncTx(tx)} \cup (IF HasWitness(tx) THEN {} ELSE {EmptyWitnessForm(tx)})
          /\ depth = 0
          /\ src = IF toks = EncTx(tx) /\ CanonTx(tx) THEN "canonical" ELSE "noncanonical"
Mutate == /\ depth < MaxDepth
          /\ toks' \in Mutants(toks)
          /\ depth' = depth + 1
          /\ src' = "mutant"
Next == Mutate
Spec == Init /\ [][Next]_vars

\* C01, decoder side: every accepted string re-encodes to itself
CanonInv == Canonical(toks)
\* C01, value side: encodings of canonical values are accepted completely; others (null issuance,
\* flag 1 over empty witnesses) are refused
BaseInv == /\ (src = "canonical" => LET r == DecTx(toks) IN r.ok /\ Len(r.rest) = 0 /\ EncTx(r.val) = toks)
           /\ (src = "noncanonical" => ~DecTx(toks).ok)
\* deserialize_partial: what was consumed re-encodes to exactly the consumed prefix
PartialInv == LET r == DecTx(toks) IN r.ok => EncTx(r.val) = SubSeq(toks, 1, Len(toks) - Len(r.rest))
\* headers: checked at constant level (no interleaving dimension)
ASSUME \A h \in FamHeader : HeaderRoundTrip(h) /\ ClearKeepsHash(h)
ASSUME \A h \in FamHeader : \A m \in Mutants(EncHeader(h)) : HeaderCanonical(m)
View == <<toks, depth>>
=============================================================================
