SPECIFICATION Spec
CONSTANTS
  RpLen = 100
  SpLen = 67
  MaxDepth = 1
  Tier = "thorough"
INVARIANTS CanonInv BaseInv PartialInv
CHECK_DEADLOCK FALSE
