----------------------------- MODULE MerkleDef -----------------------------
(***************************************************************************)
(* The definitional "fast merkle" (midstate) tree over symbolic nodes.      *)
(* Mid is a free constructor: equality of terms = same preimage tree.       *)
(***************************************************************************)
EXTENDS Naturals, Sequences

Leaf(i)   == <<"L", i>>
Mid(a, b) == <<"M", a, b>>      \* one compression of a||b from the initial state
ZERO      == <<"Z">>            \* the all-zero midstate

(***************************************************************************)
(* The definition the property states: pair adjacent nodes left to right,  *)
(* promote an unpaired last node unchanged, repeat until one node remains. *)
(***************************************************************************)
RECURSIVE PairUp(_)
PairUp(s) == IF Len(s) = 0 THEN << >>
             ELSE IF Len(s) = 1 THEN s
             ELSE << Mid(s[1], s[2]) >> \o PairUp(SubSeq(s, 3, Len(s)))

RECURSIVE Reduce(_)
Reduce(s) == IF Len(s) = 1 THEN s[1] ELSE Reduce(PairUp(s))

DefSeq(s) == IF Len(s) = 0 THEN ZERO ELSE Reduce(s)
Def(k)    == DefSeq([i \in 1..k |-> Leaf(i)])
\* complete subtree over leaves a+1 .. a+2^l
Block(a, l) == DefSeq([i \in 1..(2^l) |-> Leaf(a + i)])

=============================================================================
