-------------------------------- MODULE Pegin --------------------------------
(***************************************************************************)
(* Pegin witnesses (transaction.rs: PeginData::from_pegin_witness,          *)
(* to_pegin_witness, TxIn::pegin_prevout / pegin_data).  A pegin witness is  *)
(* a stack of six items: value (8 bytes LE), asset id (32), genesis hash     *)
(* (32), claim script, mainchain transaction, merkle-block proof (a block    *)
(* header of 80 bytes followed by the partial merkle tree); the referenced   *)
(* block is the double-SHA256 of those 80 bytes.                             *)
(* A witness shape is the sequence of item lengths.                          *)
(***************************************************************************)
EXTENDS Naturals, Sequences, FiniteSets, TLC

ParseOk(w) == /\ Len(w) = 6
              /\ w[1] = 8 /\ w[2] = 32 /\ w[3] = 32
              /\ w[6] >= 80
\* which error the parser reports first (the order of the checks in the code: size, proof length, value, asset, genesis)
FirstError(w) ==
  IF Len(w) # 6 THEN "size not 6"
  ELSE IF w[6] < 80 THEN "merkle proof too short"
  ELSE IF w[1] # 8 THEN "invalid value"
  ELSE IF w[2] # 32 THEN "invalid asset"
  ELSE IF w[3] # 32 THEN "invalid genesis hash"
  ELSE "ok"
\* the parsed data points back into the witness: items 4, 5, 6 verbatim; the block hash is over bytes 1..80 of item 6
Fields(w) == [claim_script |-> 4, tx |-> 5, merkle_proof |-> 6, header_bytes |-> 80]
\* TxIn level: data is offered only for inputs flagged as pegins
PeginData(isPegin, w) == isPegin /\ ParseOk(w)

Agree(S) == \A w \in S : ParseOk(w) <=> FirstError(w) = "ok"
=============================================================================
