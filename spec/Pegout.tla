------------------------------- MODULE Pegout -------------------------------
(***************************************************************************)
(* TxOut::is_null_data / is_pegout / pegout_data / is_fee (transaction.rs). *)
(* A script is a head ("return", "other" or "empty") followed by items:      *)
(*   <<"push", n>>   a data push of n bytes (n = 0 is OP_0)                   *)
(*   <<"num">>       OP_1NEGATE / OP_1..OP_16: numeric opcodes, not pushes     *)
(*   <<"reserved">>  OP_RESERVED (0x50): below OP_16, not a push               *)
(*   <<"op">>        an opcode above OP_16                                     *)
(*   <<"trunc">>     a push prefix whose data is cut off (last item only)      *)
(* The output's value is "explicit", "conf" or "null"; its asset likewise.     *)
(***************************************************************************)
EXTENDS Naturals, Sequences, FiniteSets, TLC

IsPush(it) == it[1] = "push"
Dataish(it) == it[1] \in {"push", "num", "reserved"}

\* nulldata: OP_RETURN followed only by pushes and opcodes up to OP_16, all of them well-formed
IsNullData(s) == s.head = "return" /\ \A k \in DOMAIN s.items : Dataish(s.items[k])

\* pegout: nulldata with an explicit value, a 32-byte first push, a non-empty second push, and nothing but pushes after them
PegoutOk(s, value) ==
  /\ IsNullData(s) /\ value = "explicit"
  /\ Len(s.items) >= 2
  /\ s.items[1] = <<"push", 32>>
  /\ IsPush(s.items[2]) /\ s.items[2][2] > 0
  /\ \A k \in DOMAIN s.items : IsPush(s.items[k])
\* what pegout_data reports: which items are the genesis hash, the destination script, and the extra data (in order)
PegoutData(s) == [genesis |-> 1, spk |-> 2, extra |-> [k \in 1..(Len(s.items) - 2) |-> k + 2]]

IsFee(s, value, asset) == s.head = "empty" /\ value = "explicit" /\ asset = "explicit"

\* the stated rules follow from the definition
PegoutIsNullData(S, V) == \A s \in S, v \in V : PegoutOk(s, v) => IsNullData(s)
RuleA(S, V) == \A s \in S, v \in V : PegoutOk(s, v) => (Len(s.items) >= 2 /\ s.items[1][2] = 32 /\ s.items[2][2] >= 1)
RuleB(S, V) == \A s \in S, v \in V : PegoutOk(s, v) => \A k \in DOMAIN s.items : s.items[k][1] \notin {"num", "reserved", "op", "trunc"}
\* a fee output is never a pegout and never nulldata (its script is empty)
FeeDisjoint(S, V) == \A s \in S, v \in V : IsFee(s, v, "explicit") => (~IsNullData(s) /\ ~PegoutOk(s, v))
=============================================================================
