----------------------------- MODULE PsetBlind -----------------------------
(***************************************************************************)
(* Multi-party PSET blinding (pset::blind_non_last / blind_last), C09.     *)
(*                                                                         *)
(* Algebra over Z_q (q = 5; only field laws are used).  A commitment to     *)
(* value v of an asset with blinders (abf, vbf) carries the blinding scalar  *)
(* r = v*abf + vbf; explicit amounts carry 0.  The transaction balances iff  *)
(* (per-asset values balance, given by construction, and)                    *)
(*        sum r(inputs) = sum r(outputs)      (mod q).                        *)
(* Each non-last blinder publishes the scalar by which ITS inputs and        *)
(* outputs are out of balance; the last blinder absorbs its own imbalance    *)
(* and all published scalars into the value blinder of its last output.      *)
(*                                                                          *)
(* One action per step of the code: NonLast(p), Hop (serialize+deserialize), *)
(* LastPrefix(p) (the last party blinding all but one of its outputs as a    *)
(* non-last blinder), LastFinal(p).                                          *)
(***************************************************************************)
EXTENDS Naturals, Sequences, FiniteSets, TLC, SequencesExt, FiniteSetsExt

CONSTANTS MaxParties, MaxOutsPerParty
Q == 5
Zq == 0..(Q - 1)
Add(a, b) == (a + b) % Q
Sub(a, b) == (a + Q - (b % Q)) % Q
Mul(a, b) == (a * b) % Q
R(v, abf, vbf) == Add(Mul(v, abf), vbf)

\* a scenario: per party the blinding scalar of its inputs (0 when all are explicit) and the values
\* (mod q) of the outputs assigned to it through blinder_index
Scenarios == UNION { [1..n -> [rin : Zq, outs : UNION { [1..k -> 1..2] : k \in 1..MaxOutsPerParty }]] : n \in 1..MaxParties }

VARIABLES sc,        \* the scenario
          lastp,     \* the party that will run blind_last
          ran,       \* parties that have completed their step
          rout,      \* sum of r over outputs blinded so far
          nblinded,  \* [party -> number of its outputs blinded so far]
          scalars,   \* bag of published scalars (a sequence; order and wire hops are irrelevant to its sum)
          phase,     \* "run" | "lastprefix" | "done"
          onwire     \* TRUE right after a Hop (the next blinder works on a deserialized PSET)
vars == <<sc, lastp, ran, rout, nblinded, scalars, phase, onwire>>

Parties == DOMAIN sc
RECURSIVE SumSeq(_)
SumSeq(s) == IF s = << >> THEN 0 ELSE Add(s[1], SumSeq(Tail(s)))

Init == /\ sc \in Scenarios
        /\ lastp \in DOMAIN sc
        /\ ran = {} /\ rout = 0
        /\ nblinded = [p \in DOMAIN sc |-> 0]
        /\ scalars = << >> /\ phase = "run" /\ onwire = TRUE

\* blinding k outputs of party p with arbitrary factors: returns the set of possible r-sums
\* (every element of Zq is reachable as soon as one vbf is free)
RSums(p, k) == IF k = 0 THEN {0} ELSE Zq

\* blind_non_last of party p: all of its outputs, factors arbitrary; publishes rin - rout_p
NonLast(p) ==
  /\ phase = "run" /\ p \in Parties \ ran /\ p # lastp
  /\ \E ro \in RSums(p, Len(sc[p].outs)) :
        /\ rout' = Add(rout, ro)
        /\ scalars' = Append(scalars, Sub(sc[p].rin, ro))
  /\ nblinded' = [nblinded EXCEPT ![p] = Len(sc[p].outs)]
  /\ ran' = ran \cup {p}
  /\ onwire' = FALSE
  /\ UNCHANGED <<sc, lastp, phase>>

\* serialize + deserialize between blinders: the scalar list travels as proprietary keys (a set:
\* order is lost; equal scalars would collapse, which has probability 2^-256 over the real field)
Hop == /\ phase = "run" /\ ~onwire
       /\ \E perm \in Permutations(DOMAIN scalars) : scalars' = [i \in DOMAIN scalars |-> scalars[perm[i]]]
       /\ onwire' = TRUE
       /\ UNCHANGED <<sc, lastp, ran, rout, nblinded, phase>>

\* blind_last, first half: all outputs of the last party but one are blinded as by a non-last
\* blinder (its own scalar is pushed, its inputs are then not counted again)
LastPrefix(p) ==
  /\ phase = "run" /\ p = lastp /\ ran = Parties \ {p} /\ Len(sc[p].outs) > 1
  /\ \E ro \in RSums(p, Len(sc[p].outs) - 1) :
        /\ rout' = Add(rout, ro)
        /\ scalars' = Append(scalars, Sub(sc[p].rin, ro))
  /\ nblinded' = [nblinded EXCEPT ![p] = Len(sc[p].outs) - 1]
  /\ phase' = "lastprefix"
  /\ UNCHANGED <<sc, lastp, ran, onwire>>

\* blind_last, second half: abf arbitrary, vbf solved:  v*abf + vbf = (own inputs, if not yet counted) + sum(scalars)
LastFinal(p) ==
  /\ p = lastp /\ ran = Parties \ {p}
  /\ \/ phase = "lastprefix"
     \/ phase = "run" /\ Len(sc[p].outs) = 1
  /\ LET own == IF phase = "lastprefix" THEN 0 ELSE sc[p].rin
         v == sc[p].outs[Len(sc[p].outs)]
     IN \E abf \in Zq :
          LET vbf == Sub(Add(own, SumSeq(scalars)), Mul(v, abf)) IN
          rout' = Add(rout, R(v, abf, vbf))
  /\ nblinded' = [nblinded EXCEPT ![p] = Len(sc[p].outs)]
  /\ scalars' = << >>
  /\ ran' = ran \cup {p}
  /\ phase' = "done"
  /\ UNCHANGED <<sc, lastp, onwire>>

Next == (\E p \in Parties : NonLast(p) \/ LastPrefix(p) \/ LastFinal(p)) \/ Hop
Spec == Init /\ [][Next]_vars /\ WF_vars(Next)

RinTotal == SumSeq([p \in DOMAIN sc |-> sc[p].rin])
\* C09: when the last blinder is done the transaction balances, every marked output is blinded, no scalar is left
Balanced == phase = "done" => /\ rout = RinTotal
                              /\ \A p \in Parties : nblinded[p] = Len(sc[p].outs)
                              /\ scalars = << >>
\* bookkeeping invariant carried between parties: published scalars = imbalance of the parties that ran
Carry == phase = "run" => Add(SumSeq(scalars), rout) = SumSeq([p \in DOMAIN sc |-> IF p \in ran THEN sc[p].rin ELSE 0])
ScalarCount == phase = "run" => Len(scalars) = Cardinality(ran)
Finishes == <>(phase = "done")
\* negative design fact (excluded by the property's quantifier): the last blinder must run last
LastRunsLast == [][phase' = "done" => ran = Parties \ {lastp}]_vars
View == <<sc, lastp, ran, rout, nblinded, SumSeq(scalars), Len(scalars), phase, onwire>>
=============================================================================
