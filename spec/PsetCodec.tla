----------------------------- MODULE PsetCodec -----------------------------
(***************************************************************************)
(* PSET key-value codec (BIP174 / BIP370 / BIP371 / Elements PSET), C07.   *)
(*                                                                         *)
(* A map on the wire is a sequence of pairs; a pair is identified by        *)
(* <<field, k>>: its field (wire type, and proprietary subtype under the     *)
(* "pset" prefix) and, for keyed fields, which key instance (k >= 1; k = 0    *)
(* for unkeyed fields).  A decoded map is a *set* of pairs; the canonical    *)
(* encoding orders them by a fixed rank.  The format's own acceptance rules: *)
(* keys unique within a map, mandatory fields, output consistency rules,     *)
(* hash preimages matching their key, declared counts = number of maps.      *)
(***************************************************************************)
EXTENDS Naturals, Sequences, FiniteSets, TLC, SequencesExt, FiniteSetsExt

NP == 255        \* "not proprietary"
\* <<field, wire type, pset proprietary subtype, keyed>> in canonical (emission) rank order
GlobalTable == <<
  <<"xpub", 1, NP, TRUE>>, <<"tx_version", 2, NP, FALSE>>, <<"fallback_locktime", 3, NP, FALSE>>, <<"input_count", 4, NP, FALSE>>,
  <<"output_count", 5, NP, FALSE>>, <<"tx_modifiable", 6, NP, FALSE>>, <<"scalars", 252, 0, TRUE>>,
  <<"elements_tx_modifiable_flag", 252, 1, FALSE>>, <<"version", 251, NP, FALSE>>, <<"proprietary", 252, 254, TRUE>>, <<"unknown", 127, NP, TRUE>> >>
InputTable == <<
  <<"non_witness_utxo", 0, NP, FALSE>>, <<"witness_utxo", 1, NP, FALSE>>, <<"partial_sigs", 2, NP, TRUE>>, <<"sighash_type", 3, NP, FALSE>>,
  <<"redeem_script", 4, NP, FALSE>>, <<"witness_script", 5, NP, FALSE>>, <<"bip32_derivation", 6, NP, TRUE>>, <<"final_script_sig", 7, NP, FALSE>>,
  <<"final_script_witness", 8, NP, FALSE>>, <<"ripemd160_preimages", 10, NP, TRUE>>, <<"sha256_preimages", 11, NP, TRUE>>,
  <<"hash160_preimages", 12, NP, TRUE>>, <<"hash256_preimages", 13, NP, TRUE>>, <<"previous_txid", 14, NP, FALSE>>, <<"output_index", 15, NP, FALSE>>,
  <<"sequence", 16, NP, FALSE>>, <<"required_time_locktime", 17, NP, FALSE>>, <<"required_height_locktime", 18, NP, FALSE>>,
  <<"tap_key_sig", 19, NP, FALSE>>, <<"tap_script_sigs", 20, NP, TRUE>>, <<"tap_scripts", 21, NP, TRUE>>, <<"tap_key_origins", 22, NP, TRUE>>,
  <<"tap_internal_key", 23, NP, FALSE>>, <<"tap_merkle_root", 24, NP, FALSE>>,
  <<"issuance_value_amount", 252, 0, FALSE>>, <<"issuance_value_comm", 252, 1, FALSE>>, <<"issuance_value_rangeproof", 252, 2, FALSE>>,
  <<"issuance_keys_rangeproof", 252, 3, FALSE>>, <<"pegin_tx", 252, 4, FALSE>>, <<"pegin_txout_proof", 252, 5, FALSE>>,
  <<"pegin_genesis_hash", 252, 6, FALSE>>, <<"pegin_claim_script", 252, 7, FALSE>>, <<"pegin_value", 252, 8, FALSE>>, <<"pegin_witness", 252, 9, FALSE>>,
  <<"issuance_inflation_keys", 252, 10, FALSE>>, <<"issuance_inflation_keys_comm", 252, 11, FALSE>>, <<"issuance_blinding_nonce", 252, 12, FALSE>>,
  <<"issuance_asset_entropy", 252, 13, FALSE>>, <<"in_utxo_rangeproof", 252, 14, FALSE>>, <<"in_issuance_blind_value_proof", 252, 15, FALSE>>,
  <<"in_issuance_blind_inflation_keys_proof", 252, 16, FALSE>>, <<"amount", 252, 17, FALSE>>, <<"blind_value_proof", 252, 18, FALSE>>,
  <<"asset", 252, 19, FALSE>>, <<"blind_asset_proof", 252, 20, FALSE>>, <<"blinded_issuance", 252, 21, FALSE>>,
  <<"proprietary", 252, 254, TRUE>>, <<"unknown", 110, NP, TRUE>> >>
OutputTable == <<
  <<"redeem_script", 0, NP, FALSE>>, <<"witness_script", 1, NP, FALSE>>, <<"bip32_derivation", 2, NP, TRUE>>, <<"tap_internal_key", 5, NP, FALSE>>,
  <<"tap_tree", 6, NP, FALSE>>, <<"tap_key_origins", 7, NP, TRUE>>, <<"amount", 3, NP, FALSE>>, <<"amount_comm", 252, 1, FALSE>>,
  <<"asset", 252, 2, FALSE>>, <<"asset_comm", 252, 3, FALSE>>, <<"script", 4, NP, FALSE>>, <<"value_rangeproof", 252, 4, FALSE>>,
  <<"asset_surjection_proof", 252, 5, FALSE>>, <<"blinding_key", 252, 6, FALSE>>, <<"ecdh_pubkey", 252, 7, FALSE>>, <<"blinder_index", 252, 8, FALSE>>,
  <<"blind_value_proof", 252, 9, FALSE>>, <<"blind_asset_proof", 252, 10, FALSE>>, <<"proprietary", 252, 254, TRUE>>, <<"unknown", 85, NP, TRUE>> >>

TableOf(kind) == CASE kind = "global" -> GlobalTable [] kind = "input" -> InputTable [] kind = "output" -> OutputTable
Fields(kind) == { TableOf(kind)[i][1] : i \in DOMAIN TableOf(kind) }
RankOf(kind, f) == CHOOSE i \in DOMAIN TableOf(kind) : TableOf(kind)[i][1] = f
IsKeyed(kind, f) == TableOf(kind)[RankOf(kind, f)][4]
Mandatory(kind) == CASE kind = "global" -> {"tx_version", "input_count", "output_count", "version"}
                     [] kind = "input" -> {"previous_txid", "output_index"}
                     [] kind = "output" -> {"script"}

\* a pair: <<field, k, tag>>; tag "ok" | "badhash" (a preimage pair whose value does not hash to its key)
P(f, k) == <<f, k, "ok">>
FieldsOf(val) == { p[1] : p \in val }
Has(val, f) == f \in FieldsOf(val)

\* the output map's own consistency rules
Marked(val)    == Has(val, "blinding_key")
Partially(val) == Marked(val) /\ (Has(val, "amount_comm") \/ Has(val, "asset_comm") \/ Has(val, "value_rangeproof") \/ Has(val, "asset_surjection_proof") \/ Has(val, "ecdh_pubkey"))
Fully(val)     == Marked(val) /\ Has(val, "amount_comm") /\ Has(val, "asset_comm") /\ Has(val, "value_rangeproof") /\ Has(val, "asset_surjection_proof") /\ Has(val, "ecdh_pubkey")
OutputRules(val) ==
  /\ (Has(val, "amount") \/ Has(val, "amount_comm"))
  /\ (Has(val, "asset") \/ Has(val, "asset_comm"))
  /\ (Has(val, "blinding_key") => Has(val, "blinder_index"))
  /\ ~(Marked(val) /\ Partially(val) /\ ~Fully(val))

WellFormed(kind, val) ==
  /\ \A p \in val : p[1] \in Fields(kind) /\ p[3] = "ok" /\ (IsKeyed(kind, p[1]) <=> p[2] >= 1)
  /\ Mandatory(kind) \subseteq FieldsOf(val)
  /\ (kind = "output" => OutputRules(val))

\* canonical encoding: by rank, then key instance
Before(kind, a, b) == RankOf(kind, a[1]) < RankOf(kind, b[1]) \/ (a[1] = b[1] /\ a[2] < b[2])
Enc(kind, val) == SortSeq(SetToSeq(val), LAMBDA a, b : Before(kind, a, b))

\* decoding a pair sequence
HasDup(s) == \E i, j \in DOMAIN s : i < j /\ s[i][1] = s[j][1] /\ s[i][2] = s[j][2]
Dec(kind, s) ==
  LET val == { <<s[i][1], s[i][2], "ok">> : i \in DOMAIN s } IN
  IF HasDup(s) THEN [ok |-> FALSE, why |-> "DuplicateKey", val |-> {}]
  ELSE IF \E i \in DOMAIN s : s[i][3] = "badhash" THEN [ok |-> FALSE, why |-> "InvalidPreimageHashPair", val |-> {}]
  ELSE IF ~(Mandatory(kind) \subseteq FieldsOf(val)) THEN [ok |-> FALSE, why |-> "MissingMandatory", val |-> {}]
  ELSE IF kind = "output" /\ ~OutputRules(val) THEN [ok |-> FALSE, why |-> "OutputRule", val |-> {}]
  ELSE [ok |-> TRUE, why |-> "", val |-> val]

---------------------------------------------------------------------------
(* Session machine over one map: the string is edited, the verdict must stay canonical *)
CONSTANTS Kind, Bases, MaxEdits
VARIABLES str, edits
vars == <<str, edits>>
Init == \E b \in Bases : str = Enc(Kind, b) /\ edits = 0
SwapAt(i)  == i < Len(str) /\ str' = [str EXCEPT ![i] = str[i + 1], ![i + 1] = str[i]]
DupAt(i)   == str' = Append(str, str[i])
DropAt(i)  == str' = [k \in 1..(Len(str) - 1) |-> IF k < i THEN str[k] ELSE str[k + 1]]
BadHash(i) == str[i][1] \in {"ripemd160_preimages", "sha256_preimages", "hash160_preimages", "hash256_preimages"} /\ str' = [str EXCEPT ![i][3] = "badhash"]
Next == /\ edits < MaxEdits /\ edits' = edits + 1
        /\ \E i \in DOMAIN str : SwapAt(i) \/ DupAt(i) \/ DropAt(i) \/ BadHash(i)
Spec == Init /\ [][Next]_vars

\* C07: well-formed values round-trip; whatever is accepted re-encodes to a canonical string that is a fixpoint
RoundTrip == \A b \in Bases : WellFormed(Kind, b) => LET d == Dec(Kind, Enc(Kind, b)) IN d.ok /\ d.val = b
Fixpoint == LET d == Dec(Kind, str) IN
            d.ok => LET c == Enc(Kind, d.val) IN Dec(Kind, c).ok /\ Dec(Kind, c).val = d.val /\ Enc(Kind, Dec(Kind, c).val) = c
\* order never matters; duplicates, bad preimages and missing mandatory fields are always refused
OrderInsensitive == LET d == Dec(Kind, str) IN d.ok => d.val = { <<str[i][1], str[i][2], "ok">> : i \in DOMAIN str }
Refusals == LET d == Dec(Kind, str) IN
            /\ (HasDup(str) => ~d.ok)
            /\ ((\E i \in DOMAIN str : str[i][3] = "badhash") => ~d.ok)
            /\ (~(Mandatory(Kind) \subseteq { str[i][1] : i \in DOMAIN str }) => ~d.ok)
---------------------------------------------------------------------------
(* Framing.  Every variable-length item, at every nesting level, is CompactSize(length) followed by the   *)
(* bytes; a pair is  CS(1 + |keydata|) type keydata CS(|value|) value.  The table lists the variable-      *)
(* length parts of the fields: <<kind, field, part, dim>> with dim = "len" (a byte length) or "count" (a   *)
(* number of items), and VLen / KLen give the value / key-data length as a function of the size n.         *)
CsLen(n) == IF n < 253 THEN 1 ELSE IF n < 65536 THEN 3 ELSE 5
PairLen(kl, vl) == CsLen(1 + kl) + 1 + kl + CsLen(vl) + vl
LenSizes   == {0, 1, 252, 253, 254, 65535, 65536}
CountSizes == {0, 1, 2, 252, 253, 254}
SizedParts == {
  <<"input", "redeem_script", "value", "len">>, <<"input", "witness_script", "value", "len">>, <<"input", "final_script_sig", "value", "len">>,
  <<"input", "final_script_witness", "item", "len">>, <<"input", "final_script_witness", "items", "count">>,
  <<"input", "partial_sigs", "value", "len">>, <<"input", "bip32_derivation", "path", "count">>,
  <<"input", "tap_key_origins", "leaves", "count">>, <<"input", "tap_key_origins", "path", "count">>, <<"input", "tap_scripts", "script", "len">>,
  <<"input", "sha256_preimages", "value", "len">>, <<"input", "pegin_txout_proof", "value", "len">>, <<"input", "pegin_claim_script", "value", "len">>,
  <<"input", "pegin_witness", "item", "len">>, <<"input", "pegin_witness", "items", "count">>, <<"input", "witness_utxo", "script", "len">>,
  <<"input", "proprietary", "prefix", "len">>, <<"input", "proprietary", "key", "len">>, <<"input", "proprietary", "value", "len">>,
  <<"input", "unknown", "key", "len">>, <<"input", "unknown", "value", "len">>,
  <<"output", "redeem_script", "value", "len">>, <<"output", "witness_script", "value", "len">>, <<"output", "script", "value", "len">>,
  <<"output", "tap_tree", "leaf", "len">>, <<"output", "tap_tree", "leaves", "count">>, <<"output", "bip32_derivation", "path", "count">>,
  <<"output", "tap_key_origins", "leaves", "count">>, <<"output", "proprietary", "value", "len">>, <<"output", "unknown", "key", "len">>,
  <<"global", "scalars", "instances", "count">>, <<"global", "xpub", "path", "count">>, <<"global", "proprietary", "prefix", "len">>,
  <<"global", "proprietary", "value", "len">>, <<"global", "unknown", "key", "len">>, <<"global", "unknown", "value", "len">> }
\* length of the value on the wire (NoExpect where a field-specific value codec decides)
NoExpect == 1000000000
VLen(part, n) ==
  CASE part[3] = "value" -> n
    [] part[3] = "item"   -> CsLen(1) + CsLen(n) + n                     \* a stack of one item
    [] part[3] = "items"  -> CsLen(n) + 2 * n                            \* a stack of n one-byte items
    [] part[2] = "bip32_derivation" -> 4 + 4 * n                          \* fingerprint + path
    [] part[2] = "tap_key_origins" /\ part[3] = "leaves" -> CsLen(n) + 32 * n + 4 + 4
    [] part[2] = "tap_key_origins" /\ part[3] = "path"   -> CsLen(1) + 32 + 4 + 4 * n
    [] part[2] = "tap_scripts" -> n + 1                                  \* script, leaf version
    [] part[2] = "witness_utxo" -> 33 + 9 + 1 + CsLen(n) + n              \* explicit asset, explicit value, null nonce, script
    [] part[2] = "tap_tree" /\ part[3] = "leaf" -> 1 + 1 + CsLen(n) + n  \* depth, version, script
    [] part[2] = "xpub" -> 4 + 4 * n
    [] OTHER -> NoExpect
SizesOf(part) == IF part[4] = "len" THEN (IF part[2] = "partial_sigs" THEN LenSizes \ {0} ELSE LenSizes)
                 ELSE IF part[2] = "tap_tree" THEN {1, 2, 3, 128, 129}           \* leaves of a comb: depth grows with the count, 128 is the limit
                 ELSE IF part[2] = "xpub" THEN {0, 1, 2, 254, 255}               \* an xpub's depth is one byte
                 ELSE CountSizes
SizedCases == UNION { { [kind |-> p[1], field |-> p[2], part |-> p[3], n |-> n, vlen |-> VLen(p, n)] : n \in SizesOf(p) } : p \in SizedParts }
\* the framing is self-delimiting at every boundary: the length prefix determines the length
FramingInjective == \A a, b \in LenSizes : a # b => PairLen(0, a) # PairLen(0, b) /\ PairLen(a, 0) # PairLen(b, 0)
=============================================================================
