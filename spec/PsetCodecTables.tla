---- MODULE PsetCodecTables ----
(* Optional fields per map kind as the PsetCodec tables list them (names only), for modules that *)
(* do not need the codec machine.                                                                 *)
GlobalOpt == {"fallback_locktime", "tx_modifiable", "xpub", "scalars", "elements_tx_modifiable_flag", "proprietary", "unknown"}
InputOpt == {"non_witness_utxo", "witness_utxo", "partial_sigs", "sighash_type", "redeem_script", "witness_script", "bip32_derivation",
  "final_script_sig", "final_script_witness", "ripemd160_preimages", "sha256_preimages", "hash160_preimages", "hash256_preimages",
  "sequence", "required_time_locktime", "required_height_locktime", "tap_key_sig", "tap_script_sigs", "tap_scripts", "tap_key_origins",
  "tap_internal_key", "tap_merkle_root", "issuance_value_amount", "issuance_value_comm", "issuance_value_rangeproof",
  "issuance_keys_rangeproof", "pegin_tx", "pegin_txout_proof", "pegin_genesis_hash", "pegin_claim_script", "pegin_value", "pegin_witness",
  "issuance_inflation_keys", "issuance_inflation_keys_comm", "issuance_blinding_nonce", "issuance_asset_entropy", "in_utxo_rangeproof",
  "in_issuance_blind_value_proof", "in_issuance_blind_inflation_keys_proof", "amount", "blind_value_proof", "asset", "blind_asset_proof",
  "blinded_issuance", "proprietary", "unknown"}
OutputOpt == {"redeem_script", "witness_script", "bip32_derivation", "tap_internal_key", "tap_tree", "tap_key_origins", "value_rangeproof",
  "asset_surjection_proof", "ecdh_pubkey", "blind_value_proof", "blind_asset_proof", "proprietary", "unknown"}
====
