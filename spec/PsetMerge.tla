----------------------------- MODULE PsetMerge -----------------------------
(***************************************************************************)
(* PartiallySignedTransaction::merge (BIP174 Combiner), property C14.      *)
(*                                                                         *)
(* A PSET is a set of facts <<position, field, key>>: position "g", "i1",   *)
(* "i2", "o1", "o2"; field from the codec tables; key 0 for unkeyed fields, *)
(* >= 1 for instances of keyed ones.  Descendants of a common ancestor add   *)
(* facts; identical additions carry identical contents (same fact).          *)
(* Merge is the union of facts, except the documented reconciliations:       *)
(* tx-modifiable flags OR-ed, version max, scalar lists united, global xpub  *)
(* key sources reconciled by the suffix rule or reported as a conflict.      *)
(***************************************************************************)
EXTENDS Naturals, Sequences, FiniteSets, TLC, SequencesExt

CONSTANTS Additions,      \* set of facts a descendant may add
          MaxAdds, NDesc

Ancestor == {}
Descendants == { a \in SUBSET Additions : Cardinality(a) <= MaxAdds }
Merge(a, b) == a \cup b

VARIABLES fam, acc, merged, order
vars == <<fam, acc, merged, order>>
\* a family of descendants is merged one by one into an accumulator, in any order
Init == /\ fam \in [1..NDesc -> Descendants]
        /\ \E first \in 1..NDesc : acc = fam[first] /\ merged = {first} /\ order = <<first>>
MergeNext == \E k \in (1..NDesc) \ merged :
               /\ acc' = Merge(acc, fam[k])
               /\ merged' = merged \cup {k}
               /\ order' = Append(order, k)
               /\ UNCHANGED fam
Spec == Init /\ [][MergeNext]_vars

AllFacts == UNION { fam[k] : k \in 1..NDesc }
\* C14: nothing is lost, nothing is invented, the result does not depend on the order
KeepsAll   == \A k \in merged : fam[k] \subseteq acc
NoInvention == acc \subseteq AllFacts
OrderFree  == merged = 1..NDesc => acc = AllFacts
Commutes   == \A a, b \in Descendants : Merge(a, b) = Merge(b, a)
Associates == \A a, b, c \in { fam[k] : k \in 1..NDesc } : Merge(Merge(a, b), c) = Merge(a, Merge(b, c))

---------------------------------------------------------------------------
(* Global xpub key sources: <<fingerprint, path>>, path a sequence of child numbers *)
KeySourceMerge(a, b) ==
  IF a = b THEN <<"ok", a>>
  ELSE IF IsStrictSuffix(a[2], b[2]) THEN <<"ok", b>>        \* keep the longer derivation
  ELSE IF IsStrictSuffix(b[2], a[2]) THEN <<"ok", a>>
  ELSE <<"conflict">>                                        \* equal paths with different fingerprints, unrelated paths
\* child numbers: n is the normal child n, 100 + n the hardened child n' (different children: a path ending in 1, 2 is not a suffix of
\* one ending in 1', 2)
KeySources == { <<f, p>> : f \in {"F1", "F2"}, p \in { << >>, <<1>>, <<2>>, <<1, 2>>, <<2, 1>>, <<3, 1, 2>>, <<1, 2, 3>>, <<101, 2>>, <<3, 101, 2>>, <<102>>, <<103, 101, 102>> } }
KeySourceCommutes == \A a, b \in KeySources : KeySourceMerge(a, b) = KeySourceMerge(b, a)
KeySourceKeepsLongest == \A a, b \in KeySources : KeySourceMerge(a, b)[1] = "ok" => Len(KeySourceMerge(a, b)[2][2]) >= Len(a[2]) /\ Len(KeySourceMerge(a, b)[2][2]) >= Len(b[2])
=============================================================================
