------------------------------ MODULE PsetOps ------------------------------
(***************************************************************************)
(* Structural operations on a PSET (src/pset/mod.rs): add / insert / remove *)
(* of inputs and outputs, the global input / output counts they maintain,   *)
(* and the blinder index of outputs (an index into the input list).         *)
(*                                                                         *)
(* Inputs are abstract identities (the harness gives each a distinct         *)
(* previous output).  An output carries `bi`: its blinder index (or None),   *)
(* and the history value `owner`: the identity of the input that index named *)
(* when the output was added.  The specification models what the code does:  *)
(* insert_input re-points blinder indices at or after the position;          *)
(* remove_input does NOT re-point them (named deviation: RemoveInput marks   *)
(* the affected outputs `stale`).                                            *)
(***************************************************************************)
EXTENDS Naturals, Sequences, FiniteSets, TLC, SequencesExt

None == 1000000          \* "no blinder index" / "no owner"
InsAt0(s, pos, x) == SubSeq(s, 1, pos) \o << x >> \o SubSeq(s, pos + 1, Len(s))      \* pos is 0-based: new element ends up at index pos
RemAt0(s, idx) == SubSeq(s, 1, idx) \o SubSeq(s, idx + 2, Len(s))                   \* idx 0-based

\* state: [ins : Seq(id), outs : Seq([id, bi, owner, stale]), icount, ocount, next]
S0 == [ins |-> << >>, outs |-> << >>, icount |-> 0, ocount |-> 0, next |-> 1]

Bump(out, pos) == IF out.bi # None /\ out.bi >= pos THEN [out EXCEPT !.bi = out.bi + 1] ELSE out
Stale(out, idx) == IF out.bi # None /\ out.bi >= idx THEN [out EXCEPT !.stale = TRUE] ELSE out
OwnerAt(s, bi) == IF bi # None /\ bi < Len(s.ins) THEN s.ins[bi + 1] ELSE None

\* op: [k, pos, bi]
ApplyOp(s, op) ==
  CASE op.k = "add_input" ->
         [s EXCEPT !.ins = Append(s.ins, s.next), !.icount = s.icount + 1, !.next = s.next + 1]
    [] op.k = "insert_input" ->          \* documented: panics if pos > len (never issued)
         [s EXCEPT !.ins = InsAt0(s.ins, op.pos, s.next), !.icount = s.icount + 1, !.next = s.next + 1,
                   !.outs = [k \in DOMAIN s.outs |-> Bump(s.outs[k], op.pos)]]
    [] op.k = "remove_input" ->
         IF op.pos < Len(s.ins)
         THEN [s EXCEPT !.ins = RemAt0(s.ins, op.pos), !.icount = s.icount - 1,
                        !.outs = [k \in DOMAIN s.outs |-> Stale(s.outs[k], op.pos)]]
         ELSE s
    [] op.k = "add_output" ->
         [s EXCEPT !.outs = Append(s.outs, [id |-> s.next, bi |-> op.bi, owner |-> OwnerAt(s, op.bi), stale |-> FALSE]),
                   !.ocount = s.ocount + 1, !.next = s.next + 1]
    [] op.k = "insert_output" ->
         [s EXCEPT !.outs = InsAt0(s.outs, op.pos, [id |-> s.next, bi |-> op.bi, owner |-> OwnerAt(s, op.bi), stale |-> FALSE]),
                   !.ocount = s.ocount + 1, !.next = s.next + 1]
    [] op.k = "remove_output" ->
         IF op.pos < Len(s.outs) THEN [s EXCEPT !.outs = RemAt0(s.outs, op.pos), !.ocount = s.ocount - 1] ELSE s
\* what the call returns: the removed element's identity, None for a refused removal, 0 for the unit-returning calls
Returns(s, op) ==
  CASE op.k = "remove_input"  -> IF op.pos < Len(s.ins) THEN s.ins[op.pos + 1] ELSE None
    [] op.k = "remove_output" -> IF op.pos < Len(s.outs) THEN s.outs[op.pos + 1].id ELSE None
    [] OTHER -> 0

OpsFor(s, MaxLen) ==
  { [k |-> "add_input", pos |-> 0, bi |-> None] : x \in IF Len(s.ins) < MaxLen THEN {1} ELSE {} }
  \cup { [k |-> "insert_input", pos |-> p, bi |-> None] : p \in IF Len(s.ins) < MaxLen THEN 0..Len(s.ins) ELSE {} }
  \cup { [k |-> "remove_input", pos |-> p, bi |-> None] : p \in 0..Len(s.ins) }
  \cup { [k |-> "add_output", pos |-> 0, bi |-> b] : b \in IF Len(s.outs) < MaxLen THEN (0..Len(s.ins)) \cup {None} ELSE {} }
  \cup { [k |-> "insert_output", pos |-> p, bi |-> b] : p \in IF Len(s.outs) < MaxLen THEN 0..Len(s.outs) ELSE {}, b \in (0..Len(s.ins)) \cup {None} }
  \cup { [k |-> "remove_output", pos |-> p, bi |-> None] : p \in 0..Len(s.outs) }

---------------------------------------------------------------------------
CONSTANTS MaxLen, MaxOps
VARIABLES st, nops
vars == <<st, nops>>
Init == st = S0 /\ nops = 0
Next == nops < MaxOps /\ nops' = nops + 1 /\ \E op \in OpsFor(st, MaxLen) : st' = ApplyOp(st, op)
Spec == Init /\ [][Next]_vars

\* the global counts always equal the list lengths: sanity_check() is Ok after every operation
CountsAgree == st.icount = Len(st.ins) /\ st.ocount = Len(st.outs)
\* identities are never duplicated or invented
IdsDistinct == Cardinality({ st.ins[k] : k \in DOMAIN st.ins } \cup { st.outs[k].id : k \in DOMAIN st.outs }) = Len(st.ins) + Len(st.outs)
\* as long as no removal has touched it, an output's blinder index names the input it named when the output was added
OwnerStable == \A k \in DOMAIN st.outs : (~st.outs[k].stale /\ st.outs[k].owner # None) => OwnerAt(st, st.outs[k].bi) = st.outs[k].owner
\* the deviation is real: some reachable state has a stale output whose index names another input (TLC reports it when asked to refute)
NoStaleMisdirection == \A k \in DOMAIN st.outs : st.outs[k].owner # None => OwnerAt(st, st.outs[k].bi) = st.outs[k].owner
=============================================================================
