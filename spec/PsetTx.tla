------------------------------- MODULE PsetTx -------------------------------
(* C08, first part: Transaction -> PSET (from_tx) -> Transaction (extract_tx) at shape level. *)
(* The PSET input stores the outpoint index with the pegin/issuance flag bits (Wire!VoutHex), *)
(* keeps the pegin witness only for pegins and the issuance data/proofs only for issuances;   *)
(* the PSET output stores the nonce as an ECDH public key.                                     *)
EXTENDS WireShapes

WellFormedIn(t) == /\ (Len(t.wit.pw) > 0 => t.pegin)
                   /\ ((t.wit.arp.len > 0 \/ t.wit.krp.len > 0) => t.iss.has)
WellFormedOut(o) == o.asset.k # "null" /\ o.value.k # "null"
WellFormedTx(tx) == /\ CanonTx(tx)
                    /\ \A i \in DOMAIN tx.ins : WellFormedIn(tx.ins[i])
                    /\ \A j \in DOMAIN tx.outs : WellFormedOut(tx.outs[j])
\* the PSET format has no field for an explicit (non-point) nonce
HasExplicitNonce(tx) == \E j \in DOMAIN tx.outs : tx.outs[j].nonce.k = "expl"

FromTxIn(t) ==
  [txid |-> t.txid, idx |-> VoutHex(t.vout, t.pegin, t.iss.has), seq |-> t.seq, fss |-> t.ss, fsw |-> t.wit.sw,
   pw  |-> IF t.pegin THEN <<"some", t.wit.pw>> ELSE <<"none">>,
   iss |-> IF t.iss.has THEN <<"some", t.iss, t.wit.arp, t.wit.krp>> ELSE <<"none">>]
ExtractIn(p) ==
  LET o == VoutOfHex(p.idx) IN
  [txid |-> p.txid, vout |-> o.cls, pegin |-> o.peg, ss |-> p.fss, seq |-> p.seq,
   iss |-> IF p.iss[1] = "some" THEN p.iss[2] ELSE NoIss,
   wit |-> [arp |-> IF p.iss[1] = "some" THEN p.iss[3] ELSE B("", 0),
            krp |-> IF p.iss[1] = "some" THEN p.iss[4] ELSE B("", 0),
            sw |-> p.fsw,
            pw |-> IF p.pw[1] = "some" THEN p.pw[2] ELSE << >>]]
FromTxOut(o) == [asset |-> o.asset, value |-> o.value, ecdh |-> o.nonce, spk |-> o.spk, sp |-> o.wit.sp, rp |-> o.wit.rp]
ExtractOut(q) == [asset |-> q.asset, value |-> q.value, nonce |-> q.ecdh, spk |-> q.spk, wit |-> [sp |-> q.sp, rp |-> q.rp]]

FromTx(tx) == [version |-> tx.version, fallback |-> tx.lock,
               ins |-> [i \in DOMAIN tx.ins |-> FromTxIn(tx.ins[i])], outs |-> [j \in DOMAIN tx.outs |-> FromTxOut(tx.outs[j])]]
\* no input carries a required lock time after from_tx, so BIP370 selects the fallback
Extract(p) == [version |-> p.version, lock |-> p.fallback,
               ins |-> [i \in DOMAIN p.ins |-> ExtractIn(p.ins[i])], outs |-> [j \in DOMAIN p.outs |-> ExtractOut(p.outs[j])]]

ViewsAgree(tx) == WellFormedTx(tx) => NormTx(Extract(FromTx(tx))) = NormTx(tx)
\* what is lost on ill-formed inputs (documented by the quantifier): a pegin witness on a non-pegin, issuance proofs without issuance
LossOnlyIfIllFormed(tx) == NormTx(Extract(FromTx(tx))) # NormTx(tx) => ~WellFormedTx(tx)
=============================================================================
