------------------------------ MODULE PsetView ------------------------------
(***************************************************************************)
(* PSET <-> transaction views (src/pset/mod.rs), property C08:             *)
(*   - BIP370 lock-time selection (declarative definition vs. the lattice   *)
(*     fold the code performs input by input),                              *)
(*   - the unique id under updater / signer / finalizer histories.          *)
(*                                                                         *)
(* A PSET is abstract: per input the required lock times and the set of     *)
(* non-identifying fields that have been filled in; per output its amount   *)
(* class and filled-in fields; the fallback lock time.                      *)
(***************************************************************************)
EXTENDS Naturals, Sequences, FiniteSets, TLC

CONSTANTS NIn, NOut, MaxSteps

TVals == {"tlo", "thi"}              \* time-based required lock times, tlo < thi
HVals == {"hlo", "hhi"}              \* height-based, hlo < hhi
Rank(v) == IF v \in {"tlo", "hlo"} THEN 1 ELSE 2
None == "none"
Fallbacks == {"absent", "fh", "ft"}  \* absent / a height / a time

\* fields whose presence must not influence the unique id
InExtras  == {"sequence", "sequence_final", "partial_sig", "tap_key_sig", "tap_script_sig", "final_script_sig",
              "final_script_witness", "redeem_script", "witness_script", "bip32_derivation",
              "tap_key_origin", "witness_utxo", "sighash_type", "issuance_value_proof"}
OutExtras == {"bip32_derivation", "value_proof", "asset_proof", "tap_internal_key", "redeem_script"}
\* explicit values stored next to their commitments (with the proofs that tie them together): the first input carries a blinded
\* issuance, and one further output (position NOut + 1) carries amount and asset commitments; the transaction shows the commitments
ExplIn  == {"issuance_value_explicit", "issuance_keys_explicit"}
ExplOut == {"amount_explicit", "asset_explicit"}

---------------------------------------------------------------------------
(* BIP370, declaratively *)
Constrained(ins) == { i \in DOMAIN ins : ins[i].rt # None \/ ins[i].rh # None }
MaxOf(S) == CHOOSE v \in S : \A u \in S : Rank(u) <= Rank(v)
Bip370(ins, fb) ==
  LET C == Constrained(ins)
      allH == \A i \in C : ins[i].rh # None
      allT == \A i \in C : ins[i].rt # None
  IN IF C = {} THEN <<"fallback", fb>>
     ELSE IF allH THEN <<"height", MaxOf({ ins[i].rh : i \in C })>>     \* height preferred when both possible
     ELSE IF allT THEN <<"time", MaxOf({ ins[i].rt : i \in C })>>
     ELSE <<"error", None>>

(* the code's lattice fold: Unconstrained < Minimum(x) < Disallowed, per kind *)
U == <<"U">>
Dis == <<"D">>
Min(v) == <<"M", v>>
Join(a, b) == IF a = Dis \/ b = Dis THEN Dis
              ELSE IF a = U THEN b ELSE IF b = U THEN a
              ELSE IF Rank(a[2]) >= Rank(b[2]) THEN a ELSE b
FoldStep(st, r) ==
  CASE r.rt # None /\ r.rh # None -> [t |-> Join(st.t, Min(r.rt)), h |-> Join(st.h, Min(r.rh))]
    [] r.rt # None /\ r.rh = None -> [t |-> Join(st.t, Min(r.rt)), h |-> Dis]
    [] r.rt = None /\ r.rh # None -> [t |-> Dis, h |-> Join(st.h, Min(r.rh))]
    [] OTHER -> st
RECURSIVE Fold(_, _, _)
Fold(st, ins, i) == IF i > Len(ins) THEN st ELSE Fold(FoldStep(st, ins[i]), ins, i + 1)
Select(st, fb) ==
  IF st.t = U /\ st.h = U THEN <<"fallback", fb>>
  ELSE IF st.h[1] = "M" THEN <<"height", st.h[2]>>
  ELSE IF st.t[1] = "M" THEN <<"time", st.t[2]>>
  ELSE <<"error", None>>
LockTime(ins, fb) == Select(Fold([t |-> U, h |-> U], ins, 1), fb)

---------------------------------------------------------------------------
(* History machine *)
\* an action is a record; Apply gives its effect on the abstract PSET p = [ins, outs, fb]
Actions ==
  [op : {"in_field"}, pos : 1..NIn, f : InExtras] \cup
  [op : {"out_field"}, pos : 1..NOut, f : OutExtras] \cup
  [op : {"req_time"}, pos : 1..NIn, f : TVals] \cup
  [op : {"req_height"}, pos : 1..NIn, f : HVals] \cup
  [op : {"fallback"}, pos : {0}, f : Fallbacks] \cup
  [op : {"amount"}, pos : 1..NOut, f : {"a2"}] \cup
  [op : {"in_field"}, pos : {1}, f : ExplIn] \cup
  [op : {"commit_out_field"}, pos : {NOut + 1}, f : ExplOut]
IsExtra(a) == a.op \in {"in_field", "out_field", "commit_out_field"}

Apply(p, a) ==
  CASE a.op = "in_field"   -> [p EXCEPT !.ins[a.pos].extras = @ \cup {a.f}]
    [] a.op = "out_field"  -> [p EXCEPT !.outs[a.pos].extras = @ \cup {a.f}]
    [] a.op = "commit_out_field" -> [p EXCEPT !.cx = @ \cup {a.f}]
    [] a.op = "req_time"   -> [p EXCEPT !.ins[a.pos].rt = a.f]
    [] a.op = "req_height" -> [p EXCEPT !.ins[a.pos].rh = a.f]
    [] a.op = "fallback"   -> [p EXCEPT !.fb = a.f]
    [] a.op = "amount"     -> [p EXCEPT !.outs[a.pos].amt = a.f]

\* what the unique id is a function of (prevouts and scripts are fixed in the harness)
IdData(p) == [nin |-> Len(p.ins), amounts |-> [j \in DOMAIN p.outs |-> p.outs[j].amt], lock |-> LockTime(p.ins, p.fb)]

P0 == [ins |-> [i \in 1..NIn |-> [rt |-> None, rh |-> None, extras |-> {}]],
       outs |-> [j \in 1..NOut |-> [amt |-> "a1", extras |-> {}]],
       cx |-> {}, fb |-> "absent"]

VARIABLES pset, steps
vars == <<pset, steps>>
Init == pset = P0 /\ steps = 0
Do(a) == steps < MaxSteps /\ pset' = Apply(pset, a) /\ steps' = steps + 1
Next == \E a \in Actions : Do(a)
Spec == Init /\ [][Next]_vars

\* C08: updater / signer / finalizer additions never change the unique id
ExtrasKeepId == [][ \A a \in Actions : (IsExtra(a) /\ pset' = Apply(pset, a)) => IdData(pset') = IdData(pset) ]_vars
\* the fold the code performs equals the declarative BIP370 rule in every reachable state
FoldIsBip370 == LockTime(pset.ins, pset.fb) = Bip370(pset.ins, pset.fb)
\* an error never appears or disappears through non-identifying additions
View == pset
=============================================================================
