----------------------------- MODULE ScriptSpec -----------------------------
(***************************************************************************)
(* script::Builder, the instruction iterator, script numbers and the        *)
(* standard output templates (src/script.rs, Address::from_script), C16.    *)
(*                                                                         *)
(* A script is a sequence of items: <<"b", byte>> (an opcode or a length     *)
(* byte) and <<"run", n, cls>> (n data bytes whose first byte has class      *)
(* cls: "zero" 0x00, "small" 0x01..0x10, "neg1" 0x81, "other").  The builder *)
(* is the register machine it is (bytes + last-opcode register).            *)
(***************************************************************************)
EXTENDS Integers, Sequences, FiniteSets, TLC, SequencesExt

B(x) == <<"b", x>>
Run(n, cls) == <<"run", n, cls>>
\* opcodes used by name
OP0 == 0  OP_PUSHDATA1 == 76  OP_PUSHDATA2 == 77  OP_PUSHDATA4 == 78  OP_1NEGATE == 79  OP_1 == 81  OP_16 == 96
OP_VERIFY == 105  OP_RETURN == 106  OP_DUP == 118  OP_EQUAL == 135  OP_EQUALVERIFY == 136  OP_NUMEQUAL == 156
OP_HASH160 == 169  OP_CHECKSIG == 172  OP_CHECKMULTISIG == 174  OP_CHECKSIGFROMSTACK == 193
Foldable == {OP_EQUAL, OP_NUMEQUAL, OP_CHECKSIG, OP_CHECKMULTISIG, OP_CHECKSIGFROMSTACK}     \* X -> XVERIFY = X + 1

\* minimal push prefix for n data bytes
PushPrefix(n) ==
  IF n < 76 THEN << B(n) >>
  ELSE IF n < 256 THEN << B(OP_PUSHDATA1), B(n) >>
  ELSE IF n < 65536 THEN << B(OP_PUSHDATA2), B(n % 256), B(n \div 256) >>
  ELSE << B(OP_PUSHDATA4), B(n % 256), B((n \div 256) % 256), B((n \div 65536) % 256), B(n \div 16777216) >>
EncPush(n, cls) == PushPrefix(n) \o (IF n > 0 THEN << Run(n, cls) >> ELSE << >>)

---------------------------------------------------------------------------
(* Script numbers: minimal little-endian sign-magnitude *)
Abs(v) == IF v < 0 THEN 0 - v ELSE v
RECURSIVE MagBytes(_)
MagBytes(a) == IF a = 0 THEN << >> ELSE << a % 256 >> \o MagBytes(a \div 256)
ScriptNumBytes(v) ==
  IF v = 0 THEN << >>
  ELSE LET m == MagBytes(Abs(v))  top == m[Len(m)] IN
       IF top >= 128 THEN Append(m, IF v < 0 THEN 128 ELSE 0)
       ELSE IF v < 0 THEN [m EXCEPT ![Len(m)] = top + 128] ELSE m
RECURSIVE LeValue(_, _)
LeValue(bs, i) == IF i > Len(bs) THEN 0 ELSE bs[i] * (256 ^ (i - 1)) + LeValue(bs, i + 1)
ReadScriptNum(bs) ==
  IF Len(bs) = 0 THEN 0
  ELSE LET top == bs[Len(bs)] IN
       IF top >= 128 THEN 0 - LeValue([bs EXCEPT ![Len(bs)] = top - 128], 1) ELSE LeValue(bs, 1)
FirstClass(bs) == IF Len(bs) = 0 THEN "other" ELSE IF bs[1] = 0 THEN "zero" ELSE IF bs[1] <= 16 THEN "small" ELSE IF bs[1] = 129 THEN "neg1" ELSE "other"

---------------------------------------------------------------------------
(* Builder operations and what they are meant to produce *)
\* op: [k: "opcode", b] | [k: "int", v] | [k: "scriptint", v] | [k: "slice", n, cls] | [k: "verify"]
IntIsSmall(v) == v = -1 \/ (v >= 0 /\ v <= 16)
IntOpcode(v) == IF v = -1 THEN OP_1NEGATE ELSE IF v = 0 THEN OP0 ELSE OP_1 + v - 1
Apply(st, op) ==      \* st = [items, last, intended] ; last = -1 when no opcode is remembered
  CASE op.k = "opcode" -> [items |-> Append(st.items, B(op.b)), last |-> op.b, intended |-> Append(st.intended, <<"op", op.b>>)]
    [] op.k = "int" /\ IntIsSmall(op.v) ->
         [items |-> Append(st.items, B(IntOpcode(op.v))), last |-> IntOpcode(op.v),
          intended |-> Append(st.intended, IF op.v = 0 THEN <<"push", 0, "other">> ELSE <<"op", IntOpcode(op.v)>>)]
    [] op.k \in {"int", "scriptint"} ->
         LET bs == ScriptNumBytes(op.v) IN
         [items |-> st.items \o EncPush(Len(bs), FirstClass(bs)), last |-> -1, intended |-> Append(st.intended, <<"num", op.v, Len(bs)>>)]
    [] op.k = "slice" ->
         [items |-> st.items \o EncPush(op.n, op.cls), last |-> -1, intended |-> Append(st.intended, <<"push", op.n, op.cls>>)]
    [] op.k = "verify" ->
         IF st.last \in Foldable
         THEN [items |-> [st.items EXCEPT ![Len(st.items)] = B(st.last + 1)], last |-> st.last + 1,
               intended |-> [st.intended EXCEPT ![Len(st.intended)] = <<"op", st.last + 1>>]]
         ELSE [items |-> Append(st.items, B(OP_VERIFY)), last |-> OP_VERIFY, intended |-> Append(st.intended, <<"op", OP_VERIFY>>)]
St0 == [items |-> << >>, last |-> -1, intended |-> << >>]

---------------------------------------------------------------------------
(* The instruction iterator over items: returns the list of instructions, ending with <<"err", kind>> on the first error *)
IsB(items, i) == i <= Len(items) /\ items[i][1] = "b"
RECURSIVE Instr(_, _, _)
Instr(items, i, minimal) ==
  IF i > Len(items) THEN << >>
  ELSE IF ~IsB(items, i) THEN << <<"err", "desync">> >>
  ELSE LET b == items[i][2] IN
       IF b = 0 THEN << <<"push", 0, "other">> >> \o Instr(items, i + 1, minimal)
       ELSE IF b < 76 THEN
            IF i + 1 <= Len(items) /\ items[i + 1][1] = "run" /\ items[i + 1][2] = b
            THEN IF minimal /\ b = 1 /\ items[i + 1][3] \in {"small", "neg1"} THEN << <<"err", "NonMinimalPush">> >>
                 ELSE << <<"push", b, items[i + 1][3]>> >> \o Instr(items, i + 2, minimal)
            ELSE << <<"err", "EarlyEndOfScript">> >>
       ELSE IF b \in {OP_PUSHDATA1, OP_PUSHDATA2, OP_PUSHDATA4} THEN
            LET w == IF b = OP_PUSHDATA1 THEN 1 ELSE IF b = OP_PUSHDATA2 THEN 2 ELSE 4 IN
            IF \E k \in 1..w : ~IsB(items, i + k) THEN << <<"err", "EarlyEndOfScript">> >>
            ELSE LET n == LeValue([k \in 1..w |-> items[i + k][2]], 1)
                     floor == IF w = 1 THEN 76 ELSE IF w = 2 THEN 256 ELSE 65536 IN
                 IF minimal /\ n < floor THEN << <<"err", "NonMinimalPush">> >>
                 ELSE IF n = 0 THEN << <<"push", 0, "other">> >> \o Instr(items, i + w + 1, minimal)
                 ELSE IF i + w + 1 <= Len(items) /\ items[i + w + 1][1] = "run" /\ items[i + w + 1][2] = n
                      THEN << <<"push", n, items[i + w + 1][3]>> >> \o Instr(items, i + w + 2, minimal)
                      ELSE << <<"err", "EarlyEndOfScript">> >>
       ELSE << <<"op", b>> >> \o Instr(items, i + 1, minimal)

\* what iteration must yield for an intended list: a script number is a data push
AsInstr(x) == IF x[1] = "num" THEN <<"push", x[3], FirstClass(ScriptNumBytes(x[2]))>> ELSE x
Expected(intended) == [k \in DOMAIN intended |-> AsInstr(intended[k])]
\* the documented exception: push_slice of one byte 1..16 / 0x81 is an explicit (non-minimal-number) encoding
\* (push_scriptint of -1, 1..16 is the same explicit data encoding; push_int uses the small-integer opcodes for those)
HasExplicitSmall(intended) == \E k \in DOMAIN intended : LET x == AsInstr(intended[k]) IN x[1] = "push" /\ x[2] = 1 /\ x[3] \in {"small", "neg1"}

---------------------------------------------------------------------------
CONSTANTS Alphabet, MaxOps
VARIABLES st, n
vars == <<st, n>>
Init == st = St0 /\ n = 0
Next == n < MaxOps /\ n' = n + 1 /\ \E op \in Alphabet : st' = Apply(st, op)
Spec == Init /\ [][Next]_vars
\* C16: iterating a built script yields exactly what was added; pushes are minimal
ParsesBack == Instr(st.items, 1, FALSE) = Expected(st.intended)
MinimalOk  == ~HasExplicitSmall(st.intended) => Instr(st.items, 1, TRUE) = Expected(st.intended)
\* the last-opcode register always names the last byte when set
LastIsLast == st.last # -1 => (Len(st.items) > 0 /\ st.items[Len(st.items)] = B(st.last))
NumRoundTrip(S) == \A v \in S : ReadScriptNum(ScriptNumBytes(v)) = v /\ Len(ScriptNumBytes(v)) <= 4
=============================================================================
