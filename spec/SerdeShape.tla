----------------------------- MODULE SerdeShape -----------------------------
(***************************************************************************)
(* serde data-model level description of the (de)serializers (C20): field  *)
(* names emitted per type and variant, variant selection by present field   *)
(* names, and the string tables of Display / FromStr pairs.                 *)
(***************************************************************************)
EXTENDS Naturals, Sequences, FiniteSets, TLC, SequencesExt

\* <<type, variant, field names in emission order>>
Shapes == {
  <<"Transaction", "", <<"version", "lock_time", "input", "output">>>>,
  <<"TxIn", "", <<"previous_output", "is_pegin", "script_sig", "sequence", "asset_issuance", "witness">>>>,
  <<"TxOut", "", <<"asset", "value", "nonce", "script_pubkey", "witness">>>>,
  <<"TxInWitness", "", <<"amount_rangeproof", "inflation_keys_rangeproof", "script_witness", "pegin_witness">>>>,
  <<"TxOutWitness", "", <<"surjection_proof", "rangeproof">>>>,
  <<"AssetIssuance", "", <<"asset_blinding_nonce", "asset_entropy", "amount", "inflation_keys">>>>,
  <<"BlockHeader", "", <<"version", "prev_blockhash", "merkle_root", "time", "height", "ext">>>>,
  <<"Block", "", <<"header", "txdata">>>>,
  <<"ExtData", "Proof", <<"challenge", "solution">>>>,
  <<"ExtData", "Dynafed", <<"current", "proposed", "signblock_witness">>>>,
  <<"Params", "Null", << >>>>,
  <<"Params", "Compact", <<"signblockscript", "signblock_witness_limit", "elided_root">>>>,
  <<"Params", "Full", <<"signblockscript", "signblock_witness_limit", "fedpeg_program", "fedpegscript", "extension_space">>>>,
  <<"TxOutSecrets", "", <<"asset", "asset_bf", "value", "value_bf">>>>,
  <<"Pset", "", <<"global", "inputs", "outputs">>>>,
  \* derived, with the transaction data flattened into the global map
  <<"PsetGlobal", "", <<"tx_version", "fallback_locktime", "input_count", "output_count", "tx_modifiable",
                        "version", "xpub", "scalars", "elements_tx_modifiable_flag", "proprietary", "unknown">>>> }
Types == { s[1] : s \in Shapes }
KeysOf(t, v) == (CHOOSE s \in Shapes : s[1] = t /\ s[2] = v)[3]
VariantsOf(t) == { s[2] : s \in { x \in Shapes : x[1] = t } }
NoDup(seq) == \A i, j \in DOMAIN seq : i # j => seq[i] # seq[j]
\* a self-describing map format cannot carry two entries with one name
DuplicateFree(t, v) == NoDup(KeysOf(t, v))
AllDuplicateFree == \A s \in Shapes : NoDup(s[3])

\* variant selection by the set of present field names, as the hand-written deserializers do
SelectExtData(ks) == IF {"challenge", "solution"} \subseteq ks THEN "Proof"
                     ELSE IF {"current", "proposed", "signblock_witness"} \subseteq ks THEN "Dynafed" ELSE "error"
SelectParams(ks) == IF {"signblockscript", "signblock_witness_limit", "fedpeg_program", "fedpegscript", "extension_space"} \subseteq ks THEN "Full"
                    ELSE IF {"signblockscript", "signblock_witness_limit", "elided_root"} \subseteq ks THEN "Compact" ELSE "Null"
KeySet(seq) == { seq[i] : i \in DOMAIN seq }
SelectionRecovers == /\ \A v \in VariantsOf("ExtData") : SelectExtData(KeySet(KeysOf("ExtData", v))) = v
                     /\ \A v \in VariantsOf("Params") : SelectParams(KeySet(KeysOf("Params", v))) = v

\* string tables: <<table, value, text>>
Strings == {
  <<"Ecdsa", "All", "SIGHASH_ALL">>, <<"Ecdsa", "None", "SIGHASH_NONE">>, <<"Ecdsa", "Single", "SIGHASH_SINGLE">>,
  <<"Ecdsa", "AllPlusAnyoneCanPay", "SIGHASH_ALL|SIGHASH_ANYONECANPAY">>, <<"Ecdsa", "NonePlusAnyoneCanPay", "SIGHASH_NONE|SIGHASH_ANYONECANPAY">>,
  <<"Ecdsa", "SinglePlusAnyoneCanPay", "SIGHASH_SINGLE|SIGHASH_ANYONECANPAY">>,
  <<"Schnorr", "Default", "SIGHASH_DEFAULT">>, <<"Schnorr", "All", "SIGHASH_ALL">>, <<"Schnorr", "None", "SIGHASH_NONE">>, <<"Schnorr", "Single", "SIGHASH_SINGLE">>,
  <<"Schnorr", "AllPlusAnyoneCanPay", "SIGHASH_ALL|SIGHASH_ANYONECANPAY">>, <<"Schnorr", "NonePlusAnyoneCanPay", "SIGHASH_NONE|SIGHASH_ANYONECANPAY">>,
  <<"Schnorr", "SinglePlusAnyoneCanPay", "SIGHASH_SINGLE|SIGHASH_ANYONECANPAY">>, <<"Schnorr", "Reserved", "SIGHASH_RESERVED">> }
TableOf(t) == { s \in Strings : s[1] = t }
\* printing is injective within a table, so parsing the printed form can return the value
PrintInjective == \A t \in {"Ecdsa", "Schnorr"} : \A a, b \in TableOf(t) : a[3] = b[3] => a[2] = b[2]
-------------------------------------------------------------------------------------------------------
(* Byte-string fields and the content classes a format may mistake for something else: a self-describing  *)
(* format offers bytes, text and sequences, and a visitor that accepts more than one of them must not     *)
(* reinterpret one as another.  The round trip is required for every (field, class) pair.                 *)
ByteFields == { <<"TxIn", "script_sig">>, <<"TxOut", "script_pubkey">>, <<"TxInWitness", "script_witness">>, <<"TxInWitness", "pegin_witness">>,
                <<"Params.Full", "signblockscript">>, <<"Params.Full", "fedpeg_program">>, <<"Params.Full", "fedpegscript">>,
                <<"Params.Full", "extension_space">>, <<"Params.Compact", "signblockscript">>,
                <<"ExtData.Proof", "challenge">>, <<"ExtData.Proof", "solution">>, <<"ExtData.Dynafed", "signblock_witness">>,
                <<"pset::Input", "redeem_script">>, <<"pset::Input", "final_script_witness">>, <<"pset::Input", "unknown">>, <<"pset::Input", "proprietary">>,
                <<"pset::Output", "script_pubkey">>, <<"pset::Global", "unknown">>, <<"pset::Global", "proprietary">> }
ContentClasses == {"random", "ascii-hex-even", "ascii-hex-odd", "ascii-text", "utf8", "zeros", "empty", "single-ff"}
ContentCases == ByteFields \X ContentClasses
=============================================================================
