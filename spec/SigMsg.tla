------------------------------- MODULE SigMsg -------------------------------
(***************************************************************************)
(* Signature-hash messages of Elements (property C03), written from the    *)
(* published algorithms: the legacy signing serialization, BIP143 with the  *)
(* Elements issuance extension, BIP341 with the Elements extensions         *)
(* (genesis hash twice, no epoch, outpoint flags, spent asset||amount,       *)
(* issuances with the 0x00 placeholder, issuance range-proof hash, output    *)
(* witness hash, per-input ANYONECANPAY block, SINGLE output and witness).   *)
(*                                                                          *)
(* A message is a token sequence over the Wire vocabulary; sub-hashes are    *)
(* hash-expression tokens <<"sha256", <<"cat", toks>>>> etc.  Digests are    *)
(* never computed here.                                                      *)
(***************************************************************************)
EXTENDS WireShapes

Sha(toks)  == <<"sha256", <<"cat", toks>>>>
Shad(toks) == <<"sha256d", <<"cat", toks>>>>
Tagged(tag, toks) == <<"tagged", tag, <<"cat", toks>>>>
Zero32 == <<"zeros", 32>>

\* hash types ---------------------------------------------------------------
EcdsaTypes   == {"ALL", "NONE", "SINGLE", "ALL|ACP", "NONE|ACP", "SINGLE|ACP"}
SchnorrTypes == {"DEFAULT"} \cup EcdsaTypes
BaseOf(ht) == CASE ht \in {"ALL", "ALL|ACP"} -> "ALL" [] ht \in {"NONE", "NONE|ACP"} -> "NONE"
                [] ht \in {"SINGLE", "SINGLE|ACP"} -> "SINGLE" [] ht = "DEFAULT" -> "DEFAULT"
Acp(ht) == ht \in {"ALL|ACP", "NONE|ACP", "SINGLE|ACP"}
HtByte(ht) == CASE ht = "DEFAULT" -> 0 [] ht = "ALL" -> 1 [] ht = "NONE" -> 2 [] ht = "SINGLE" -> 3
                [] ht = "ALL|ACP" -> 129 [] ht = "NONE|ACP" -> 130 [] ht = "SINGLE|ACP" -> 131
HtHex(ht) == CASE ht = "ALL" -> "1" [] ht = "NONE" -> "2" [] ht = "SINGLE" -> "3"
               [] ht = "ALL|ACP" -> "81" [] ht = "NONE|ACP" -> "82" [] ht = "SINGLE|ACP" -> "83"
SignsAllOutputs(ht) == BaseOf(ht) \in {"ALL", "DEFAULT"}

\* pieces ---------------------------------------------------------------------
PlainHex(cls)     == VoutHex(cls, FALSE, FALSE)
Outpoint(t)       == << Fld(t.txid, 32, "r"), U32(PlainHex(t.vout)) >>          \* COutPoint: no flag bits
IssuanceOrZero(t) == IF t.iss.has THEN EncIssuance(t.iss) ELSE << U8(0) >>
FlagByte(t)       == (IF t.pegin THEN 64 ELSE 0) + (IF t.iss.has THEN 128 ELSE 0)
IssProofs(t)      == EncVarBytes(t.wit.arp) \o EncVarBytes(t.wit.krp)
SeqTok(t)         == << U32(t.seq) >>
FlagTok(t)        == << U8(FlagByte(t)) >>
\* spent outputs: [asset, value, spk]
PrevAssetAmount(p) == EncConf(p.asset, "asset") \o EncConf(p.value, "value")
PrevSpk(p)         == EncVarBytes(p.spk)

(***************************************************************************)
(* Legacy: the signing transaction in CTxIn / CTxOut wire form (the outpoint *)
(* index carries the pegin / issuance flag bits, as the pinned Elements       *)
(* vector with an issuance input requires), no witness flag byte, followed    *)
(* by the 4-byte hash type.  SIGHASH_SINGLE with no corresponding output:     *)
(* the digest is the constant 0x01 00...00, no message is hashed.             *)
(***************************************************************************)
NullOut == << U8(0), U8(0), U8(0), VI(0) >>          \* CTxOut::SetNull
LegacyIn(t, k, i, ht, code) ==
  LET ss  == IF k = i THEN code ELSE B("", 0)
      seq == IF k # i /\ BaseOf(ht) \in {"NONE", "SINGLE"} THEN "0" ELSE t.seq
  IN EncTxIn([t EXCEPT !.ss = ss, !.seq = seq])
RECURSIVE LegacyIns(_, _, _, _, _)
LegacyIns(tx, k, i, ht, code) == IF k > Len(tx.ins) THEN << >> ELSE LegacyIn(tx.ins[k], k, i, ht, code) \o LegacyIns(tx, k + 1, i, ht, code)
RECURSIVE LegacySingleOuts(_, _, _)
LegacySingleOuts(tx, k, i) == IF k > i THEN << >> ELSE (IF k = i THEN EncTxOut(tx.outs[k]) ELSE NullOut) \o LegacySingleOuts(tx, k + 1, i)
LegacyIsOne(tx, i, ht) == BaseOf(ht) = "SINGLE" /\ i > Len(tx.outs)
LegacyMsg(tx, i, ht, code) ==
  << U32(tx.version) >>
  \o (IF Acp(ht) THEN << VI(1) >> \o LegacyIn(tx.ins[i], i, i, ht, code)
      ELSE << VI(Len(tx.ins)) >> \o LegacyIns(tx, 1, i, ht, code))
  \o (CASE BaseOf(ht) = "ALL"    -> << VI(Len(tx.outs)) >> \o CatMap(EncTxOut, tx.outs, 1)
        [] BaseOf(ht) = "NONE"   -> << VI(0) >>
        [] BaseOf(ht) = "SINGLE" -> << VI(i) >> \o LegacySingleOuts(tx, 1, i))
  \o << U32(tx.lock), U32(HtHex(ht)) >>

(***************************************************************************)
(* Segwit v0 (BIP143 + Elements hashIssuance and per-input issuance)         *)
(***************************************************************************)
SegwitMsg(tx, i, ht, code, value) ==
  LET t == tx.ins[i]
      hashPrevouts == IF Acp(ht) THEN Zero32 ELSE Shad(CatMap(Outpoint, tx.ins, 1))
      hashSequence == IF ~Acp(ht) /\ BaseOf(ht) = "ALL" THEN Shad(CatMap(SeqTok, tx.ins, 1)) ELSE Zero32
      hashIssuance == IF Acp(ht) THEN Zero32 ELSE Shad(CatMap(IssuanceOrZero, tx.ins, 1))
      hashOutputs  == IF BaseOf(ht) = "ALL" THEN Shad(CatMap(EncTxOut, tx.outs, 1))
                      ELSE IF BaseOf(ht) = "SINGLE" /\ i <= Len(tx.outs) THEN Shad(EncTxOut(tx.outs[i]))
                      ELSE Zero32
  IN << U32(tx.version), hashPrevouts, hashSequence, hashIssuance >>
     \o Outpoint(t) \o EncVarBytes(code) \o EncConf(value, "value") \o << U32(t.seq) >>
     \o (IF t.iss.has THEN EncIssuance(t.iss) ELSE << >>)
     \o << hashOutputs, U32(tx.lock), U32(HtHex(ht)) >>

(***************************************************************************)
(* Taproot (BIP341 + Elements).  pv: how the spent outputs are supplied:      *)
(*   "all" | "allshort" (wrong length) | "one" (this input) | "oneother"      *)
(***************************************************************************)
TapLeafHashOf(leaf) == Tagged("TapLeaf/elements", << U8(196) >> \o EncVarBytes(leaf))   \* Elements tapscript leaf version 0xc4
IdxHex(i) == ToString(i - 1)          \* input index as little-endian u32 (small values)

\* error classes the library documents; the answer must be an error iff this set is non-empty
TaprootErrors(tx, i, ht, pv) ==
  (IF pv = "allshort" THEN {"PrevoutsSize"} ELSE {})
  \cup (IF ~Acp(ht) /\ pv \in {"one", "oneother"} THEN {"PrevoutKind"} ELSE {})
  \cup (IF Acp(ht) /\ i > Len(tx.ins) THEN {"IndexOutOfInputsBounds"} ELSE {})
  \cup (IF Acp(ht) /\ pv = "oneother" THEN {"PrevoutIndex"} ELSE {})
  \cup (IF BaseOf(ht) = "SINGLE" /\ i > Len(tx.outs) THEN {"SingleWithoutCorrespondingOutput"} ELSE {})
\* for an index that names no input (and no ANYONECANPAY) consensus defines nothing
TaprootSpecified(tx, i, ht, pv) == i <= Len(tx.ins)

IssProofsOf(t) == IssProofs(t)
OutWitOf(o)    == EncOutWit(o.wit)
TaprootMsg(tx, prevs, i, ht, annex, leaf) ==
  LET t == tx.ins[i] IN
  << Fld("genesis", 32, "r"), Fld("genesis", 32, "r"), U8(HtByte(ht)), U32(tx.version), U32(tx.lock) >>
  \o (IF Acp(ht) THEN << >>
      ELSE << Sha(CatMap(FlagTok, tx.ins, 1)), Sha(CatMap(Outpoint, tx.ins, 1)), Sha(CatMap(PrevAssetAmount, prevs, 1)),
              Sha(CatMap(PrevSpk, prevs, 1)), Sha(CatMap(SeqTok, tx.ins, 1)), Sha(CatMap(IssuanceOrZero, tx.ins, 1)),
              Sha(CatMap(IssProofsOf, tx.ins, 1)) >>)
  \o (IF SignsAllOutputs(ht) THEN << Sha(CatMap(EncTxOut, tx.outs, 1)), Sha(CatMap(OutWitOf, tx.outs, 1)) >> ELSE << >>)
  \o << U8((IF leaf.len > 0 THEN 2 ELSE 0) + (IF annex.len > 0 THEN 1 ELSE 0)) >>
  \o (IF Acp(ht)
      THEN FlagTok(t) \o Outpoint(t) \o PrevAssetAmount(prevs[i]) \o PrevSpk(prevs[i]) \o << U32(t.seq) >>
           \o (IF t.iss.has THEN EncIssuance(t.iss) \o << Sha(IssProofs(t)) >> ELSE << U8(0) >>)
      ELSE << U32(IdxHex(i)) >>)
  \o (IF annex.len > 0 THEN << Sha(EncVarBytes(annex)) >> ELSE << >>)
  \o (IF BaseOf(ht) = "SINGLE" THEN << Sha(EncTxOut(tx.outs[i])), Sha(EncOutWit(tx.outs[i].wit)) >> ELSE << >>)
  \o (IF leaf.len > 0 THEN << TapLeafHashOf(leaf), U8(0), U32("ffffffff") >> ELSE << >>)

---------------------------------------------------------------------------
(* Queries and outcomes *)
\* q: [kind, i, ht, pv, annex, leaf]
Code   == B("code", 25)
SpentValue == Conf("expl", "spentvalue")
AnnexOf(q) == IF q.annex THEN [f |-> "annex", len |-> 9, a |-> "ax"] ELSE B("", 0)
LeafOf(q)  == IF q.leaf THEN B("leaf", 34) ELSE B("", 0)

Outcome(tx, prevs, q) ==
  CASE q.kind = "legacy" ->
         IF q.i > Len(tx.ins) THEN [res |-> "excluded", errs |-> {}, msg |-> << >>]              \* documented panic condition
         ELSE IF LegacyIsOne(tx, q.i, q.ht) THEN [res |-> "one", errs |-> {}, msg |-> << >>]
         ELSE [res |-> "ok", errs |-> {}, msg |-> LegacyMsg(tx, q.i, q.ht, Code)]
    [] q.kind = "segwit" ->
         IF q.i > Len(tx.ins) THEN [res |-> "excluded", errs |-> {}, msg |-> << >>]
         ELSE [res |-> "ok", errs |-> {}, msg |-> SegwitMsg(tx, q.i, q.ht, Code, SpentValue)]
    [] q.kind = "taproot" ->
         LET e == TaprootErrors(tx, q.i, q.ht, q.pv) IN
         IF e # {} THEN [res |-> "err", errs |-> e, msg |-> << >>]
         ELSE IF ~TaprootSpecified(tx, q.i, q.ht, q.pv) THEN [res |-> "unspecified", errs |-> {}, msg |-> << >>]
         ELSE [res |-> "ok", errs |-> {}, msg |-> TaprootMsg(tx, prevs, q.i, q.ht, AnnexOf(q), LeafOf(q))]

\* field names occurring in a message (for the model-level sanity properties)
RECURSIVE NamesIn(_)
NamesIn(x) ==
  IF x = << >> THEN {}
  ELSE IF x[1] = "f" THEN {x[2]}
  ELSE IF x[1] \in {"sha256", "sha256d"} THEN NamesIn(x[2])
  ELSE IF x[1] = "tagged" THEN NamesIn(x[3])
  ELSE IF x[1] = "cat" THEN UNION { NamesIn(x[2][k]) : k \in DOMAIN x[2] }
  ELSE {}
MsgNames(m) == UNION { NamesIn(m[k]) : k \in DOMAIN m }
IsInputName(nm, k) == \E s \in {"txid", "ss", "nonce", "entropy", "amount", "keys", "arp", "krp"} : nm = Nm("i", k, s)
IsOutputName(nm)   == \E k \in 1..4, s \in {"asset", "value", "nonce", "spk", "sp", "rp"} : nm = Nm("o", k, s)

\* an ANYONECANPAY message names no field of another input; NONE names no output field
AcpIsolated(tx, prevs, q) ==
  LET o == Outcome(tx, prevs, q) IN
  (o.res = "ok" /\ Acp(q.ht)) => \A k \in DOMAIN tx.ins : k # q.i => \A nm \in MsgNames(o.msg) : ~IsInputName(nm, k)
NoneHasNoOutputs(tx, prevs, q) ==
  LET o == Outcome(tx, prevs, q) IN
  (o.res = "ok" /\ BaseOf(q.ht) = "NONE") => \A nm \in MsgNames(o.msg) : ~IsOutputName(nm)
\* committed output fields are monotone: ALL >= SINGLE >= NONE
OutNames(tx, prevs, q) == LET o == Outcome(tx, prevs, q) IN IF o.res = "ok" THEN { nm \in MsgNames(o.msg) : IsOutputName(nm) } ELSE {}
=============================================================================
