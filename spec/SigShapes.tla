------------------------------ MODULE SigShapes ------------------------------
(* Transaction families, queries and single-field "touches" for SigMsg (C03, C13). *)
EXTENDS SigMsg

\* input / output variants (positional names are assigned by MkIn / MkOut)
InVar(n, v) ==
  CASE v = "plain"   -> MkIn(n, "small", FALSE, <<"none">>, 0, {})
    [] v = "pegin"   -> MkIn(n, "zero", TRUE, <<"none">>, 3, {"sw", "pw"})
    [] v = "issue"   -> MkIn(n, "small", FALSE, <<"z", "expl", "expl">>, 0, {})
    [] v = "issueC"  -> MkIn(n, "max30", FALSE, <<"z", "c8", "null">>, 0, {"arp"})
    [] v = "reissue" -> MkIn(n, "zero", TRUE, <<"sc", "c9", "c8">>, 0, {"arp", "krp", "sw"})
    [] v = "coinb"   -> MkIn(n, "null", FALSE, <<"none">>, 4, {})
OutVar(n, v) ==
  CASE v = "expl"   -> MkOut(n, "expl", "expl", "null", 22, {})
    [] v = "conf"   -> MkOut(n, "ca", "c8", "c2", 34, {"sp", "rp"})
    [] v = "confnw" -> MkOut(n, "cb", "c9", "c3", 0, {})
    [] v = "fee"    -> MkOut(n, "expl", "expl", "null", 0, {})
PrevVar(n, v) ==
  CASE v \in {"plain", "issue", "coinb"} -> [asset |-> Conf("expl", Nm("p", n, "asset")), value |-> Conf("expl", Nm("p", n, "value")), spk |-> B(Nm("p", n, "spk"), 34)]
    [] OTHER -> [asset |-> Conf("ca", Nm("p", n, "asset")), value |-> Conf("c9", Nm("p", n, "value")), spk |-> B(Nm("p", n, "spk"), 22)]

MkSigTx(iv, ov) == [tx |-> MkTx([k \in DOMAIN iv |-> InVar(k, iv[k])], [k \in DOMAIN ov |-> OutVar(k, ov[k])]),
                    prevs |-> [k \in DOMAIN iv |-> PrevVar(k, iv[k])], iv |-> iv, ov |-> ov]

SeqsOf(S, lo, hi) == UNION { [1..k -> S] : k \in lo..hi }

Queries(st, HtE, HtS, TapVariants) ==
  LET maxi == (IF Len(st.tx.ins) > Len(st.tx.outs) THEN Len(st.tx.ins) ELSE Len(st.tx.outs)) + 1 IN
  { [kind |-> k, i |-> i, ht |-> h, pv |-> "all", annex |-> FALSE, leaf |-> FALSE] : k \in {"legacy", "segwit"}, i \in 1..Len(st.tx.ins), h \in HtE }
  \cup { [kind |-> "taproot", i |-> i, ht |-> h, pv |-> v[1], annex |-> v[2], leaf |-> v[3]] : i \in 1..maxi, h \in HtS, v \in TapVariants }

TapFew == { <<"all", FALSE, FALSE>>, <<"all", TRUE, TRUE>>, <<"one", FALSE, TRUE>>, <<"one", TRUE, FALSE>>,
            <<"allshort", FALSE, FALSE>>, <<"oneother", FALSE, FALSE>> }
TapAll == { <<p, a, l>> : p \in {"all", "allshort", "one", "oneother"}, a \in BOOLEAN, l \in BOOLEAN }

---------------------------------------------------------------------------
(* Touch: make exactly one field of (tx, prevs) different *)
Ren(b) == [b EXCEPT !.f = @ \o "~", !.len = IF @ = 0 THEN 2 ELSE @]
RenC(c) == IF c.k = "null" THEN Conf("expl", c.f \o "~") ELSE [c EXCEPT !.f = @ \o "~"]
RenProof(b, nm) == IF b.len = 0 THEN [f |-> nm \o "~", len |-> RpLen, a |-> "rp"] ELSE [b EXCEPT !.f = @ \o "~"]
RenSProof(b, nm) == IF b.len = 0 THEN [f |-> nm \o "~", len |-> SpLen, a |-> "sp"] ELSE [b EXCEPT !.f = @ \o "~"]
OtherVout(c) == IF c = "small" THEN "zero" ELSE "small"
OtherSeq(s) == IF s = "fffffffd" THEN "fffffffe" ELSE "fffffffd"

TouchIn(t, n, s) ==
  CASE s = "txid" -> [t EXCEPT !.txid = @ \o "~"]
    [] s = "vout" -> [t EXCEPT !.vout = OtherVout(@)]
    [] s = "pegin" -> [t EXCEPT !.pegin = ~@]
    [] s = "ss" -> [t EXCEPT !.ss = [f |-> Nm("i", n, "ss~"), len |-> @.len + 1, a |-> "r"]]
    [] s = "seq" -> [t EXCEPT !.seq = OtherSeq(@)]
    [] s = "nonce" -> [t EXCEPT !.iss.nf = @ \o "~", !.iss.na = "sc"]
    [] s = "entropy" -> [t EXCEPT !.iss.ef = @ \o "~"]
    [] s = "amount" -> [t EXCEPT !.iss.amount = RenC(@)]
    [] s = "keys" -> [t EXCEPT !.iss.keys = RenC(@)]
    [] s = "arp" -> [t EXCEPT !.wit.arp = RenProof(@, Nm("i", n, "arp"))]
    [] s = "krp" -> [t EXCEPT !.wit.krp = RenProof(@, Nm("i", n, "krp"))]
    [] s = "sw" -> [t EXCEPT !.wit.sw = Append(@, B(Nm("i", n, "swx"), 2))]
    [] s = "pw" -> [t EXCEPT !.wit.pw = Append(@, B(Nm("i", n, "pwx"), 1))]
TouchOut(o, n, s) ==
  CASE s = "asset" -> [o EXCEPT !.asset = RenC(@)]
    [] s = "value" -> [o EXCEPT !.value = RenC(@)]
    [] s = "nonce" -> [o EXCEPT !.nonce = RenC(@)]
    [] s = "spk" -> [o EXCEPT !.spk = [f |-> Nm("o", n, "spk~"), len |-> @.len + 1, a |-> "r"]]
    [] s = "sp" -> [o EXCEPT !.wit.sp = RenSProof(@, Nm("o", n, "sp"))]
    [] s = "rp" -> [o EXCEPT !.wit.rp = RenProof(@, Nm("o", n, "rp"))]
TouchPrev(p, s) ==
  CASE s = "asset" -> [p EXCEPT !.asset = RenC(@)]
    [] s = "value" -> [p EXCEPT !.value = RenC(@)]
    [] s = "spk" -> [p EXCEPT !.spk = Ren(@)]

\* touch descriptors: <<"tx", "version">> | <<"in", n, field>> | <<"out", n, field>> | <<"prev", n, field>>
Touches(st) ==
  { <<"tx", 0, "version">>, <<"tx", 0, "lock">> }
  \cup { <<"in", n, s>> : n \in DOMAIN st.tx.ins, s \in {"txid", "vout", "ss", "seq", "arp", "krp", "sw", "pw"} }
  \cup { <<"in", n, "pegin">> : n \in { k \in DOMAIN st.tx.ins : st.tx.ins[k].vout # "null" } }
  \cup { <<"in", n, s>> : n \in { k \in DOMAIN st.tx.ins : st.tx.ins[k].iss.has }, s \in {"nonce", "entropy", "amount", "keys"} }
  \cup { <<"out", n, s>> : n \in DOMAIN st.tx.outs, s \in {"asset", "value", "nonce", "spk", "sp", "rp"} }
  \cup { <<"prev", n, s>> : n \in DOMAIN st.prevs, s \in {"asset", "value", "spk"} }
ApplyTouch(st, d) ==
  CASE d[1] = "tx" -> IF d[3] = "version" THEN [st EXCEPT !.tx.version = "3"] ELSE [st EXCEPT !.tx.lock = "1f5"]
    [] d[1] = "in" -> [st EXCEPT !.tx.ins[d[2]] = TouchIn(@, d[2], d[3])]
    [] d[1] = "out" -> [st EXCEPT !.tx.outs[d[2]] = TouchOut(@, d[2], d[3])]
    [] d[1] = "prev" -> [st EXCEPT !.prevs[d[2]] = TouchPrev(@, d[3])]
\* does touching d change the answer to q ?  (only asked for queries that have an answer)
Sensitive(st, q, d) == LET s2 == ApplyTouch(st, d) IN Outcome(s2.tx, s2.prevs, q) # Outcome(st.tx, st.prevs, q)
=============================================================================
