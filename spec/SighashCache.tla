---------------------------- MODULE SighashCache ----------------------------
(***************************************************************************)
(* sighash::SighashCache (property C13): three lazily filled caches shared  *)
(* between legacy / segwit-v0 / taproot queries over one transaction whose   *)
(* script witnesses may be edited through the cache between queries.         *)
(*                                                                          *)
(* The transaction is abstract: groups of fields with a version counter;     *)
(* only the script witnesses ("sw") ever change (witness_mut).  A cache      *)
(* remembers the versions of the groups it was computed from.  A query's     *)
(* answer is determined by the versions of the groups it reads -- from a     *)
(* cache snapshot or directly from the transaction.                           *)
(***************************************************************************)
EXTENDS Naturals, Sequences, FiniteSets, TLC

CONSTANTS NIn, MaxSteps

HtE == {"ALL", "NONE", "SINGLE", "ALL|ACP", "NONE|ACP", "SINGLE|ACP"}
HtS == {"DEFAULT"} \cup HtE
BaseOf(ht) == CASE ht \in {"ALL", "ALL|ACP"} -> "ALL" [] ht \in {"NONE", "NONE|ACP"} -> "NONE"
                [] ht \in {"SINGLE", "SINGLE|ACP"} -> "SINGLE" [] ht = "DEFAULT" -> "DEFAULT"
Acp(ht) == ht \in {"ALL|ACP", "NONE|ACP", "SINGLE|ACP"}
AllOutputs(ht) == BaseOf(ht) \in {"ALL", "DEFAULT"}
Pvs == {"all", "allshort", "one", "oneother"}

\* groups of transaction data the caches are computed from
CommonGroups  == {"prevouts", "sequences", "outputs", "issuances"}
TaprootGroups == {"spent", "flags", "issproofs", "outwit"}
Groups == CommonGroups \cup TaprootGroups \cup {"sw"}

Symbols ==
  [op : {"legacy", "segwit"}, i : 1..NIn, ht : HtE, pv : {"all"}] \cup
  [op : {"taproot"}, i : 1..NIn, ht : HtS, pv : Pvs] \cup
  [op : {"witness_mut"}, i : 1..NIn, ht : {"ALL"}, pv : {"all"}]

VARIABLES ver,        \* current version of each group
          common, segwit, taproot,   \* None or [group -> version] snapshots
          steps, lastOk
vars == <<ver, common, segwit, taproot, steps, lastOk>>
None == [none |-> TRUE]
Snap(gs) == [g \in gs |-> ver[g]]

Init == /\ ver = [g \in Groups |-> 0]
        /\ common = None /\ segwit = None /\ taproot = None
        /\ steps = 0 /\ lastOk = TRUE

\* --- what each query does to the caches (as the code does) ----------------
SegwitReadsCache(ht) == ~Acp(ht) \/ BaseOf(ht) = "ALL"
TaprootError(s) ==
  \/ s.pv = "allshort"
  \/ ~Acp(s.ht) /\ s.pv \in {"one", "oneother"}
  \/ Acp(s.ht) /\ s.pv = "oneother"
\* which caches a taproot query fills before it returns (an error may come after a fill)
TaprootFillsCommon(s)  == s.pv # "allshort" /\ (IF Acp(s.ht) THEN AllOutputs(s.ht) ELSE s.pv = "all")
TaprootFillsTaproot(s) == s.pv = "all" /\ (~Acp(s.ht) \/ AllOutputs(s.ht))

\* pure step function on st = [ver, common, segwit, taproot]
FillS(c, gs, v) == IF c = None THEN [g \in gs |-> v[g]] ELSE c
Apply(st, s) ==
  IF s.op = "witness_mut" THEN [st EXCEPT !.ver["sw"] = @ + 1]
  ELSE [st EXCEPT
          !.common = IF (s.op = "segwit" /\ SegwitReadsCache(s.ht)) \/ (s.op = "taproot" /\ TaprootFillsCommon(s))
                     THEN FillS(@, CommonGroups, st.ver) ELSE @,
          !.segwit = IF s.op = "segwit" /\ SegwitReadsCache(s.ht) THEN FillS(@, CommonGroups, st.ver) ELSE @,
          !.taproot = IF s.op = "taproot" /\ TaprootFillsTaproot(s) THEN FillS(@, TaprootGroups, st.ver) ELSE @]

\* versions of the groups an answer is computed from: cache snapshot if the code reads the cache
Used(s, c, t) ==
  CASE s.op = "legacy" -> [g \in {"sw"} |-> 0]          \* reads nothing that can change ("sw" is never committed)
    [] s.op = "segwit" -> IF SegwitReadsCache(s.ht) THEN c ELSE [g \in {} |-> 0]
    [] s.op = "taproot" -> (IF TaprootFillsCommon(s) THEN c ELSE [g \in {} |-> 0]) @@ (IF TaprootFillsTaproot(s) THEN t ELSE [g \in {} |-> 0])
    [] OTHER -> [g \in {} |-> 0]
FreshIn(used, v) == \A g \in DOMAIN used : g # "sw" => used[g] = v[g]

St == [ver |-> ver, common |-> common, segwit |-> segwit, taproot |-> taproot]
St0 == [ver |-> [g \in Groups |-> 0], common |-> None, segwit |-> None, taproot |-> None]
Do(s) == LET n == Apply(St, s) IN
  /\ steps < MaxSteps /\ steps' = steps + 1
  /\ ver' = n.ver /\ common' = n.common /\ segwit' = n.segwit /\ taproot' = n.taproot
  /\ lastOk' = FreshIn(Used(s, n.common, n.taproot), n.ver)
Next == \E s \in Symbols : Do(s)
Spec == Init /\ [][Next]_vars

FillOf(st) == << st.common # None, st.segwit # None, st.taproot # None >>

\* C13: every answer is computed from current data, whatever was asked before
AnswersFresh == lastOk
\* no cache ever depends on the script witnesses, so witness_mut cannot invalidate one
NoCacheOnWitness == \A c \in {common, segwit, taproot} : c # None => "sw" \notin DOMAIN c
\* the segwit cache is derived from the common one
SegwitImpliesCommon == segwit # None => common # None
\* with ANYONECANPAY, one spent output suffices for every hash type; without it, it is an error
OneSuffices == \A s \in Symbols : (s.op = "taproot" /\ s.pv = "one") => (TaprootError(s) <=> ~Acp(s.ht))
=============================================================================
