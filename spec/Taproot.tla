------------------------------ MODULE Taproot ------------------------------
(***************************************************************************)
(* Taproot script trees (src/taproot.rs), property C15.                    *)
(*                                                                         *)
(* The builder is the explicit stack machine it is: `branch` holds at most  *)
(* one pending node per depth; inserting a node at depth d combines it with *)
(* pending siblings upwards.  Hashes are abstract terms:                    *)
(*   <<"leaf", id>>   <<"hidden", id>>   <<"B", {a, b}>>  (unordered pair =  *)
(* sorted-pair hashing by construction).  Each leaf carries the list of its *)
(* sibling hashes, bottom-up (its merkle branch / control-block path).      *)
(***************************************************************************)
EXTENDS Naturals, Sequences, FiniteSets, TLC, SequencesExt

MaxDepthAllowed == 128
NoneNode == [none |-> TRUE]
LeafNode(id)   == [hash |-> <<"leaf", id>>, leaves |-> << [id |-> id, path |-> << >>] >>]
HiddenNode(id) == [hash |-> <<"hidden", id>>, leaves |-> << >>]
\* NodeInfo::combine(a, b): a was inserted first
Combine(a, b) ==
  [hash |-> <<"B", {a.hash, b.hash}>>,
   leaves |-> [k \in DOMAIN a.leaves |-> [a.leaves[k] EXCEPT !.path = Append(@, b.hash)]]
              \o [k \in DOMAIN b.leaves |-> [b.leaves[k] EXCEPT !.path = Append(@, a.hash)]]]
TooDeep(n) == \E k \in DOMAIN n.leaves : Len(n.leaves[k].path) > MaxDepthAllowed

\* TaprootBuilder::insert ; branch is 1-based here: branch[d + 1] is the pending node at depth d
RECURSIVE InsertLoop(_, _, _)
InsertLoop(branch, node, depth) ==
  IF Len(branch) = depth + 1
  THEN IF branch[Len(branch)] = NoneNode
       THEN [err |-> "", branch |-> branch, node |-> node, depth |-> depth]            \* cannot combine further
       ELSE IF depth = 0 THEN [err |-> "OverCompleteTree", branch |-> branch, node |-> node, depth |-> depth]
       ELSE LET c == Combine(branch[Len(branch)], node) IN
            IF TooDeep(c) THEN [err |-> "InvalidMerkleTreeDepth", branch |-> branch, node |-> node, depth |-> depth]
            ELSE InsertLoop(SubSeq(branch, 1, Len(branch) - 1), c, depth - 1)
  ELSE [err |-> "", branch |-> branch, node |-> node, depth |-> depth]
Insert(branch, node, depth) ==
  IF depth > MaxDepthAllowed THEN [err |-> "InvalidMerkleTreeDepth", branch |-> branch]
  ELSE IF depth + 1 < Len(branch) THEN [err |-> "NodeNotInDfsOrder", branch |-> branch]
  ELSE LET r == InsertLoop(branch, node, depth) IN
       IF r.err # "" THEN [err |-> r.err, branch |-> branch]
       ELSE LET ext == r.branch \o [k \in 1..(r.depth + 1 - Len(r.branch)) |-> NoneNode]
            IN [err |-> "", branch |-> [ext EXCEPT ![r.depth + 1] = r.node]]
Finalize(branch) ==
  IF Len(branch) > 1 THEN [err |-> "IncompleteTree", root |-> NoneNode]
  ELSE IF Len(branch) = 0 THEN [err |-> "EmptyTree", root |-> NoneNode]
  ELSE [err |-> "", root |-> branch[1]]
Occupancy(branch) == [k \in DOMAIN branch |-> branch[k] # NoneNode]

---------------------------------------------------------------------------
(* Reference semantics: the tree a depth-first list of (kind, depth) denotes *)
\* parse one subtree rooted at depth d from position i: returns [ok, node, next]
RECURSIVE ParseAt(_, _, _)
ParseAt(ops, i, d) ==
  IF i > Len(ops) THEN [ok |-> FALSE, node |-> NoneNode, next |-> i]
  ELSE IF ops[i].depth = d THEN [ok |-> TRUE, node |-> IF ops[i].kind = "leaf" THEN LeafNode(ops[i].id) ELSE HiddenNode(ops[i].id), next |-> i + 1]
  ELSE IF ops[i].depth < d THEN [ok |-> FALSE, node |-> NoneNode, next |-> i]
  ELSE LET l == ParseAt(ops, i, d + 1) IN
       IF ~l.ok THEN l
       ELSE LET r == ParseAt(ops, l.next, d + 1) IN
            IF ~r.ok THEN r ELSE [ok |-> TRUE, node |-> Combine(l.node, r.node), next |-> r.next]
RefTree(ops) == LET p == ParseAt(ops, 1, 0) IN IF p.ok /\ p.next = Len(ops) + 1 THEN [ok |-> TRUE, root |-> p.node] ELSE [ok |-> FALSE, root |-> NoneNode]

---------------------------------------------------------------------------
(* The builder as a state machine over an op sequence *)
CONSTANTS MaxOps, MaxDepth, Kinds
VARIABLES branch, ops, failed
vars == <<branch, ops, failed>>
Init == branch = << >> /\ ops = << >> /\ failed = ""
Ids == 1..MaxOps
Add == /\ failed = "" /\ Len(ops) < MaxOps
       /\ \E d \in 0..MaxDepth, k \in Kinds :
            LET op == [kind |-> k, depth |-> d, id |-> Len(ops) + 1]
                r == Insert(branch, IF k = "leaf" THEN LeafNode(op.id) ELSE HiddenNode(op.id), d)
            IN /\ ops' = Append(ops, op)
               /\ IF r.err = "" THEN branch' = r.branch /\ failed' = "" ELSE branch' = branch /\ failed' = r.err
Next == Add
Spec == Init /\ [][Next]_vars

\* C15: the builder accepts exactly the depth-first listings of binary trees and computes the tree they denote
BuilderIsReference ==
  failed = "" =>
    LET f == Finalize(branch)  t == RefTree(ops) IN
    /\ (f.err = "" <=> t.ok)
    /\ (f.err = "" => f.root = t.root)
\* each leaf's path length is its depth, and the leaves come out in depth-first (insertion) order
PathsAndOrder ==
  (failed = "" /\ Finalize(branch).err = "") =>
    LET r == Finalize(branch).root
        leafops == SelectSeq(ops, LAMBDA o : o.kind = "leaf") IN
    /\ Len(r.leaves) = Len(leafops)
    /\ \A k \in DOMAIN r.leaves : r.leaves[k].id = leafops[k].id /\ Len(r.leaves[k].path) = leafops[k].depth
\* a failed insertion is one of the documented refusals, and leaves the builder usable state untouched
Refusals == failed \in {"", "NodeNotInDfsOrder", "OverCompleteTree", "InvalidMerkleTreeDepth"}
\* an op sequence that is a prefix of no valid listing is refused at the first offending op
PrefixClosed == failed = "" => \A k \in DOMAIN branch : k < Len(branch) \/ branch[k] # NoneNode

---------------------------------------------------------------------------
(* Huffman construction: repeatedly merge the two lightest nodes; depths of the leaves.                  *)
(* Weights are u32 in the API and their sums exceed 32 bits: a weight is a pair <<hi, lo>> = hi * 2^16 + lo. *)
WNorm(p) == << p[1] + (p[2] \div 65536), p[2] % 65536 >>
WAdd(a, b) == WNorm(<< a[1] + b[1], a[2] + b[2] >>)
WMul(a, d) == WNorm(<< a[1] * d, a[2] * d >>)
WLe(a, b) == a[1] < b[1] \/ (a[1] = b[1] /\ a[2] <= b[2])
W(k) == << 0, k >>
WMax == << 65535, 65535 >>          \* u32::MAX
RECURSIVE Huff(_)
\* nodes: set of [w, leaves: set of <<id, depth>>]; ties broken arbitrarily (CHOOSE): only properties that hold for every tie-break are stated
Huff(nodes) ==
  IF Cardinality(nodes) <= 1 THEN nodes
  ELSE LET a == CHOOSE x \in nodes : \A y \in nodes : WLe(x.w, y.w)
           rest == nodes \ {a}
           b == CHOOSE x \in rest : \A y \in rest : WLe(x.w, y.w)
           m == [w |-> WAdd(a.w, b.w), leaves |-> { <<l[1], l[2] + 1>> : l \in a.leaves \cup b.leaves }]
       IN Huff((rest \ {b}) \cup {m})
HuffDepths(ws) == LET r == Huff({ [w |-> ws[i], leaves |-> {<<i, 0>>}] : i \in DOMAIN ws }) IN (CHOOSE x \in r : TRUE).leaves
=============================================================================
