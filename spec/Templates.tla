------------------------------ MODULE Templates ------------------------------
(* Standard output templates as byte predicates (BIP16, BIP141, BIP341) and the domain of             *)
(* Address::from_script, property C16 (second half).                                                   *)
EXTENDS Integers, Sequences, FiniteSets, TLC
Filler == 66
\* a script of length len with chosen bytes at the positions the predicates look at (-1 = leave the filler)
Mk(len, p0, p1, p2, s2, s1) ==
  LET a0 == [i \in 1..len |-> Filler]
      a1 == IF len >= 1 /\ p0 # -1 THEN [a0 EXCEPT ![1] = p0] ELSE a0
      a2 == IF len >= 2 /\ p1 # -1 THEN [a1 EXCEPT ![2] = p1] ELSE a1
      a3 == IF len >= 3 /\ p2 # -1 THEN [a2 EXCEPT ![3] = p2] ELSE a2
      a4 == IF len >= 2 /\ s2 # -1 THEN [a3 EXCEPT ![len - 1] = s2] ELSE a3
      a5 == IF len >= 1 /\ s1 # -1 THEN [a4 EXCEPT ![len] = s1] ELSE a4
  IN a5
IsP2pkh(b) == Len(b) = 25 /\ b[1] = 118 /\ b[2] = 169 /\ b[3] = 20 /\ b[24] = 136 /\ b[25] = 172
IsP2sh(b)  == Len(b) = 23 /\ b[1] = 169 /\ b[2] = 20 /\ b[23] = 135
IsP2pk(b)  == (Len(b) = 67 /\ b[1] = 65 /\ b[67] = 172) \/ (Len(b) = 35 /\ b[1] = 33 /\ b[35] = 172)
IsWitnessProgram(b) == Len(b) >= 4 /\ Len(b) <= 42 /\ (b[1] = 0 \/ (b[1] >= 81 /\ b[1] <= 96)) /\ b[2] >= 2 /\ b[2] <= 40 /\ Len(b) = b[2] + 2
IsV0P2wpkh(b) == Len(b) = 22 /\ b[1] = 0 /\ b[2] = 20
IsV0P2wsh(b)  == Len(b) = 34 /\ b[1] = 0 /\ b[2] = 32
IsV1P2tr(b)   == Len(b) = 34 /\ b[1] = 81 /\ b[2] = 32
IsV1PlusWitProg(b) == IsWitnessProgram(b) /\ b[1] >= 81
IsOpReturn(b) == Len(b) >= 1 /\ b[1] = 106
IsProvablyUnspendable(b) == Len(b) = 0 \/ (Len(b) >= 1 /\ b[1] = 106)        \* (scripts above 10 000 bytes are outside this family)
\* an address exists exactly for these
AddressDefined(b) == IsP2pkh(b) \/ IsP2sh(b) \/ IsV0P2wpkh(b) \/ IsV0P2wsh(b) \/ IsV1PlusWitProg(b)
AddressKind(b) == CASE IsP2pkh(b) -> "p2pkh" [] IsP2sh(b) -> "p2sh" [] IsV0P2wpkh(b) \/ IsV0P2wsh(b) \/ IsV1PlusWitProg(b) -> "wit" [] OTHER -> "none"
\* the templates are mutually exclusive (no script gets two different addresses)
Exclusive(b) == Cardinality({ k \in {"p2pkh", "p2sh", "wit"} : (k = "p2pkh" /\ IsP2pkh(b)) \/ (k = "p2sh" /\ IsP2sh(b)) \/ (k = "wit" /\ IsWitnessProgram(b)) }) <= 1

P0s == {0, 20, 32, 79, 80, 81, 82, 96, 97, 106, 118, 169}
Fam1 == { Mk(len, p0, p1, -1, -1, -1) : len \in 0..45, p0 \in P0s, p1 \in {0, 1, 2, 3, 19, 20, 21, 31, 32, 33, 39, 40, 41, 42, 76, 169} }
        \cup { Mk(len, p0, len - 2, -1, -1, -1) : len \in 2..45, p0 \in P0s }
Fam2 == { Mk(len, p0, p1, p2, s2, s1) : len \in 23..27, p0 \in {118, 169, 0}, p1 \in {169, 20}, p2 \in {20, 19}, s2 \in {136, -1}, s1 \in {172, 135} }
Fam3 == { Mk(len, p0, p1, -1, -1, s1) : len \in 21..25, p0 \in {169, 118}, p1 \in {20, 19, 21}, s1 \in {135, 136, -1} }
Fam4 == { Mk(len, p0, -1, -1, -1, s1) : len \in {34, 35, 36, 66, 67, 68}, p0 \in {33, 65, 32}, s1 \in {172, -1} }
Family == Fam1 \cup Fam2 \cup Fam3 \cup Fam4
Case(b) == [bytes |-> b, p2pkh |-> IsP2pkh(b), p2sh |-> IsP2sh(b), p2pk |-> IsP2pk(b), witprog |-> IsWitnessProgram(b), p2wpkh |-> IsV0P2wpkh(b),
            p2wsh |-> IsV0P2wsh(b), p2tr |-> IsV1P2tr(b), v1plus |-> IsV1PlusWitProg(b), opreturn |-> IsOpReturn(b),
            unspendable |-> IsProvablyUnspendable(b), addr |-> AddressKind(b)]
=============================================================================
