-------------------------------- MODULE Total --------------------------------
(***************************************************************************)
(* Totality of the fallible public API (property C10).                     *)
(*                                                                         *)
(* The library is used through calls; a call returns Ok / Err / Some / None *)
(* (or a plain value for accessors).  There is NO Panic, Abort or Timeout   *)
(* transition, and a call may allocate at most Base + PerByte * (len + 1)   *)
(* bytes, len being the size of its input (Base covers the documented caps: *)
(* MAX_VEC_SIZE = 4 000 000 bytes per decoded vector, 10 000 PSET maps).    *)
(* Argument classes under which the documentation announces a panic are not *)
(* part of the alphabet (legacy / segwit sighash index out of range,         *)
(* insert_input / insert_output position, remove_checksum on unvalidated     *)
(* data, p2wpkh / p2shwpkh with an uncompressed key, pushes above 4 GB).     *)
(***************************************************************************)
EXTENDS Naturals, Sequences, TLC, Json, IOUtils, TLCExt

Base    == 64 * 1024 * 1024
PerByte == 256
Outcomes == {"ok", "err", "some", "none", "value"}
ApiFamilies == {"decode", "accessor", "parse_str", "parse_slice", "script", "blind", "verify", "pset", "sighash", "taproot", "address", "merge"}

Rec == ndJsonDeserialize(IOEnv.TRACE)
VARIABLES l, phase, calls
vars == <<l, phase, calls>>
Init == l = 1 /\ phase = "idle" /\ calls = 0
Ev == Rec[l]
\* one event = one call and its return (the library is sequential: the linearization point is the return)
CallReturns ==
  /\ l <= Len(Rec) /\ phase = "idle"
  /\ Ev.fam \in ApiFamilies
  /\ Ev.out \in Outcomes
  /\ Ev.panic = FALSE
  /\ Ev.peak <= Base + PerByte * (Ev.len + 1)
  /\ l' = l + 1 /\ calls' = calls + 1 /\ UNCHANGED phase
Next == CallReturns
TraceSpec == Init /\ [][Next]_vars
TraceAccepted ==
  LET d == TLCGet("stats").diameter IN
  IF d - 1 = Len(Rec) THEN TRUE
  ELSE /\ PrintT(<<"TRACE-REJECTED at event", d, IF d <= Len(Rec) THEN Rec[d] ELSE "end">>)
       /\ FALSE
=============================================================================
