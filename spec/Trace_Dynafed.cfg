SPECIFICATION TraceSpec
CONSTANTS
  SbsLens = {0}
  FpLens = {0}
  FpsLens = {0}
  ExtLens = {0}
  MaxExt = 0
  Limits = {"0"}
INVARIANT TraceRootStable
POSTCONDITION TraceAccepted
CHECK_DEADLOCK FALSE
