---- MODULE Trace_Dynafed ----
(* Direction B: sessions recorded from the real library: a dynafed header on  *)
(* which into_compact / wire round trips are applied; after every step the    *)
(* logged kinds must be those of Dynafed's actions and the logged header root *)
(* (a digest) must be the one logged initially (RootStable on the real run).  *)
EXTENDS Dynafed, Json, IOUtils, TLCExt

Rec == ndJsonDeserialize(IOEnv.TRACE)

VARIABLES l, rootHex
tvars == <<vars, l, rootHex>>

IsEvent(e) == l <= Len(Rec) /\ Rec[l].op = e /\ l' = l + 1

Shape(j) == IF j.kind = "null" THEN Null
            ELSE IF j.kind = "compact" THEN [kind |-> "compact", sbs |-> j.sbs, lim |-> j.lim, elided |-> <<"wire">>]
            ELSE [kind |-> "full", sbs |-> j.sbs, lim |-> j.lim, fp |-> j.fp, fps |-> j.fps, ext |-> j.ext]

Start(i) == /\ cur' = Shape(Rec[i].c) /\ prop' = Shape(Rec[i].p)
            /\ root0' = HeaderRoot(Shape(Rec[i].c), Shape(Rec[i].p))
            /\ rootHex' = Rec[i].root

TraceInit == /\ Len(Rec) >= 1 /\ Rec[1].op = "init"
             /\ cur = Shape(Rec[1].c) /\ prop = Shape(Rec[1].p)
             /\ root0 = HeaderRoot(cur, prop)
             /\ rootHex = Rec[1].root /\ l = 2

TInit == IsEvent("init") /\ Start(l)

Observed == /\ Rec[l].ck = cur'.kind /\ Rec[l].pk = prop'.kind
            /\ Rec[l].root = rootHex /\ UNCHANGED rootHex

TCompactCur == /\ IsEvent("compact_cur") /\ Rec[l].some = HasCompact(cur)
               /\ IF HasCompact(cur) THEN CompactCur ELSE UNCHANGED vars
               /\ Observed
TCompactProp == /\ IsEvent("compact_prop") /\ Rec[l].some = HasCompact(prop)
                /\ IF HasCompact(prop) THEN CompactProp ELSE UNCHANGED vars
                /\ Observed
\* serialize + deserialize of the header: a stuttering step of the specification
TWire == IsEvent("wire") /\ Rec[l].ok = TRUE /\ UNCHANGED vars /\ Observed

TraceNext == TInit \/ TCompactCur \/ TCompactProp \/ TWire
TraceSpec == TraceInit /\ [][TraceNext]_tvars

TraceRootStable == HeaderRoot(cur, prop) = root0

TraceAccepted ==
  LET d == TLCGet("stats").diameter IN
  IF d = Len(Rec) THEN TRUE
  ELSE /\ PrintT(<<"TRACE-REJECTED at event", d + 1, IF d + 1 <= Len(Rec) THEN Rec[d + 1] ELSE "end">>)
       /\ FALSE
====
