SPECIFICATION TraceSpec
CONSTANT MaxN = 100000
INVARIANT TraceCorrect
POSTCONDITION TraceAccepted
CHECK_DEADLOCK FALSE
