-------------------------- MODULE Trace_FastMerkle --------------------------
(* Direction B: every step the real fast_merkle_root took (hook events) must *)
(* be a step of FastMerkle, with the values it combined being those of the   *)
(* specification's terms.  `hx` maps each term met so far to the (truncated)  *)
(* digest the implementation produced for it.                                 *)
EXTENDS FastMerkle, Json, IOUtils, TLCExt

Rec == ndJsonDeserialize(IOEnv.TRACE)

VARIABLES l, hx
tvars == <<vars, l, hx>>

IsEvent(e) == l <= Len(Rec) /\ Rec[l].ev = e /\ l' = l + 1

Learn(t, h) == /\ (t \in DOMAIN hx => hx[t] = h)
               /\ hx' = (t :> h) @@ hx
Knows(t, h) == t \in DOMAIN hx /\ hx[t] = h

TraceInit == /\ Len(Rec) >= 1 /\ Rec[1].ev = "reset"
             /\ n = Rec[1].n
             /\ inner = [k \in Levels |-> ZERO]
             /\ count = 0 /\ level = 0 /\ temp = ZERO /\ result = ZERO
             /\ pc = "leaf"
             /\ l = 2
             /\ hx = (ZERO :> Rec[1].zero)

TReset == /\ pc = "done" /\ IsEvent("reset")
          /\ n' = Rec[l].n
          /\ inner' = [k \in Levels |-> ZERO]
          /\ count' = 0 /\ level' = 0 /\ temp' = ZERO /\ result' = ZERO
          /\ pc' = "leaf"
          /\ hx' = (ZERO :> Rec[l].zero)

TEmpty == IsEvent("done") /\ EmptyA /\ Knows(result, Rec[l].value) /\ UNCHANGED hx
TLeaf  == IsEvent("leaf") /\ LeafA /\ Rec[l].index = count /\ Learn(temp', Rec[l].value)
TCarry == /\ IsEvent("carry") /\ CarryA /\ Rec[l].level = level
          /\ Knows(inner[level], Rec[l].left) /\ Knows(temp, Rec[l].right)
          /\ Learn(temp', Rec[l].out)
TStore == /\ IsEvent("store") /\ StoreA /\ Rec[l].level = level
          /\ Knows(temp, Rec[l].value) /\ UNCHANGED hx
TSkip  == IsEvent("skip") /\ SkipA /\ Rec[l].level = level' /\ UNCHANGED hx
TSweepStart == /\ IsEvent("sweepstart") /\ SweepStartA /\ Rec[l].level = level
               /\ Knows(result', Rec[l].value) /\ UNCHANGED hx
TPromote == IsEvent("promote") /\ PromoteA /\ Rec[l].level = level' /\ UNCHANGED hx
TCombine == /\ IsEvent("combine") /\ CombineA /\ Rec[l].level = level
            /\ Knows(inner[level], Rec[l].left) /\ Knows(result, Rec[l].right)
            /\ Learn(result', Rec[l].out)
TDone == /\ IsEvent("done") /\ DoneA /\ Knows(result, Rec[l].value) /\ UNCHANGED hx

TraceNext == TReset \/ TEmpty \/ TLeaf \/ TCarry \/ TStore \/ TSkip
             \/ TSweepStart \/ TPromote \/ TCombine \/ TDone

TraceSpec == TraceInit /\ [][TraceNext]_tvars

\* every invariant of the specification is evaluated on the implementation's run
TraceCorrect == pc = "done" => result = Def(n)

TraceAccepted ==
  LET d == TLCGet("stats").diameter IN
  IF d = Len(Rec) THEN TRUE
  ELSE /\ PrintT(<<"TRACE-REJECTED at event", d + 1,
                   IF d + 1 <= Len(Rec) THEN Rec[d + 1] ELSE "end">>)
       /\ FALSE
=============================================================================
