---- MODULE Trace_Pset ----
(* Direction B for C07: byte-level mutations (bit flips, byte edits, length edits, truncation,      *)
(* extension, pair splices) of the repository's PSET vectors and of generated PSETs, decoded by the  *)
(* real library.  Every accepted string must satisfy the codec contract:                              *)
(*   canonical re-encoding decodes to an equal PSET and re-encodes to itself; base64 text agrees;     *)
(*   no call panics.                                                                                   *)
EXTENDS Naturals, Sequences, TLC, Json, IOUtils, TLCExt
Rec == ndJsonDeserialize(IOEnv.TRACE)
VARIABLES l, accepted
vars == <<l, accepted>>
Init == l = 1 /\ accepted = 0
Ev == Rec[l]
Accepted == /\ l <= Len(Rec) /\ Ev.ev = "pset_decode" /\ Ev.panic = FALSE /\ Ev.accepted = TRUE
            /\ Ev.canon_decodes_equal = TRUE      \* dec(enc(x)) = x
            /\ Ev.canon_fixpoint = TRUE           \* enc(dec(enc(x))) = enc(x)
            /\ Ev.base64_roundtrip = TRUE
            /\ Ev.counts_consistent = TRUE        \* declared counts = number of maps
            /\ l' = l + 1 /\ accepted' = accepted + 1
Rejected == /\ l <= Len(Rec) /\ Ev.ev = "pset_decode" /\ Ev.panic = FALSE /\ Ev.accepted = FALSE
            /\ l' = l + 1 /\ UNCHANGED accepted
Next == Accepted \/ Rejected
TraceSpec == Init /\ [][Next]_vars
TraceAccepted ==
  LET d == TLCGet("stats").diameter IN
  IF d - 1 = Len(Rec) THEN TRUE
  ELSE /\ PrintT(<<"TRACE-REJECTED at event", d, IF d <= Len(Rec) THEN Rec[d] ELSE "end">>)
       /\ FALSE
====
