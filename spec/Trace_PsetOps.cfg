SPECIFICATION TraceSpec
CONSTANTS
  MaxLen = 1000
  MaxOps = 1000000
INVARIANT CountsAgree
INVARIANT IdsDistinct
INVARIANT OwnerStable
POSTCONDITION TraceAccepted
CHECK_DEADLOCK FALSE
