---- MODULE Trace_PsetOps ----
(* Direction B: random sessions of add / insert / remove calls on the real PSET; every call must be the   *)
(* PsetOps action with the logged arguments, return the value the specification computes and leave       *)
(* exactly the projected state (identities in order, blinder indices, global counts) it computes.        *)
EXTENDS PsetOps, Json, IOUtils, TLCExt
Rec == ndJsonDeserialize(IOEnv.TRACE)
VARIABLE l
tvars == <<vars, l>>
TraceInit == st = S0 /\ nops = 0 /\ l = 1
TReset == /\ l <= Len(Rec) /\ Rec[l].op = "reset" /\ l' = l + 1
          /\ st' = S0 /\ nops' = 0
Proj(s) == [ins |-> s.ins, outs |-> [k \in DOMAIN s.outs |-> << s.outs[k].id, s.outs[k].bi >>], icount |-> s.icount, ocount |-> s.ocount]
TStep == /\ l <= Len(Rec) /\ Rec[l].op # "reset" /\ l' = l + 1
         /\ LET e == Rec[l]  op == [k |-> e.op, pos |-> e.pos, bi |-> e.bi] IN
            /\ op \in OpsFor(st, 1000)
            /\ st' = ApplyOp(st, op) /\ nops' = nops + 1
            /\ e.ret = Returns(st, op)
            /\ Proj(st') = [ins |-> e.ins, outs |-> e.outs, icount |-> e.icount, ocount |-> e.ocount]
            /\ e.sane /\ e.rt           \* CountsAgree observed through sanity_check() and through the codec
TraceNext == TReset \/ TStep
TraceSpec == TraceInit /\ [][TraceNext]_tvars
TraceAccepted ==
  LET d == TLCGet("stats").diameter IN
  IF d - 1 = Len(Rec) THEN TRUE
  ELSE /\ PrintT(<<"TRACE-REJECTED at event", d, IF d <= Len(Rec) THEN Rec[d] ELSE "end">>)
       /\ FALSE
====
