SPECIFICATION TraceSpec
CONSTANTS
  NIn = 3
  NOut = 2
  MaxSteps = 1000000
INVARIANT TraceFold
POSTCONDITION TraceAccepted
CHECK_DEADLOCK FALSE
