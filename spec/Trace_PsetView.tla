---- MODULE Trace_PsetView ----
(* Direction B: long random updater/signer/finalizer histories recorded from the real PSET;  *)
(* each step must be an action of PsetView whose effect on unique id and lock time is the    *)
(* one the specification computes.                                                            *)
EXTENDS PsetView, Json, IOUtils, TLCExt
Rec == ndJsonDeserialize(IOEnv.TRACE)
VARIABLE l
tvars == <<vars, l>>

Act(e) == [op |-> e.op, pos |-> e.pos, f |-> e.f]
TraceInit == pset = P0 /\ steps = 0 /\ l = 1
TReset == /\ l <= Len(Rec) /\ Rec[l].op = "reset" /\ l' = l + 1
          /\ pset' = P0 /\ steps' = 0
TStep == /\ l <= Len(Rec) /\ Rec[l].op # "reset" /\ l' = l + 1
         /\ Act(Rec[l]) \in Actions
         /\ pset' = Apply(pset, Act(Rec[l])) /\ steps' = steps + 1
         /\ Rec[l].same = (IdData(pset') = IdData(P0))
         /\ Rec[l].lock = LockTime(pset'.ins, pset'.fb)
TraceNext == TReset \/ TStep
TraceSpec == TraceInit /\ [][TraceNext]_tvars
TraceFold == LockTime(pset.ins, pset.fb) = Bip370(pset.ins, pset.fb)
TraceAccepted ==
  LET d == TLCGet("stats").diameter IN
  IF d - 1 = Len(Rec) THEN TRUE
  ELSE /\ PrintT(<<"TRACE-REJECTED at event", d, IF d <= Len(Rec) THEN Rec[d] ELSE "end">>)
       /\ FALSE
====
