SPECIFICATION TraceSpec
CONSTANTS
  NIn = 3
  MaxSteps = 1000000
INVARIANTS AnswersFresh NoCacheOnWitness SegwitImpliesCommon
POSTCONDITION TraceAccepted
CHECK_DEADLOCK FALSE
