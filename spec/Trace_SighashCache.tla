---- MODULE Trace_SighashCache ----
(* Direction B: random query sequences (length <= 50) on one real SighashCache, each event carrying *)
(* the hook's cache state; every step must be SighashCache!Do of that symbol, with the predicted     *)
(* cache state, the predicted ok/error outcome and an answer equal to a fresh cache's.               *)
EXTENDS SighashCache, Json, IOUtils, TLCExt
Rec == ndJsonDeserialize(IOEnv.TRACE)
VARIABLE l
tvars == <<vars, l>>
Sym(e) == [op |-> e.op, i |-> e.i, ht |-> e.ht, pv |-> e.pv]
TraceInit == Init /\ l = 1
TReset == /\ l <= Len(Rec) /\ Rec[l].op = "reset" /\ l' = l + 1
          /\ ver' = [g \in Groups |-> 0] /\ common' = None /\ segwit' = None /\ taproot' = None /\ steps' = 0 /\ lastOk' = TRUE
TStep == /\ l <= Len(Rec) /\ Rec[l].op # "reset" /\ l' = l + 1
         /\ Sym(Rec[l]) \in Symbols
         /\ Do(Sym(Rec[l]))
         /\ Rec[l].fill = << common' # None, segwit' # None, taproot' # None >>
         /\ Rec[l].fresh_eq = TRUE
         /\ (Rec[l].op = "taproot" => (Rec[l].ok = ~TaprootError(Sym(Rec[l]))))
         /\ (Rec[l].op \in {"legacy", "segwit", "witness_mut"} => Rec[l].ok = TRUE)
TraceNext == TReset \/ TStep
TraceSpec == TraceInit /\ [][TraceNext]_tvars
TraceAccepted ==
  LET d == TLCGet("stats").diameter IN
  IF d - 1 = Len(Rec) THEN TRUE
  ELSE /\ PrintT(<<"TRACE-REJECTED at event", d, IF d <= Len(Rec) THEN Rec[d] ELSE "end">>)
       /\ FALSE
====
