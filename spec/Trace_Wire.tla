---- MODULE Trace_Wire ----
(* Direction B for C01: byte-level mutations of valid encodings (bit flips, byte edits,       *)
(* length-field edits, truncation, extension, splices) decoded by the real library; the       *)
(* outcome of every call must be one the WireSession contract allows:                          *)
(*   deserialize accepted   => everything consumed, re-encoding reproduces the input bytes,   *)
(*                             the decoded value decodes again to an equal value, and the      *)
(*                             encoder reports the number of bytes it wrote;                   *)
(*   deserialize_partial ok => the consumed prefix re-encodes to itself;                       *)
(*   no call panics.                                                                            *)
EXTENDS Naturals, Sequences, TLC, Json, IOUtils, TLCExt
Rec == ndJsonDeserialize(IOEnv.TRACE)
VARIABLES l, accepted, rejected
vars == <<l, accepted, rejected>>
Types == {"Transaction", "TxIn", "TxOut", "TxInWitness", "TxOutWitness", "Block", "BlockHeader", "Params", "FullParams",
          "Asset", "Value", "Nonce", "AssetIssuance", "OutPoint", "Script", "LockTime", "Sequence"}
Init == l = 1 /\ accepted = 0 /\ rejected = 0
Ev == Rec[l]
DecodeOk ==
  /\ l <= Len(Rec) /\ Ev.ev = "decode" /\ Ev.ty \in Types /\ Ev.panic = FALSE /\ Ev.accepted = TRUE
  /\ Ev.consumed = Ev.len            \* deserialize consumed all of it
  /\ Ev.reenc_eq = TRUE              \* re-encoding reproduces exactly the same bytes
  /\ Ev.enc_ret = Ev.len             \* reported length = bytes written
  /\ Ev.redecode_eq = TRUE           \* and decodes back to an equal value
  /\ l' = l + 1 /\ accepted' = accepted + 1 /\ UNCHANGED rejected
DecodeRejected ==
  /\ l <= Len(Rec) /\ Ev.ev = "decode" /\ Ev.ty \in Types /\ Ev.panic = FALSE /\ Ev.accepted = FALSE
  /\ (Ev.partial = TRUE => (Ev.consumed <= Ev.len /\ Ev.reenc_eq = TRUE))   \* a valid prefix followed by trailing bytes
  /\ l' = l + 1 /\ rejected' = rejected + 1 /\ UNCHANGED accepted
Next == DecodeOk \/ DecodeRejected
TraceSpec == Init /\ [][Next]_vars
TraceAccepted ==
  LET d == TLCGet("stats").diameter IN
  IF d - 1 = Len(Rec) THEN TRUE
  ELSE /\ PrintT(<<"TRACE-REJECTED at event", d, IF d <= Len(Rec) THEN Rec[d] ELSE "end">>)
       /\ FALSE
====
