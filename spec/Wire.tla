-------------------------------- MODULE Wire --------------------------------
(***************************************************************************)
(* Elements consensus wire format (src/encode.rs, transaction.rs,          *)
(* confidential.rs, block.rs, dynafed.rs): properties C01, C02, C12.       *)
(*                                                                         *)
(* Values are *shapes*: records whose leaves are named byte fields          *)
(* [f |-> name, len |-> n, a |-> attribute]; contents are bound by the      *)
(* harness.  Byte strings are sequences of *tokens*:                        *)
(*   <<"u8", n>>  <<"u32", hex>>  <<"viw", n, width>>  <<"f", name, len, a>> *)
(* Enc_* are the encoders, Dec_* an independent recursive-descent decoder   *)
(* over tokens with every rejection rule of the real decoder made explicit. *)
(* A "defect" is a named deviation injected into an encoding (non-minimal   *)
(* varint, bad prefix, bad flag, null issuance, empty witnesses under flag  *)
(* 1, trailing token, truncation ...).                                      *)
(***************************************************************************)
EXTENDS Naturals, Sequences, FiniteSets, TLC, SequencesExt

---------------------------------------------------------------------------
(* Tokens *)
U8(x)        == <<"u8", x>>
U32(h)       == <<"u32", h>>              \* h: hex string of the 32-bit value (little endian on the wire)
VIW(n, w)    == <<"viw", n, w>>           \* varint of value n written with width w in {1,3,5,9}
Fld(f, n, a) == <<"f", f, n, a>>          \* n bytes bound to field f; a: "r" random, "z" zero, "rp"/"sp" proofs,
                                          \* "pt" valid curve point x, "bx" invalid point, "sc" valid scalar, "bs" invalid scalar
MinW(n) == IF n < 253 THEN 1 ELSE IF n <= 65535 THEN 3 ELSE 5
VI(n)   == VIW(n, MinW(n))

Width(t) == CASE t[1] = "u8" -> 1 [] t[1] = "u32" -> 4 [] t[1] = "viw" -> t[3] [] t[1] = "vihi" -> 9 [] t[1] = "f" -> t[3]
RECURSIVE SumW(_, _)
SumW(toks, i) == IF i > Len(toks) THEN 0 ELSE Width(toks[i]) + SumW(toks, i + 1)
ByteLen(toks) == SumW(toks, 1)

---------------------------------------------------------------------------
(* Leaves *)
B(f, n)      == [f |-> f, len |-> n, a |-> "r"]       \* byte string / script
EncVarBytes(b) == IF b.len = 0 THEN << VI(0) >> ELSE << VI(b.len), Fld(b.f, b.len, b.a) >>

\* confidential Value / Asset / Nonce:  kind "null" | "expl" | one of the commitment prefixes
ConfPrefixes(fam) == CASE fam = "value" -> {8, 9} [] fam = "asset" -> {10, 11} [] fam = "nonce" -> {2, 3}
ExplLen(fam)      == IF fam = "value" THEN 8 ELSE 32
Conf(k, f)        == [k |-> k, f |-> f]               \* k: "null" | "expl" | "c8" "c9" | "ca" "cb" | "c2" "c3"
PrefixOf(k) == CASE k = "c8" -> 8 [] k = "c9" -> 9 [] k = "ca" -> 10 [] k = "cb" -> 11 [] k = "c2" -> 2 [] k = "c3" -> 3
KindOf(p)   == CASE p = 8 -> "c8" [] p = 9 -> "c9" [] p = 10 -> "ca" [] p = 11 -> "cb" [] p = 2 -> "c2" [] p = 3 -> "c3"
IsConfKind(k) == k \notin {"null", "expl"}
EncConf(c, fam) ==
  CASE c.k = "null" -> << U8(0) >>
    [] c.k = "expl" -> << U8(1), Fld(c.f, ExplLen(fam), "r") >>
    [] OTHER        -> << U8(PrefixOf(c.k)), Fld(c.f, 32, "pt") >>
ConfLen(c, fam) == CASE c.k = "null" -> 1 [] c.k = "expl" -> 1 + ExplLen(fam) [] OTHER -> 33

\* outpoint index classes and the flag bits folded into them on the wire
VoutHex(cls, peg, iss) ==
  CASE cls = "null"  -> "ffffffff"
    [] cls = "zero"  -> IF iss THEN (IF peg THEN "c0000000" ELSE "80000000") ELSE (IF peg THEN "40000000" ELSE "0")
    [] cls = "small" -> IF iss THEN (IF peg THEN "c0000007" ELSE "80000007") ELSE (IF peg THEN "40000007" ELSE "7")
    [] cls = "max30" -> IF iss THEN (IF peg THEN "ffffffff" ELSE "bfffffff") ELSE (IF peg THEN "7fffffff" ELSE "3fffffff")
VoutOfHex(h) ==       \* what the decoder recovers: flags are NOT interpreted for 0xffffffff
  CASE h = "ffffffff" -> [cls |-> "null", peg |-> FALSE, iss |-> FALSE]
    [] h = "0" -> [cls |-> "zero", peg |-> FALSE, iss |-> FALSE]
    [] h = "40000000" -> [cls |-> "zero", peg |-> TRUE, iss |-> FALSE]
    [] h = "80000000" -> [cls |-> "zero", peg |-> FALSE, iss |-> TRUE]
    [] h = "c0000000" -> [cls |-> "zero", peg |-> TRUE, iss |-> TRUE]
    [] h = "7" -> [cls |-> "small", peg |-> FALSE, iss |-> FALSE]
    [] h = "40000007" -> [cls |-> "small", peg |-> TRUE, iss |-> FALSE]
    [] h = "80000007" -> [cls |-> "small", peg |-> FALSE, iss |-> TRUE]
    [] h = "c0000007" -> [cls |-> "small", peg |-> TRUE, iss |-> TRUE]
    [] h = "3fffffff" -> [cls |-> "max30", peg |-> FALSE, iss |-> FALSE]
    [] h = "7fffffff" -> [cls |-> "max30", peg |-> TRUE, iss |-> FALSE]
    [] h = "bfffffff" -> [cls |-> "max30", peg |-> FALSE, iss |-> TRUE]

---------------------------------------------------------------------------
(* Shapes and encoders *)
NoIss == [has |-> FALSE]
Iss(nonceAttr, nf, ef, amount, keys) == [has |-> TRUE, na |-> nonceAttr, nf |-> nf, ef |-> ef, amount |-> amount, keys |-> keys]
IssIsNull(i) == i.has /\ i.amount.k = "null" /\ i.keys.k = "null"

EncIssuance(i) == << Fld(i.nf, 32, i.na), Fld(i.ef, 32, "r") >> \o EncConf(i.amount, "value") \o EncConf(i.keys, "value")

\* TxIn: [txid, vout, pegin, ss, seq, iss, wit]
EncTxIn(t) ==
  << Fld(t.txid, 32, "r"), U32(VoutHex(t.vout, t.pegin, t.iss.has)) >> \o EncVarBytes(t.ss) \o << U32(t.seq) >>
  \o (IF t.iss.has THEN EncIssuance(t.iss) ELSE << >>)

RECURSIVE EncStackFrom(_, _)
EncStackFrom(s, i) == IF i > Len(s) THEN << >> ELSE EncVarBytes(s[i]) \o EncStackFrom(s, i + 1)
EncStack(s) == << VI(Len(s)) >> \o EncStackFrom(s, 1)

\* TxInWitness: [arp, krp, sw, pw]; proofs are byte fields with a = "rp"/"sp", len 0 = absent
EncInWit(w)  == EncVarBytes(w.arp) \o EncVarBytes(w.krp) \o EncStack(w.sw) \o EncStack(w.pw)
InWitEmpty(w) == w.arp.len = 0 /\ w.krp.len = 0 /\ Len(w.sw) = 0 /\ Len(w.pw) = 0
EncOutWit(w) == EncVarBytes(w.sp) \o EncVarBytes(w.rp)
OutWitEmpty(w) == w.sp.len = 0 /\ w.rp.len = 0

\* TxOut: [asset, value, nonce, spk, wit]
EncTxOut(o) == EncConf(o.asset, "asset") \o EncConf(o.value, "value") \o EncConf(o.nonce, "nonce") \o EncVarBytes(o.spk)

RECURSIVE CatMap(_, _, _)
CatMap(Op(_), s, i) == IF i > Len(s) THEN << >> ELSE Op(s[i]) \o CatMap(Op, s, i + 1)

HasWitness(tx) == (\E i \in DOMAIN tx.ins : ~InWitEmpty(tx.ins[i].wit)) \/ (\E j \in DOMAIN tx.outs : ~OutWitEmpty(tx.outs[j].wit))

EncInWitOf(t)  == EncInWit(t.wit)
EncOutWitOf(o) == EncOutWit(o.wit)

\* Transaction: [version, ins, outs, lock]
EncTxBody(tx, flag) ==
  << U32(tx.version), U8(flag), VI(Len(tx.ins)) >> \o CatMap(EncTxIn, tx.ins, 1)
  \o << VI(Len(tx.outs)) >> \o CatMap(EncTxOut, tx.outs, 1) \o << U32(tx.lock) >>
EncTxWits(tx) == CatMap(EncInWitOf, tx.ins, 1) \o CatMap(EncOutWitOf, tx.outs, 1)
EncTx(tx) == IF HasWitness(tx) THEN EncTxBody(tx, 1) \o EncTxWits(tx) ELSE EncTxBody(tx, 0)

\* C02: preimages of the ids
TxidPre(tx)  == EncTxBody(tx, 0)          \* literal 0 flag, never any witness
WtxidPre(tx) == EncTx(tx)

---------------------------------------------------------------------------
(* Decoder: recursive descent over tokens.  Results: [ok, val, rest].      *)
Fail == [ok |-> FALSE, val |-> << >>, rest |-> << >>]
Okay(v, r) == [ok |-> TRUE, val |-> v, rest |-> r]
IsTok(t, kind) == Len(t) > 0 /\ t[1][1] = kind

DecU8(t)  == IF IsTok(t, "u8") THEN Okay(t[1][2], Tail(t)) ELSE Fail
DecU32(t) == IF IsTok(t, "u32") THEN Okay(t[1][2], Tail(t)) ELSE Fail
\* varint: non-minimal width is rejected
\* <<"vihi", n>> is the CompactSize 2^32 + n (nine bytes, minimal): it exceeds every bound a decoder has (MaxVec bytes, MaxVec / size_of
\* elements), so every reader of a length or count refuses it -- in particular it must not be taken for n
DecVI(t)  == IF IsTok(t, "viw") /\ t[1][3] = MinW(t[1][2]) THEN Okay(t[1][2], Tail(t)) ELSE Fail
\* n raw bytes with an acceptable attribute
DecFld(t, n, attrs) == IF IsTok(t, "f") /\ t[1][3] = n /\ t[1][4] \in attrs
                       THEN Okay([f |-> t[1][2], len |-> n, a |-> t[1][4]], Tail(t)) ELSE Fail

MaxVec == 4000000
DecVarBytes(t, attrs) ==
  LET n == DecVI(t) IN
  IF ~n.ok \/ n.val > MaxVec THEN Fail
  ELSE IF n.val = 0 THEN Okay([f |-> "", len |-> 0, a |-> "r"], n.rest)
  ELSE DecFld(n.rest, n.val, attrs)
\* canonical empty field has the name of its position; the decoder cannot know it, so names of
\* empty fields are normalised to "" on both sides (see Norm below)

DecConf(t, fam) ==
  LET p == DecU8(t) IN
  IF ~p.ok THEN Fail
  ELSE IF p.val = 0 THEN Okay(Conf("null", ""), p.rest)
  ELSE IF p.val = 1 THEN
       LET b == DecFld(p.rest, ExplLen(fam), {"r"}) IN IF b.ok THEN Okay(Conf("expl", b.val.f), b.rest) ELSE Fail
  ELSE IF p.val \in ConfPrefixes(fam) THEN
       LET b == DecFld(p.rest, 32, {"pt"}) IN IF b.ok THEN Okay(Conf(KindOf(p.val), b.val.f), b.rest) ELSE Fail   \* invalid points rejected
  ELSE Fail                                                                                              \* unknown prefix

DecIssuance(t) ==
  LET n == DecFld(t, 32, {"sc", "z"}) IN IF ~n.ok THEN Fail ELSE          \* the nonce must be a valid scalar
  LET e == DecFld(n.rest, 32, {"r"}) IN IF ~e.ok THEN Fail ELSE
  LET a == DecConf(e.rest, "value") IN IF ~a.ok THEN Fail ELSE
  LET k == DecConf(a.rest, "value") IN IF ~k.ok THEN Fail ELSE
  Okay(Iss(n.val.a, n.val.f, e.val.f, a.val, k.val), k.rest)

EmptyInWit  == [arp |-> B("", 0), krp |-> B("", 0), sw |-> << >>, pw |-> << >>]
EmptyOutWit == [sp |-> B("", 0), rp |-> B("", 0)]

DecTxIn(t) ==
  LET h == DecFld(t, 32, {"r"}) IN IF ~h.ok THEN Fail ELSE
  LET v == DecU32(h.rest) IN IF ~v.ok THEN Fail ELSE
  LET s == DecVarBytes(v.rest, {"r"}) IN IF ~s.ok THEN Fail ELSE
  LET q == DecU32(s.rest) IN IF ~q.ok THEN Fail ELSE
  LET o == VoutOfHex(v.val) IN
  IF o.iss
  THEN LET i == DecIssuance(q.rest) IN
       IF ~i.ok \/ IssIsNull(i.val) THEN Fail                           \* superfluous (null) issuance rejected
       ELSE Okay([txid |-> h.val.f, vout |-> o.cls, pegin |-> o.peg, ss |-> s.val, seq |-> q.val, iss |-> i.val, wit |-> EmptyInWit], i.rest)
  ELSE Okay([txid |-> h.val.f, vout |-> o.cls, pegin |-> o.peg, ss |-> s.val, seq |-> q.val, iss |-> NoIss, wit |-> EmptyInWit], q.rest)

DecTxOut(t) ==
  LET a == DecConf(t, "asset") IN IF ~a.ok THEN Fail ELSE
  LET v == DecConf(a.rest, "value") IN IF ~v.ok THEN Fail ELSE
  LET n == DecConf(v.rest, "nonce") IN IF ~n.ok THEN Fail ELSE
  LET s == DecVarBytes(n.rest, {"r"}) IN IF ~s.ok THEN Fail ELSE
  Okay([asset |-> a.val, value |-> v.val, nonce |-> n.val, spk |-> s.val, wit |-> EmptyOutWit], s.rest)

\* generic counted vector; ElemSize bounds the count as the code does (count * size_of::<T>() <= MaxVec)
RECURSIVE DecN(_, _, _, _)
DecN(Dec(_), t, n, acc) ==
  IF n = 0 THEN Okay(acc, t)
  ELSE LET e == Dec(t) IN IF ~e.ok THEN Fail ELSE DecN(Dec, e.rest, n - 1, Append(acc, e.val))
DecVec(Dec(_), t, maxCount) ==
  LET n == DecVI(t) IN IF ~n.ok \/ n.val > maxCount THEN Fail ELSE DecN(Dec, n.rest, n.val, << >>)

DecItem(t)  == DecVarBytes(t, {"r"})
DecStack(t) == DecVec(DecItem, t, 100000)
DecInWit(t) ==
  LET a == DecVarBytes(t, {"rp"}) IN IF ~a.ok THEN Fail ELSE
  LET k == DecVarBytes(a.rest, {"rp"}) IN IF ~k.ok THEN Fail ELSE
  LET s == DecStack(k.rest) IN IF ~s.ok THEN Fail ELSE
  LET p == DecStack(s.rest) IN IF ~p.ok THEN Fail ELSE
  Okay([arp |-> a.val, krp |-> k.val, sw |-> s.val, pw |-> p.val], p.rest)
DecOutWit(t) ==
  LET s == DecVarBytes(t, {"sp"}) IN IF ~s.ok THEN Fail ELSE
  LET r == DecVarBytes(s.rest, {"rp"}) IN IF ~r.ok THEN Fail ELSE
  Okay([sp |-> s.val, rp |-> r.val], r.rest)

RECURSIVE DecWitsIn(_, _, _)
DecWitsIn(t, ins, i) ==
  IF i > Len(ins) THEN Okay(ins, t)
  ELSE LET w == DecInWit(t) IN IF ~w.ok THEN Fail ELSE DecWitsIn(w.rest, [ins EXCEPT ![i].wit = w.val], i + 1)
RECURSIVE DecWitsOut(_, _, _)
DecWitsOut(t, outs, j) ==
  IF j > Len(outs) THEN Okay(outs, t)
  ELSE LET w == DecOutWit(t) IN IF ~w.ok THEN Fail ELSE DecWitsOut(w.rest, [outs EXCEPT ![j].wit = w.val], j + 1)

DecTx(t) ==
  LET v == DecU32(t) IN IF ~v.ok THEN Fail ELSE
  LET f == DecU8(v.rest) IN IF ~f.ok THEN Fail ELSE
  LET i == DecVec(DecTxIn, f.rest, 13000) IN IF ~i.ok THEN Fail ELSE
  LET o == DecVec(DecTxOut, i.rest, 13000) IN IF ~o.ok THEN Fail ELSE
  LET l == DecU32(o.rest) IN IF ~l.ok THEN Fail ELSE
  IF f.val = 0 THEN Okay([version |-> v.val, ins |-> i.val, outs |-> o.val, lock |-> l.val], l.rest)
  ELSE IF f.val = 1 THEN
       LET wi == DecWitsIn(l.rest, i.val, 1) IN IF ~wi.ok THEN Fail ELSE
       LET wo == DecWitsOut(wi.rest, o.val, 1) IN IF ~wo.ok THEN Fail ELSE
       LET tx == [version |-> v.val, ins |-> wi.val, outs |-> wo.val, lock |-> l.val] IN
       IF ~HasWitness(tx) THEN Fail                                        \* flag 1 but every witness empty
       ELSE Okay(tx, wo.rest)
  ELSE Fail                                                                \* flag not in {0,1}

\* deserialize = decode and require that nothing is left; deserialize_partial reports what was consumed
DeserializeAll(Dec(_), t) == LET r == Dec(t) IN IF r.ok /\ Len(r.rest) = 0 THEN r ELSE Fail
Consumed(t, r) == ByteLen(t) - ByteLen(r.rest)

---------------------------------------------------------------------------
(* Normalisation: the name of an empty byte field is not observable *)
NormB(b) == IF b.len = 0 THEN B("", 0) ELSE b
NormC(c) == IF c.k = "null" THEN Conf("null", "") ELSE c
NormIn(t) == [t EXCEPT !.ss = NormB(@),
                       !.iss = IF @.has THEN [@ EXCEPT !.amount = NormC(@), !.keys = NormC(@)] ELSE @,
                       !.wit = [arp |-> NormB(@.arp), krp |-> NormB(@.krp),
                                sw |-> [k \in DOMAIN @.sw |-> NormB(@.sw[k])], pw |-> [k \in DOMAIN @.pw |-> NormB(@.pw[k])]]]
NormOut(o) == [o EXCEPT !.asset = NormC(@), !.value = NormC(@), !.nonce = NormC(@), !.spk = NormB(@),
                        !.wit = [sp |-> NormB(@.sp), rp |-> NormB(@.rp)]]
NormTx(tx) == [tx EXCEPT !.ins = [i \in DOMAIN @ |-> NormIn(@[i])], !.outs = [j \in DOMAIN @ |-> NormOut(@[j])]]

\* Canonical in-memory transactions: index 2^30-1 of a pegin that also issues is bit-identical to the
\* null index on the wire (a corner of the format itself), and the null outpoint carries no flags.
CanonIn(t) == /\ ~(t.vout = "max30" /\ t.pegin /\ t.iss.has)
              /\ (t.vout = "null" => ~t.pegin /\ ~t.iss.has)
              /\ (t.iss.has => ~IssIsNull(t.iss))
CanonTx(tx) == \A i \in DOMAIN tx.ins : CanonIn(tx.ins[i])

---------------------------------------------------------------------------
(* Sizes (C12) *)
Size(tx)        == ByteLen(EncTx(tx))
StrippedSize(tx) == ByteLen(EncTxBody(tx, 0))
Weight(tx)      == 3 * StrippedSize(tx) + Size(tx)
CeilDiv4(x)     == (x + 3) \div 4
VSize(tx)       == CeilDiv4(Weight(tx))
\* bytes the witness of output o occupies in the full serialization (0 when the tx carries no witness at all)
OutWitBytes(tx, o) == IF HasWitness(tx) THEN ByteLen(EncOutWit(o.wit)) ELSE 0
Monus(a, b) == IF a > b THEN a - b ELSE 0
RECURSIVE DiscountSum(_, _)
DiscountSum(tx, j) ==
  IF j > Len(tx.outs) THEN 0
  ELSE LET o == tx.outs[j] IN
       Monus(ByteLen(EncOutWit(o.wit)), 2)
       + (IF IsConfKind(o.value.k) THEN 96 ELSE 0)
       + (IF IsConfKind(o.nonce.k) THEN 128 ELSE 0)
       + DiscountSum(tx, j + 1)
DiscountWeight(tx) == Weight(tx) - DiscountSum(tx, 1)
DiscountVSize(tx)  == CeilDiv4(DiscountWeight(tx))

\* transcription of Transaction::scaled_size (the hand-written second implementation of the encoder)
VarIntSize(n) == MinW(n)
RECURSIVE StackSize(_, _)
StackSize(s, i) == IF i > Len(s) THEN 0 ELSE VarIntSize(s[i].len) + s[i].len + StackSize(s, i + 1)
ScaledIn(t, scale, wflag) ==
  scale * (32 + 4 + 4 + VarIntSize(t.ss.len) + t.ss.len
           + (IF t.iss.has THEN 64 + ConfLen(t.iss.amount, "value") + ConfLen(t.iss.keys, "value") ELSE 0))
  + (IF wflag THEN VarIntSize(t.wit.arp.len) + t.wit.arp.len + VarIntSize(t.wit.krp.len) + t.wit.krp.len
                   + VarIntSize(Len(t.wit.sw)) + StackSize(t.wit.sw, 1) + VarIntSize(Len(t.wit.pw)) + StackSize(t.wit.pw, 1)
     ELSE 0)
ScaledOut(o, scale, wflag) ==
  scale * (ConfLen(o.asset, "asset") + ConfLen(o.value, "value") + ConfLen(o.nonce, "nonce") + VarIntSize(o.spk.len) + o.spk.len)
  + (IF wflag THEN VarIntSize(o.wit.sp.len) + o.wit.sp.len + VarIntSize(o.wit.rp.len) + o.wit.rp.len ELSE 0)
RECURSIVE SumIn(_, _, _, _)
SumIn(tx, scale, wflag, i) == IF i > Len(tx.ins) THEN 0 ELSE ScaledIn(tx.ins[i], scale, wflag) + SumIn(tx, scale, wflag, i + 1)
RECURSIVE SumOut(_, _, _, _)
SumOut(tx, scale, wflag, j) == IF j > Len(tx.outs) THEN 0 ELSE ScaledOut(tx.outs[j], scale, wflag) + SumOut(tx, scale, wflag, j + 1)
ScaledSize(tx, scale) ==
  LET wf == HasWitness(tx) IN
  scale * (4 + 4 + VarIntSize(Len(tx.ins)) + VarIntSize(Len(tx.outs)) + 1) + SumIn(tx, scale, wf, 1) + SumOut(tx, scale, wf, 1)

---------------------------------------------------------------------------
(* Dynafed parameters, block headers, blocks *)
EncParams(p) ==
  CASE p.kind = "null"    -> << U8(0) >>
    [] p.kind = "compact" -> << U8(1) >> \o EncVarBytes(p.sbs) \o << U32(p.lim), Fld(p.elided, 32, "r") >>
    [] p.kind = "full"    -> << U8(2) >> \o EncVarBytes(p.sbs) \o << U32(p.lim) >> \o EncVarBytes(p.fp) \o EncVarBytes(p.fps) \o EncStack(p.ext)
DecParams(t) ==
  LET k == DecU8(t) IN IF ~k.ok THEN Fail ELSE
  IF k.val = 0 THEN Okay([kind |-> "null"], k.rest)
  ELSE IF k.val = 1 THEN
    LET s == DecVarBytes(k.rest, {"r"}) IN IF ~s.ok THEN Fail ELSE
    LET l == DecU32(s.rest) IN IF ~l.ok THEN Fail ELSE
    LET e == DecFld(l.rest, 32, {"r"}) IN IF ~e.ok THEN Fail ELSE
    Okay([kind |-> "compact", sbs |-> s.val, lim |-> l.val, elided |-> e.val.f], e.rest)
  ELSE IF k.val = 2 THEN
    LET s == DecVarBytes(k.rest, {"r"}) IN IF ~s.ok THEN Fail ELSE
    LET l == DecU32(s.rest) IN IF ~l.ok THEN Fail ELSE
    LET a == DecVarBytes(l.rest, {"r"}) IN IF ~a.ok THEN Fail ELSE
    LET b == DecVarBytes(a.rest, {"r"}) IN IF ~b.ok THEN Fail ELSE
    LET x == DecStack(b.rest) IN IF ~x.ok THEN Fail ELSE
    Okay([kind |-> "full", sbs |-> s.val, lim |-> l.val, fp |-> a.val, fps |-> b.val, ext |-> x.val], x.rest)
  ELSE Fail                                                  \* params tag not in {0,1,2}
NormStack(st) == [k \in DOMAIN st |-> NormB(st[k])]
NormParams(p) ==
  CASE p.kind = "null" -> p
    [] p.kind = "compact" -> [p EXCEPT !.sbs = NormB(@)]
    [] p.kind = "full" -> [p EXCEPT !.sbs = NormB(@), !.fp = NormB(@), !.fps = NormB(@), !.ext = NormStack(@)]

\* header version classes (always < 2^31 in memory); the dynafed marker is bit 31 on the wire
VersionWire(v, dyn) == CASE v = "20000000" -> IF dyn THEN "a0000000" ELSE "20000000"
                         [] v = "1" -> IF dyn THEN "80000001" ELSE "1"
                         [] v = "60000000" -> IF dyn THEN "e0000000" ELSE "60000000"      \* bit 30 is an ordinary version bit
                         [] v = "7fffffff" -> IF dyn THEN "ffffffff" ELSE "7fffffff"
                         \* in memory only: the marker bit already set in the version field (the serializer ORs the marker in, so a dynafed
                         \* header keeps its wire form; such a value is not what decoding that wire form returns)
                         [] v = "a0000000" -> "a0000000"
VersionOfWire(w) == CASE w = "a0000000" -> [v |-> "20000000", dyn |-> TRUE] [] w = "20000000" -> [v |-> "20000000", dyn |-> FALSE]
                      [] w = "80000001" -> [v |-> "1", dyn |-> TRUE] [] w = "1" -> [v |-> "1", dyn |-> FALSE]
                      [] w = "e0000000" -> [v |-> "60000000", dyn |-> TRUE] [] w = "60000000" -> [v |-> "60000000", dyn |-> FALSE]
                      [] w = "ffffffff" -> [v |-> "7fffffff", dyn |-> TRUE] [] w = "7fffffff" -> [v |-> "7fffffff", dyn |-> FALSE]
IsDyn(h) == h.ext.kind = "dynafed"
EncHeaderCommon(h) == << U32(VersionWire(h.version, IsDyn(h))), Fld(h.prev, 32, "r"), Fld(h.mroot, 32, "r"), U32(h.time), U32(h.height) >>
EncExt(e) == IF e.kind = "proof" THEN EncVarBytes(e.challenge) \o EncVarBytes(e.solution)
             ELSE EncParams(e.cur) \o EncParams(e.prop) \o EncStack(e.wit)
EncHeader(h) == EncHeaderCommon(h) \o EncExt(h.ext)
DecHeader(t) ==
  LET v == DecU32(t) IN IF ~v.ok THEN Fail ELSE
  LET p == DecFld(v.rest, 32, {"r"}) IN IF ~p.ok THEN Fail ELSE
  LET m == DecFld(p.rest, 32, {"r"}) IN IF ~m.ok THEN Fail ELSE
  LET ti == DecU32(m.rest) IN IF ~ti.ok THEN Fail ELSE
  LET he == DecU32(ti.rest) IN IF ~he.ok THEN Fail ELSE
  LET vw == VersionOfWire(v.val) IN
  IF vw.dyn THEN
    LET c == DecParams(he.rest) IN IF ~c.ok THEN Fail ELSE
    LET q == DecParams(c.rest) IN IF ~q.ok THEN Fail ELSE
    LET w == DecStack(q.rest) IN IF ~w.ok THEN Fail ELSE
    Okay([version |-> vw.v, prev |-> p.val.f, mroot |-> m.val.f, time |-> ti.val, height |-> he.val,
          ext |-> [kind |-> "dynafed", cur |-> c.val, prop |-> q.val, wit |-> w.val]], w.rest)
  ELSE
    LET c == DecVarBytes(he.rest, {"r"}) IN IF ~c.ok THEN Fail ELSE
    LET so == DecVarBytes(c.rest, {"r"}) IN IF ~so.ok THEN Fail ELSE
    Okay([version |-> vw.v, prev |-> p.val.f, mroot |-> m.val.f, time |-> ti.val, height |-> he.val,
          ext |-> [kind |-> "proof", challenge |-> c.val, solution |-> so.val]], so.rest)
NormHeader(h) == [h EXCEPT !.ext = IF @.kind = "proof" THEN [@ EXCEPT !.challenge = NormB(@), !.solution = NormB(@)]
                                   ELSE [@ EXCEPT !.cur = NormParams(@), !.prop = NormParams(@), !.wit = NormStack(@)]]

\* C02: the block hash commits to everything except the block-signing solution / signblock witness
BlockHashPre(h) == EncHeaderCommon(h) \o (IF h.ext.kind = "proof" THEN EncVarBytes(h.ext.challenge)
                                          ELSE EncParams(h.ext.cur) \o EncParams(h.ext.prop))
ClearWitness(h) == [h EXCEPT !.ext = IF @.kind = "proof" THEN [@ EXCEPT !.solution = B("", 0)] ELSE [@ EXCEPT !.wit = << >>]]
HeaderWitnessFree(h) == IF h.ext.kind = "proof" THEN h.ext.solution.len = 0 ELSE Len(h.ext.wit) = 0

EncBlock(b) == EncHeader(b.header) \o << VI(Len(b.txs)) >> \o CatMap(EncTx, b.txs, 1)
RECURSIVE SumTx(_, _, _)
SumTx(F(_), txs, i) == IF i > Len(txs) THEN 0 ELSE F(txs[i]) + SumTx(F, txs, i + 1)
BlockSize(b)   == ByteLen(EncBlock(b))
BlockWeight(b) == 4 * (ByteLen(EncHeader(b.header)) + MinW(Len(b.txs))) + SumTx(Weight, b.txs, 1)
DecBlock(t) ==
  LET h == DecHeader(t) IN IF ~h.ok THEN Fail ELSE
  LET x == DecVec(DecTx, h.rest, 13000) IN IF ~x.ok THEN Fail ELSE
  Okay([header |-> h.val, txs |-> x.val], x.rest)

HeaderRoundTrip(h) == LET r == DecHeader(EncHeader(h)) IN r.ok /\ Len(r.rest) = 0 /\ NormHeader(r.val) = NormHeader(h)
HeaderCanonical(toks) == LET r == DecHeader(toks) IN (r.ok /\ Len(r.rest) = 0) => EncHeader(r.val) = toks
\* clearing the witness never changes the hash preimage, and leaves no witness token in the encoding
ClearKeepsHash(h) == /\ BlockHashPre(ClearWitness(h)) = BlockHashPre(h)
                     /\ HeaderWitnessFree(ClearWitness(h))
                     /\ (HeaderWitnessFree(h) => NormHeader(ClearWitness(h)) = NormHeader(h))

---------------------------------------------------------------------------
(* Model-level claims, stated for one transaction shape / token string *)
\* RT: a canonical value decodes from its own encoding, completely
RoundTrip(tx) == LET r == DecTx(EncTx(tx)) IN r.ok /\ Len(r.rest) = 0 /\ NormTx(r.val) = NormTx(tx)
\* CANON: whatever token string is accepted re-encodes to itself (so no two strings decode to equal values)
Canonical(toks) == LET r == DecTx(toks) IN (r.ok /\ Len(r.rest) = 0) => EncTx(r.val) = toks
\* LEN / sizes
SizesAgree(tx) == ScaledSize(tx, 1) = Size(tx) /\ ScaledSize(tx, 4) = Weight(tx)
\* C02: the txid preimage contains no witness token and equals the full encoding iff there is no witness
IdsRelate(tx) == (WtxidPre(tx) = TxidPre(tx)) <=> ~HasWitness(tx)
=============================================================================
