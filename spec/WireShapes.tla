----------------------------- MODULE WireShapes -----------------------------
(***************************************************************************)
(* Shape families and token-level mutations for the Wire specification.    *)
(* Field names are positional ("i1.txid", "o2.value", ...).                *)
(***************************************************************************)
EXTENDS Wire

CONSTANTS RpLen,      \* length of the range-proof field used in witnesses
          SpLen       \* length of the surjection-proof field

Nm(p, k, s) == p \o ToString(k) \o "." \o s

ValueKinds == {"null", "expl", "c8", "c9"}
AssetKinds == {"null", "expl", "ca", "cb"}
NonceKinds == {"null", "expl", "c2", "c3"}

\* issuance descriptor: "none" or <<nonce attr, amount kind, keys kind>>
IssKinds == {<<"none">>} \cup { <<na, ak, kk>> : na \in {"z", "sc"}, ak \in ValueKinds, kk \in ValueKinds }
MkIss(n, d) == IF d[1] = "none" THEN NoIss
               ELSE Iss(d[1], Nm("i", n, "nonce"), Nm("i", n, "entropy"),
                        Conf(d[2], Nm("i", n, "amount")), Conf(d[3], Nm("i", n, "keys")))

InWitMasks == SUBSET {"arp", "krp", "sw", "pw"}
MkInWit(n, m) ==
  [arp |-> IF "arp" \in m THEN [f |-> Nm("i", n, "arp"), len |-> RpLen, a |-> "rp"] ELSE B("", 0),
   krp |-> IF "krp" \in m THEN [f |-> Nm("i", n, "krp"), len |-> RpLen, a |-> "rp"] ELSE B("", 0),
   sw  |-> IF "sw" \in m THEN << B(Nm("i", n, "sw1"), 72), B("", 0), B(Nm("i", n, "sw3"), 33) >> ELSE << >>,
   pw  |-> IF "pw" \in m THEN << B(Nm("i", n, "pw1"), 8), B(Nm("i", n, "pw2"), 253) >> ELSE << >>]

MkIn(n, vout, pegin, issd, sslen, wmask) ==
  [txid |-> Nm("i", n, "txid"), vout |-> vout, pegin |-> pegin, ss |-> B(Nm("i", n, "ss"), sslen),
   seq |-> "fffffffe", iss |-> MkIss(n, issd), wit |-> MkInWit(n, wmask)]

OutWitMasks == SUBSET {"sp", "rp"}
MkOutWit(n, m) ==
  [sp |-> IF "sp" \in m THEN [f |-> Nm("o", n, "sp"), len |-> SpLen, a |-> "sp"] ELSE B("", 0),
   rp |-> IF "rp" \in m THEN [f |-> Nm("o", n, "rp"), len |-> RpLen, a |-> "rp"] ELSE B("", 0)]
MkOut(n, ak, vk, nk, spklen, wmask) ==
  [asset |-> Conf(ak, Nm("o", n, "asset")), value |-> Conf(vk, Nm("o", n, "value")), nonce |-> Conf(nk, Nm("o", n, "nonce")),
   spk |-> B(Nm("o", n, "spk"), spklen), wit |-> MkOutWit(n, wmask)]

MkTx(ins, outs) == [version |-> "2", ins |-> ins, outs |-> outs, lock |-> "1f4"]

SimpleIn(n)  == MkIn(n, "small", FALSE, <<"none">>, 1, {})
SimpleOut(n) == MkOut(n, "expl", "expl", "null", 22, {})

\* --- families -------------------------------------------------------------
\* every input kind x script length x witness subset, alone and next to a plain output
InKinds == { k \in {"zero", "small", "max30", "null"} \X BOOLEAN \X IssKinds :
               CanonIn(MkIn(1, k[1], k[2], k[3], 0, {})) }
FamIn(SsLens, Masks) ==
  { MkTx(<< MkIn(1, k[1], k[2], k[3], l, m) >>, << SimpleOut(1) >>) : k \in InKinds, l \in SsLens, m \in Masks }
\* every output kind
FamOut(SpkLens, Masks) ==
  { MkTx(<< SimpleIn(1) >>, << MkOut(1, a, v, n, l, m) >>) : a \in AssetKinds, v \in ValueKinds, n \in NonceKinds, l \in SpkLens, m \in Masks }
\* all 2^12 subsets of the six witness fields over two inputs and two outputs
FamWit ==
  { MkTx(<< MkIn(1, "zero", FALSE, <<"z", "expl", "null">>, 0, m1), MkIn(2, "small", TRUE, <<"none">>, 3, m2) >>,
         << MkOut(1, "ca", "c8", "c2", 22, n1), MkOut(2, "expl", "expl", "null", 0, n2) >>)
    : m1 \in InWitMasks, m2 \in InWitMasks, n1 \in OutWitMasks, n2 \in OutWitMasks }
\* vector counts 0..2 on both sides
FamCounts ==
  { MkTx([i \in 1..a |-> SimpleIn(i)], [j \in 1..b |-> SimpleOut(j)]) : a \in 0..2, b \in 0..2 }
\* varint boundaries: counts and lengths at 252 / 253 / 65535 / 65536
FamWide ==
  { MkTx([i \in 1..n |-> SimpleIn(i)], << SimpleOut(1) >>) : n \in {252, 253} } \cup
  { MkTx(<< SimpleIn(1) >>, [j \in 1..n |-> SimpleOut(j)]) : n \in {252, 253} } \cup
  { MkTx(<< MkIn(1, "small", FALSE, <<"none">>, l, {}) >>, << MkOut(1, "expl", "expl", "null", l, {}) >>) : l \in {75, 76, 252, 253, 65535, 65536} } \cup
  { MkTx(<< [SimpleIn(1) EXCEPT !.wit.sw = [k \in 1..n |-> B("", 0)]] >>, << SimpleOut(1) >>) : n \in {252, 253} } \cup
  { MkTx(<< [SimpleIn(1) EXCEPT !.wit.arp = [f |-> "i1.arp", len |-> l, a |-> "rp"]] >>,
         << [SimpleOut(1) EXCEPT !.wit.rp = [f |-> "o1.rp", len |-> l, a |-> "rp"]] >>) : l \in {252, 253, 65535, 65536} } \cup
  \* the remaining length / count prefixes of the witness: inflation-keys proof, surjection proof, pegin witness count, stack item lengths
  { MkTx(<< [SimpleIn(1) EXCEPT !.wit.krp = [f |-> "i1.krp", len |-> l, a |-> "rp"]] >>,
         << [SimpleOut(1) EXCEPT !.wit.sp = [f |-> "o1.sp", len |-> IF l = 65536 THEN 8226 ELSE l, a |-> "sp"]] >>) : l \in {252, 253, 65536} } \cup
  { MkTx(<< [SimpleIn(1) EXCEPT !.wit.pw = [k \in 1..n |-> B("", 0)]] >>, << SimpleOut(1) >>) : n \in {252, 253} } \cup
  { MkTx(<< [SimpleIn(1) EXCEPT !.wit.sw = << B("i1.sw1", l) >>, !.wit.pw = << B("i1.pw1", l) >>] >>, << SimpleOut(1) >>) : l \in {252, 253, 65535, 65536} }
\* lock times on both sides of the height / time threshold (500 000 000 = 0x1dcd6500); the harness builds them with the
\* constructors of their kind (from_height below the threshold, from_time from it on), not through from_consensus
FamLock == { [MkTx(<< SimpleIn(1) >>, << SimpleOut(1) >>) EXCEPT !.lock = l] : l \in {"0", "1dcd64ff", "1dcd6500", "1dcd6501", "ffffffff"} }
\* non-canonical in-memory shapes whose encodings the decoder must refuse: issuance flag with a null issuance
FamNullIss ==
  { MkTx(<< MkIn(1, v, p, <<na, "null", "null">>, 0, {}) >>, << SimpleOut(1) >>) : v \in {"zero", "small"}, p \in BOOLEAN, na \in {"z", "sc"} }

\* --- headers and blocks ---------------------------------------------------
MkParams(pfx, kind, sbs, ext) ==
  CASE kind = "null" -> [kind |-> "null"]
    [] kind = "compact" -> [kind |-> "compact", sbs |-> B(pfx \o ".sbs", sbs), lim |-> "ffffffff", elided |-> pfx \o ".elided"]
    [] kind = "full" -> [kind |-> "full", sbs |-> B(pfx \o ".sbs", sbs), lim |-> "64", fp |-> B(pfx \o ".fp", 22), fps |-> B(pfx \o ".fps", IF sbs = 0 THEN 0 ELSE 253),
                         ext |-> [k \in 1..Len(ext) |-> B(pfx \o ".ext" \o ToString(k), ext[k])]]
ParamKinds == { <<"null", 0, << >> >>, <<"compact", 0, << >> >>, <<"compact", 33, << >> >>,
                <<"full", 0, << >> >>, <<"full", 33, <<33>> >>, <<"full", 253, <<0, 33, 253>> >> }
MkP(pfx, d) == MkParams(pfx, d[1], d[2], d[3])
MkHeader(ver, ext) == [version |-> ver, prev |-> "h.prev", mroot |-> "h.mroot", time |-> "5b804288", height |-> "2", ext |-> ext]
WitStacks == { << >>, << B("h.w1", 72) >>, << B("", 0), B("h.w2", 253) >> }
FamHeader ==
  { MkHeader(v, [kind |-> "proof", challenge |-> B("h.challenge", c), solution |-> B("h.solution", so)])
      : v \in {"20000000", "1"}, c \in {0, 1, 253}, so \in {0, 72, 253} } \cup
  \* every version bit below the dynafed marker is an ordinary bit: bit 30 set, all of them set
  { MkHeader(v, [kind |-> "proof", challenge |-> B("h.challenge", 1), solution |-> B("h.solution", 72)]) : v \in {"60000000", "7fffffff"} } \cup
  { MkHeader(v, [kind |-> "dynafed", cur |-> MkP("c", <<"compact", 33, << >> >>), prop |-> MkP("p", <<"null", 0, << >> >>), wit |-> << >>]) : v \in {"60000000", "7fffffff"} } \cup
  { MkHeader(v, [kind |-> "dynafed", cur |-> MkP("c", c), prop |-> MkP("p", q), wit |-> w])
      : v \in {"20000000", "1"}, c \in ParamKinds, q \in ParamKinds, w \in WitStacks }
FamBlock ==
  { [header |-> h, txs |-> txs] :
      h \in { x \in FamHeader : x.version = "20000000" /\ (x.ext.kind = "proof" => x.ext.challenge.len = 1) /\
                                (x.ext.kind = "dynafed" => x.ext.cur.kind = "full" /\ x.ext.prop.kind = "null") },
      txs \in { << >>, << MkTx(<< SimpleIn(1) >>, << SimpleOut(1) >>) >>,
                << MkTx(<< MkIn(1, "null", FALSE, <<"none">>, 3, {"sw"}) >>, << SimpleOut(1), MkOut(2, "ca", "c8", "c2", 22, {"sp", "rp"}) >>),
                   MkTx(<< SimpleIn(1), SimpleIn(2) >>, << SimpleOut(1) >>) >> } }

\* varint boundaries of the counts that only headers and blocks have: extension-space entries, signblock witness items, transactions
WideHeader(n, w) == MkHeader("20000000", [kind |-> "dynafed", cur |-> MkP("c", <<"full", 33, [k \in 1..n |-> 1]>>), prop |-> MkP("p", <<"null", 0, << >> >>),
                                          wit |-> [k \in 1..w |-> B("", 0)]])
\* in-memory only (C02: the hash is that of the serialization whatever the version field holds; not part of the round-trip claim)
FamHeaderMarked == { MkHeader("a0000000", [kind |-> "dynafed", cur |-> MkP("c", d), prop |-> MkP("p", <<"null", 0, << >> >>), wit |-> << >>]) : d \in { <<"compact", 33, << >> >>, <<"null", 0, << >> >> } }
FamHeaderWide == { WideHeader(n, w) : n \in {0, 252, 253}, w \in {0, 252, 253} }
FamBlockWide ==
  { [header |-> MkHeader("20000000", [kind |-> "proof", challenge |-> B("h.challenge", 1), solution |-> B("h.solution", 72)]),
     txs |-> [k \in 1..n |-> MkTx(<< SimpleIn(1) >>, << SimpleOut(1) >>)]] : n \in {252, 253, 254} }

\* --- C02: single-field positions of a transaction and whether they are witness data ------
InFields(t, n) ==
  { [f |-> Nm("i", n, x), w |-> FALSE] : x \in {"txid", "vout", "ss", "seq"} }
  \cup (IF t.vout # "null" THEN { [f |-> Nm("i", n, "pegin"), w |-> FALSE] } ELSE {})
  \cup (IF t.iss.has THEN { [f |-> Nm("i", n, x), w |-> FALSE] : x \in {"nonce", "entropy", "amount", "keys"} } ELSE {})
  \cup { [f |-> Nm("i", n, x), w |-> TRUE] : x \in {"arp", "krp", "sw", "pw"} }
OutFields(o, n) ==
  { [f |-> Nm("o", n, x), w |-> FALSE] : x \in {"asset", "value", "nonce", "spk"} }
  \cup { [f |-> Nm("o", n, x), w |-> TRUE] : x \in {"sp", "rp"} }
Fields(tx) == { [f |-> "version", w |-> FALSE], [f |-> "lock", w |-> FALSE] }
              \cup UNION { InFields(tx.ins[i], i) : i \in DOMAIN tx.ins }
              \cup UNION { OutFields(tx.outs[j], j) : j \in DOMAIN tx.outs }
\* header fields: everything is committed except the solution / signblock witness
HeaderFields(h) ==
  { [f |-> x, w |-> FALSE] : x \in {"version", "prev", "mroot", "time", "height"} } \cup
  (IF h.ext.kind = "proof" THEN { [f |-> "challenge", w |-> FALSE], [f |-> "solution", w |-> TRUE] }
   ELSE { [f |-> "signblock_witness", w |-> TRUE] }
        \cup UNION { (IF h.ext[s].kind = "null" THEN {}
                      ELSE { [f |-> s \o "." \o x, w |-> FALSE] : x \in (IF h.ext[s].kind = "compact" THEN {"sbs", "lim", "elided"}
                                                                          ELSE {"sbs", "lim", "fp", "fps", "ext"}) })
                     : s \in {"cur", "prop"} })

---------------------------------------------------------------------------
(* Token-level mutations (each local, so the token decoder stays in sync with the byte decoder) *)
Widen(w) == IF w = 1 THEN 3 ELSE IF w = 3 THEN 5 ELSE 9
BadAttr(a) == CASE a = "pt" -> "bx" [] a = "sc" -> "bs" [] a = "rp" -> "bp" [] a = "sp" -> "bq" [] OTHER -> a
MutTok(t) ==      \* set of replacement tokens for one token
  CASE t[1] = "viw" -> IF t[3] < 9 THEN { VIW(t[2], Widen(t[3])) } ELSE {}
    [] t[1] = "u8"  -> { U8(12) } \cup (IF t[2] \in {8, 10, 2} THEN { U8(t[2] + 1) } ELSE IF t[2] \in {9, 11, 3} THEN { U8(t[2] - 1) } ELSE {})
    [] t[1] = "f"   -> IF BadAttr(t[4]) # t[4] THEN { Fld(t[2], t[3], BadAttr(t[4])) } ELSE {}
    [] OTHER -> {}
SetTokAt(toks, i, t) == [toks EXCEPT ![i] = t]
LocalMutants(toks) == UNION { { SetTokAt(toks, i, t) : t \in MutTok(toks[i]) } : i \in DOMAIN toks }
\* witness flag byte (token 2 of a transaction) forced to the other value
FlagMutants(toks) == IF Len(toks) >= 2 /\ toks[2][1] = "u8" /\ toks[2][2] \in {0, 1}
                     THEN { SetTokAt(toks, 2, U8(1 - toks[2][2])), SetTokAt(toks, 2, U8(2)) } ELSE {}
Truncations(toks) == { SubSeq(toks, 1, k) : k \in (IF Len(toks) > 6 THEN {Len(toks) - 1, Len(toks) - 2, Len(toks) \div 2, 1} ELSE 0..(Len(toks) - 1)) }
Extensions(toks)  == { Append(toks, U8(0)), Append(toks, U32("1")) }
\* only the length / count prefixes re-written one width wider: at the boundaries 252 | 253 and 65535 | 65536 this is the largest
\* value a wider form must refuse and the smallest it must take
HiMutants(toks) == { SetTokAt(toks, i, <<"vihi", toks[i][2]>>) : i \in { j \in DOMAIN toks : toks[j][1] = "viw" } }
WidenMutants(toks) == UNION { { SetTokAt(toks, i, t) : t \in MutTok(toks[i]) } : i \in { j \in DOMAIN toks : toks[j][1] = "viw" } }
BoundaryBases ==
  { MkTx(<< MkIn(1, "small", FALSE, <<"none">>, l, {}) >>, << MkOut(1, "expl", "expl", "null", l, {}) >>) : l \in {252, 253, 65535, 65536} } \cup
  { MkTx([i \in 1..n |-> SimpleIn(i)], << SimpleOut(1) >>) : n \in {252, 253} } \cup
  { MkTx(<< [SimpleIn(1) EXCEPT !.wit.sw = << B("i1.sw1", l) >>] >>, << SimpleOut(1) >>) : l \in {252, 253, 65535, 65536} } \cup
  \* the largest byte vector the decoder takes
  { MkTx(<< MkIn(1, "small", FALSE, <<"none">>, MaxVec, {}) >>, << SimpleOut(1) >>), MkTx(<< [SimpleIn(1) EXCEPT !.wit.sw = << B("i1.sw1", MaxVec) >>] >>, << SimpleOut(1) >>) }
\* one byte more: a value the encoder writes and the decoder must refuse
OverMaxBases ==
  { MkTx(<< MkIn(1, "small", FALSE, <<"none">>, MaxVec + 1, {}) >>, << SimpleOut(1) >>), MkTx(<< [SimpleIn(1) EXCEPT !.wit.sw = << B("i1.sw1", MaxVec + 1) >>] >>, << SimpleOut(1) >>),
    MkTx(<< SimpleIn(1) >>, << MkOut(1, "expl", "expl", "null", MaxVec + 1, {}) >>) }
Mutants(toks) == LocalMutants(toks) \cup FlagMutants(toks) \cup Truncations(toks) \cup Extensions(toks)

\* flag 1 with an all-empty witness section (only meaningful for a transaction without witness)
EmptyWitnessForm(tx) == EncTxBody(tx, 1) \o EncTxWits(tx)
=============================================================================
